"""Per-property wording for MANIFEST.json."""

HOOK_COMMITS = ["173a0a4", "9168683"]

TEXT = {
    "C01": {
        "technique": "property-based testing (rapid) with an independent NIP-01 serializer + btcec signing as oracle; single-alteration metamorphic checks; native go fuzz target in the thorough tier",
        "level_text": "Exploration: generated events over all Unicode scalar values are serialized, signed and altered; Serialize() must equal an independently written canonical serializer byte for byte, every signed event must verify and each of ~14 single alterations must not. Sound, not exhaustive. A relay-gate stage sends signed events and altered copies over a real WebSocket connection; a many-authors stage verifies 1030-2100 distinct keys in one process and then forged cross-key claims.",
        "level_note": "Trusted: harness/gen/nip01.go canonical serializer (written from the NIP text), btcec/v2/schnorr as BIP-340 implementation, crypto/sha256. Strings are valid UTF-8.",
    },
    "C03": {
        "technique": "stateful property-based testing (rapid): generated insertion histories, after every step generated filter lists are queried and judged by a tie-tolerant reference query oracle over the observed retained set",
        "level_text": "Exploration: thousands of histories x queries after every step; the oracle accepts exactly the answers that are unions of 'limit newest matching' sets under some tie-break, so index-path and scan-path filters are held to the same specification. A soak stage runs the same machine over 600-1800 steps on tiny stores and over stores of 1025-2050 events; filter lists of 100-160 filters and events with 63-256 indexable tags are part of the generators.",
        "level_note": "Trusted: harness/model/query.go (oracle), harness/gen/nip01.go (predicate). Only states reachable through Add. Filter tag values never \"\".",
    },
    "C04": {
        "technique": "stateful property-based testing (rapid) as step-by-step refinement: every observed Add transition must be in the specification's nondeterministic transition relation computed from the observed retained set",
        "level_text": "Exploration: ~25 transitions per history, thousands of histories per run over all event classes, arrival orders, equal timestamps and capacities 1-8 (and 30-150); each transition is checked against Allowed(S,cap,e) plus the invariants. A soak stage runs the same machine over 600-1800 steps on tiny stores and over stores of 1025-2050 events.",
        "level_note": "Trusted: harness/model/store.go. Equal-timestamp versions, d-less addressable events and address references to replaceable events are admitted either way (statement silent).",
    },
    "C05": {
        "technique": "stateful property-based testing (rapid): multi-author histories with targeted deletion requests; deletion and author-isolation clauses of the transition relation checked at every step",
        "level_text": "Exploration: same machine as C04 focused on the deletion clauses: exact removal set of each kind-5, suppression while retained, re-insertion after it left, and no effect of one author's events on another's except the capacity victim. A soak stage runs deletion-heavy histories of 900-1800 steps; deletion requests with 31-70 targets and duplicated tags are generated.",
        "level_note": "Trusted: harness/model/store.go (Refs/OpenRef). e values are ids, a values are addresses (the two are not mixed); self-referencing deletion requests cannot exist with hashed ids.",
    },
    "C17": {
        "technique": "property-based testing (rapid): generated middleware stacks / NIP-11 documents x generated message sequences at, below and above each limit, pushed through the real middleware plumbing with barrier messages; oracle = own re-statement of every limit",
        "level_text": "Exploration over configurations and inputs: each case builds a stack (or the NIP-11 chain), sends 4-14 messages sized around the limits and checks, per message, forwarded-unchanged vs exactly-one-rejection-of-the-right-type, plus pointer-equal ordered pass-through of server messages. Limits of 63-65536 are drawn as well; a clock stage re-checks the created_at limits on handlers that have been in service for seconds and have seen a session end.",
        "level_note": "Trusted: harness/handlers/mwmodel.go. Real clock for created_at limits with a 5 s safety margin (closer cases are excluded and counted). Lengths measured on ASCII.",
    },
    "C18": {
        "technique": "stateful property-based testing (rapid): per-connection models (quota set; window of the last W distinct ids) for 1-4 sessions on one shared middleware, interleaved by a generated schedule or run concurrently",
        "level_text": "Exploration of REQ/CLOSE/EVENT histories over small id alphabets so that every quota/window boundary is crossed in both directions; each session carries its own model, so state leaking between connections is a mismatch. A soak stage runs one session of thousands of sightings against windows of 3-1000 ids with repeat runs around round counts.",
        "level_note": "Trusted: the window/quota models in harness/handlers/c18_test.go. An id seen but outside the window may go either way.",
    },
    "C19": {
        "technique": "stateful property-based testing (rapid): generated multi-session schedules against a tally model; Registry.Gather() compared with the model after every barrier echo; concurrent variant compares totals; parallel-directions variant releases a client message and a handler message about the same subscription at the same moment (hundreds of rounds per case)",
        "level_text": "Exploration of message histories incl. repeated REQ/CLOSE, server CLOSED and sessions ending with open subscriptions; every quiescent point is compared exactly (gauges, per-type and per-kind counters) and pass-through is pointer-equal. A soak stage sends 300-2100 distinct kinds and ends 50-600 subscriptions in one session; nil handler messages are generated.",
        "level_note": "Trusted: the tally model in harness/handlers/c19_test.go. The harness's own barrier CLOSE / marker NOTICE messages are part of the tallies.",
    },
    "C08": {
        "technique": "property-based testing (rapid) with a harness-owned deterministic scheduler: scripted child handlers, atomic steps client_send / child_recv / child_emit with NOTICE markers through the merger's own FIFO; REQ model checked per step",
        "level_text": "Exploration of generated interleavings of child outputs with each other and with client input; because the harness owns every producer the generated schedule is executed exactly (and shrinks), so 'EOSE in the step that completes the set' is an exact safety check. A scale stage uses 63-130 children with a generated last finisher.",
        "level_note": "Trusted: the REQ model in harness/handlers/merge_test.go; the FIFO argument of the marker technique (one forwarding goroutine per child, one consumer, NOTICE passes unchanged). Children emit for a subscription only after receiving its REQ; ids re-issued only after their merged EOSE.",
    },
    "C09": {
        "technique": "property-based testing (rapid) with the same deterministic scheduler: children's OK / COUNT replies released in generated interleavings with several requests (and repeated ids) in flight; aggregation model checked per step and at quiescence",
        "level_text": "Exploration: per step an aggregated reply must appear exactly when the last child answered the oldest open request of that id (verdict = all accepted, rejection text starts with the first rejecting child's reason, COUNT = max); at quiescence #OK(id) == #EVENT(id). Scale stages: one EVENT unanswered while 300-2100 others complete; 8-40 COUNTs of one id in flight.",
        "level_note": "Trusted: the aggregation model in merge_test.go. 'First rejecting child' accepted as lowest index or earliest in time.",
    },
    "C06": {
        "technique": "stateful property-based testing (rapid): generated batch histories inserted through insertEvents, generated filter lists through queryEvent, judged by a reference model (newest version per address, author-scoped tombstones) with the tie-tolerant query oracle; metamorphic re-split of batch boundaries into a second database",
        "level_text": "Exploration: hundreds of histories per run x queries after every batch against an independent model of stored/live events; every returned event compared in all seven fields.",
        "level_note": "Trusted: harness/model/sqlitemodel.go + query oracle. Assumes no 32-bit xxHash key collision within a case; d-less addressable events, replaceable-address references and MaxLimit are outside the statement and not generated; equal-timestamp versions may resolve either way.",
    },
    "C14": {
        "technique": "fault injection by enumeration: a wrapping database/sql driver fails driver call n (begin / prepare / exec of each statement kind / commit, also connection-level exec) for EVERY n of a generated batch; battery of queries before/after; retry and repeat; generated close/reopen placements on file-backed databases",
        "level_text": "Fault enumeration: for each generated (history, batch) the failing call index is enumerated exhaustively; atomicity = battery answers unchanged after each failure, idempotence = unchanged after repeat, restart-stability = unchanged after reopen and model-equal afterwards.",
        "level_note": "Faults are injected at the driver API before the call executes (commit failure rolls back like go-sqlite3); no torn-page / power-loss model. Batteries compare unlimited queries exactly (as sets with content digests) and all queries against the model.",
    },
    "C12": {
        "technique": "property-based testing (rapid) over real loopback WebSocket connections: generated frame sequences (valid, malformed, forged, replayed-with-alteration) against a frame classification oracle and a recording handler; generated handler output decoded by an independent JSON decoder",
        "level_text": "Exploration: hundreds of connections per run; per connection the handler must have received exactly the valid authentic frames in order, the client exactly one rejection per other frame in order, the connection must survive, and emitted server messages must arrive as equal JSON text frames. Relay options are generated (ping 1 min / 3 ms / off, default or unlimited burst, logger on/off); the client reads concurrently; a long-lived-relay stage serves 25-60 connections on one relay.",
        "level_note": "Trusted: the frame oracle (harness/gen wire + corruption classes), btcec for signing, coder/websocket client. JSON null variants are not generated; frames stay within the relay's default MaxMessageLength (a longer frame is answered by closing the connection, the documented size limit). Sentinel CLOSE messages synchronise without sleeps.",
    },
    "C13": {
        "technique": "property-based testing (rapid): generated handler compositions x client histories x cut points x ending modes x peer behaviours with bounded-time termination, goroutine-profile diff, router-registry (hook) and gauge observers; WebSocket send-timeout clause enumerated over ping settings",
        "level_text": "Exploration: after the generated cut ServeNostr must return within 5 s and the goroutines with a mocrelay frame, router registry and gauges must be back to baseline; for every generated send timeout all three ping settings are run against a non-reading client. Dedicated scenarios: large cache answers cut mid-delivery, 255-1030 sessions on one router, a strict receive limit at the cancellation, a SQLite writer blocked by a foreign lock.",
        "level_note": "'Promptly' is a time bound two orders of magnitude above normal latency. Goroutine baseline is taken per case after handler construction (SQLite's bulk inserter is handler-lifetime). Hook: RouterHandler.VerifSubscriptionCount (tag verif).",
    },
    "C20": {
        "technique": "property-based testing (rapid): generated header combinations x mux configurations through httptest (real WebSocket dial for the upgrade route) with an expectation of the served document built independently from the configuration struct; generated NIP-11 documents round-tripped with structural deep equality",
        "level_text": "Exploration over header/configuration combinations and NIP-11 documents; the document oracle is a generic JSON value constructed by the harness from the generated configuration (omitempty semantics), not the code's own encoder. Empty documents, documents of several kilobytes and re-configuration between two requests are generated.",
        "level_note": "Near-miss Accept spellings (parameters, case, lists) may be routed to the document or to the default handler (statement is about the exact value). Empty Upgrade header not generated. The document is re-requested after the configuration changed (in place / derived copy); every *slog.Logger option of the mux and relay is set or unset by reflection.",
    },
    "C16": {
        "technique": "property-based testing (rapid): generated client message sequences against a deterministic store model (cache handler: complete output compared reply by reply) and a prefix-tolerant model (SQLite handler, asynchronous insertion; exact after an observed flush); differential dump/restore with identical-answer and byte-identical second dump checks",
        "level_text": "Exploration: the whole reply stream of each generated session is compared with the model's concatenated expected replies; dump/restore is a differential check between the original and the restored handler on generated queries, including caches of 60-150 events with timestamp ties. A stalled-writer scenario (foreign write lock, session cancelled while blocked, events published again) and batching by timer are part of the SQLite handler checks.",
        "level_note": "Trusted: harness/model/detstore.go (ties excluded by construction for the cache replies), sqlitemodel.go. SQLite REQ answers may reflect any prefix of the submitted events until the flush marker is visible.",
    },
    "C07": {
        "technique": "property-based testing (rapid) against one shared RouterHandler: (seq) harness-owned global schedule with sentinel flushes and a registry model for exact deliveries; (conc) generated concurrent scripts judged by a real-time must/must-not/may rule over logical timestamps; (stall) back-pressure scenarios with a non-reading subscriber",
        "level_text": "Exploration: exact per-event delivery sets in the sequential mode (every step runs to completion, FIFO sentinel flush instead of sleeps), sampled Go-scheduler interleavings in the concurrent mode (also under -race in thorough), and bounded-time publisher progress with a stalled subscriber. Scale stages: 63-300 subscribers, 255-1030 REQ/CLOSE cycles on one connection, a backlogged subscriber closing sibling subscriptions while a publisher keeps publishing.",
        "level_note": "Trusted: registry model + real-time rule (DESIGN.md A.3). Concurrent mode samples the scheduler; it cannot enumerate interleavings inside the registry's locks. 'Never delays publishers' is a 10 s bound (normal: microseconds).",
    },
    "C15": {
        "technique": "property-based testing (rapid) of generated concurrent programs: recorded invocation/response histories checked for linearizability with porcupine against the deterministic store model; looped writer/reader stress templates with atomicity invariants on every query result; read-your-writes (a completed Add is visible to every later query) and concurrent handler sessions with large answers; all also under the Go race detector",
        "level_text": "Exploration of sampled scheduler interleavings: barrier-started rounds concentrate operations on one hot event (versions, deletion request vs target, re-offers) so that conflicting calls overlap; histories are decided exactly by a linearizability checker, and the stress mode runs hundreds of thousands of calls per run against the invariants.",
        "level_note": "Trusted: porcupine v1.3.0, harness/model/detstore.go. Interleavings come from the Go scheduler, not from a controlled scheduler: a lock released a few instructions early can be missed; the race detector is what catches missing synchronisation.",
    },
    "C10": {
        "technique": "property-based testing (rapid): grammar-generated wire texts with near-miss mutations against a no-panic / completeness / decode-encode-decode oracle, value round trips for all 14 types, repository corpus replay; native go fuzz target in the thorough tier",
        "level_text": "Exploration: tens of thousands of generated and mutated JSON texts per run go through ParseClientMsg and json.Unmarshal of all 14 exported types (no panic, complete value, idempotent re-decode), and generated values of every type are round-tripped; thorough adds a coverage-guided fuzz campaign with the same oracle inside the target.",
        "level_note": "Trusted: the harness's JSON writer and Norm() equality (nil tags = empty tags; absent != empty filter list; OK/CLOSED compared on Message()). Top-level null is not an accepted text.",
    },
    "C11": {
        "technique": "property-based testing (rapid): harness-written well-formed NIP-01 client messages (whitespace/escape/order variants) must be admitted and decode to the written value; ~90 constructed single-point corruption classes must be rejected; a strict NIP-01 predicate as soundness oracle over accepted texts; fuzz target in the thorough tier",
        "level_text": "Exploration of both directions of the admission gate: completeness on generated well-formed texts (ground truth known by construction) and soundness on everything that is accepted, including corrupted and mutated texts.",
        "level_note": "Trusted: harness/gen/wire.go (writer + StrictClientMsg predicate). Not generated: since > until, JSON null in place of an object, non-canonical numerals; structural corruptions (arity, label, sub id type, unknown member) only need to yield a sound value if accepted.",
    },
    "C02": {
        "technique": "property-based testing (rapid): generated events x filters against a naive NIP-01 predicate; LimitMatch/Done sequences against model counters",
        "level_text": "Exploration: thousands of generated (event, filter) pairs, filter lists and LimitMatch sequences per run are compared with an independent naive implementation of the NIP-01 predicate; sound (oracle is the property text) but not exhaustive. A third of the cases hand the matcher filters decoded from their JSON text (timestamps around 2^53, limits beyond 2^31); a wide-filter stage uses 1-52 tag conditions.",
        "level_note": "Trusted: the naive predicate in harness/gen/nip01.go. Events have >=1 element per tag (the admission gate's guarantee); filter tag values never \"\".",
    },
}

# additions of the ninth seed round (appended to the notes above)
_ROUND9 = {
    'C20': ' Concurrent stage: 2-4 muxes with documents of different lengths asked from 4-24 goroutines; every answer is the whole document of the mux that was asked.',
    'C01': ' Concurrent-twins stage at the relay gate: 3-8 connections send genuine copies of a fresh event and same-id copies with altered signature / content / created_at at the same moment; exactly the genuine ones reach the handler. Tags without elements are generated.',
    'C12': ' Steady-reader stage: a client that reads 2-5 ms per frame without pausing receives three send timeouts worth of output whole and in order. Handlers also emit message objects they emitted before (same pointer), which must read as they did the first time.',
    'C13': ' Round 9 additions: SQLite handler with its only pooled connection in use and 2-4 sessions with the same or different REQs in progress, cancelled in a generated order; a raw WebSocket peer that stops reading after a ping and answers that ping while the relay write is blocked (dropped within send timeout + 3 s).',
    'C15': ' Simultaneous-writers stage: 2-5 writers insert at the same moment (gate + scheduler yields), then a query with since at one of the new timestamps must show every insertion that had returned.',
    'C14': ' The first open of the database file may be cut at its k-th schema statement (fault driver) before the history starts.',
    'C07': ' A third of the replacing REQs are near twins of what they replace (absent vs empty list, one tag value fewer, limit added or dropped, identical list).',
    'C17': ' Every reply the client received is re-read at the end of the session and must still have the wording it had on receipt (no reply object re-used for a later rejection).',
    'C18': ' Every reply the client received is re-read at the end of the session and must still have the wording it had on receipt.',
    'C02': ' Listed ids / authors get near twins sharing a 1-63 character prefix or suffix; since / until also take far values (0, 2^31 +- 1, 2^32, 2^53+1, 2^62, 2^63-1).',
    'C06': ' Stored events carry tag values over all Unicode scalar values; filters use far since / until values and near-twin ids / authors.',
}
for _k, _v in _ROUND9.items():
    TEXT[_k]['level_note'] += _v
