"""Per-property wording for MANIFEST.json."""

HOOK_COMMITS = []

TEXT = {
    "C01": {
        "technique": "property-based testing (rapid) with an independent NIP-01 serializer + btcec signing as oracle; single-alteration metamorphic checks; native go fuzz target in the thorough tier",
        "level_text": "Exploration: generated events over all Unicode scalar values are serialized, signed and altered; Serialize() must equal an independently written canonical serializer byte for byte, every signed event must verify and each of ~14 single alterations must not. Sound, not exhaustive.",
        "level_note": "Trusted: harness/gen/nip01.go canonical serializer (written from the NIP text), btcec/v2/schnorr as BIP-340 implementation, crypto/sha256. Strings are valid UTF-8.",
    },
    "C02": {
        "technique": "property-based testing (rapid): generated events x filters against a naive NIP-01 predicate; LimitMatch/Done sequences against model counters",
        "level_text": "Exploration: thousands of generated (event, filter) pairs, filter lists and LimitMatch sequences per run are compared with an independent naive implementation of the NIP-01 predicate; sound (oracle is the property text) but not exhaustive.",
        "level_note": "Trusted: the naive predicate in harness/gen/nip01.go. Events have >=1 element per tag (the admission gate's guarantee); filter tag values never \"\".",
    },
}
