"""Per-property wording for MANIFEST.json."""

HOOK_COMMITS = []

TEXT = {
    "C02": {
        "technique": "property-based testing (rapid): generated events x filters against a naive NIP-01 predicate; LimitMatch/Done sequences against model counters",
        "level_text": "Exploration: thousands of generated (event, filter) pairs, filter lists and LimitMatch sequences per run are compared with an independent naive implementation of the NIP-01 predicate; sound (oracle is the property text) but not exhaustive.",
        "level_note": "Trusted: the naive predicate in harness/gen/nip01.go. Events have >=1 element per tag (the admission gate's guarantee); filter tag values never \"\".",
    },
}
