"""Per-property configuration of the driver: package, test selector, case counts per tier."""


def st(run, checks, shards=1, race=False, timeout=900, env=None, **kw):
    d = {"run": run, "checks": checks, "shards": shards, "race": race, "timeout": timeout, "env": env or {}}
    d.update(kw)
    return d


PROPS = {
    "C01": {
        "pkg": "core", "level": "exploration",
        "quick": {"stages": [st("^TestC01(Authenticity|ReferenceAgainstRealEvents)", 2500), st("^TestC01ManyAuthors", 2), st("^TestC01Gate", 250, pkg="session"), st("^TestC01TwinsGate", 16, shards=2, pkg="session")]},
        "thorough": {"stages": [st("^TestC01(Authenticity|ReferenceAgainstRealEvents)", 30000, shards=14, timeout=2400), st("^TestC01ManyAuthors", 40, shards=4, timeout=2400), st("^TestC01Gate", 3000, shards=4, pkg="session", timeout=2400), st("^TestC01TwinsGate", 600, shards=4, pkg="session", timeout=2400)],
                     "fuzz": [{"target": "FuzzC01Serialize", "seconds": 120}]},
    },
    "C03": {
        "pkg": "core", "level": "exploration",
        "quick": {"stages": [st("^TestStoreC03C04C05", 1200), st("^TestStoreSoak", 12, shards=3), st("^TestOracleSelfTestAllowedAnswer", 1500, pkg="model")]},
        "thorough": {"stages": [st("^TestStoreC03C04C05", 15000, shards=14, timeout=3000), st("^TestStoreSoak", 400, shards=8, timeout=3000)]},
    },
    "C04": {
        "pkg": "core", "level": "exploration",
        "quick": {"stages": [st("^TestStoreC03C04C05", 3000), st("^TestStoreSoak", 16, shards=4), st("^TestOracleSelfTestStoreRelation", 1500, pkg="model")]},
        "thorough": {"stages": [st("^TestStoreC03C04C05", 40000, shards=14, timeout=3000), st("^TestStoreSoak", 600, shards=8, timeout=3000)]},
    },
    "C05": {
        "pkg": "core", "level": "exploration",
        "quick": {"stages": [st("^TestStoreC03C04C05", 3000), st("^TestStoreSoak", 16, shards=4)]},
        "thorough": {"stages": [st("^TestStoreC03C04C05", 40000, shards=14, timeout=3000), st("^TestStoreSoak", 600, shards=8, timeout=3000)]},
    },
    "C17": {
        "pkg": "handlers", "level": "exploration",
        "quick": {"stages": [st("^TestC17(Stacks|NIP11)", 4000), st("^TestC17ClockAcrossSessions", 1)]},
        "thorough": {"stages": [st("^TestC17(Stacks|NIP11)", 150000, shards=16, timeout=3000), st("^TestC17ClockAcrossSessions", 1)]},
    },
    "C18": {
        "pkg": "handlers", "level": "exploration",
        "quick": {"stages": [st("^TestC18Stateful", 3000), st("^TestC18Soak", 500, shards=5), st("^TestC18PipelinedRepeats", 600)]},
        "thorough": {"stages": [st("^TestC18Stateful", 100000, shards=12, timeout=3000), st("^TestC18Stateful", 10000, shards=4, race=True, timeout=3000), st("^TestC18Soak", 20000, shards=8, timeout=3000), st("^TestC18PipelinedRepeats", 40000, shards=4, timeout=3000), st("^TestC18PipelinedRepeats", 3000, shards=2, race=True, timeout=3000)]},
    },
    "C19": {
        "pkg": "handlers", "level": "exploration",
        "quick": {"stages": [st("^TestC19(Metrics|Concurrent)", 1500), st("^TestC19ParallelDirections", 120, shards=4), st("^TestC19Soak", 12, shards=2), st("^TestC19Churn", 10, shards=4)]},
        "thorough": {"stages": [st("^TestC19(Metrics|Concurrent)", 30000, shards=12, timeout=3000), st("^TestC19ParallelDirections", 4000, shards=8, timeout=3000), st("^TestC19Soak", 400, shards=4, timeout=3000), st("^TestC19Churn", 300, shards=6, timeout=3000), st("^TestC19Churn", 30, shards=2, race=True, timeout=3000), st("^TestC19(Metrics|Concurrent|ParallelDirections)", 3000, shards=4, race=True, timeout=3000)]},
    },
    "C08": {
        "pkg": "handlers", "level": "exploration",
        "quick": {"stages": [st("^TestMerge(C08C09|Regress)", 6000), st("^TestMergeFreeRunning", 1500), st("^TestMergeScale", 60, shards=2), st("^TestMergeReissueAfterEOSE", 150, shards=2)]},
        "thorough": {"stages": [st("^TestMerge(C08C09|Regress)", 200000, shards=10, timeout=3000), st("^TestMergeFreeRunning", 40000, shards=4, timeout=3000), st("^TestMerge(C08C09|Regress|FreeRunning)", 10000, shards=2, race=True, timeout=3000), st("^TestMergeScale", 1500, shards=4, timeout=3000), st("^TestMergeReissueAfterEOSE", 6000, shards=4, timeout=3000)]},
    },
    "C09": {
        "pkg": "handlers", "level": "exploration",
        "quick": {"stages": [st("^TestMerge(C08C09|Regress)", 6000), st("^TestMergeFreeRunning", 1500), st("^TestMergeScale", 60, shards=2), st("^TestMergeConcurrentSessions", 60, shards=2), st("^TestMergeConcurrentSessions", 12, race=True)]},
        "thorough": {"stages": [st("^TestMerge(C08C09|Regress)", 200000, shards=10, timeout=3000), st("^TestMergeFreeRunning", 40000, shards=4, timeout=3000), st("^TestMerge(C08C09|Regress|FreeRunning)", 10000, shards=2, race=True, timeout=3000), st("^TestMergeScale", 1500, shards=4, timeout=3000), st("^TestMergeConcurrentSessions", 3000, shards=4, timeout=3000), st("^TestMergeConcurrentSessions", 300, shards=2, race=True, timeout=3000)]},
    },
    "C06": {
        "pkg": "sqlite", "level": "exploration",
        "quick": {"stages": [st("^TestC06(Query|RegressFixed)", 170, shards=3), st("^TestC06ConcurrentReaders", 40, shards=2)]},
        "thorough": {"stages": [st("^TestC06(Query|RegressFixed)", 4000, shards=14, timeout=3000), st("^TestC06ConcurrentReaders", 2000, shards=4, timeout=3000)]},
    },
    "C14": {
        "pkg": "sqlite", "level": "fault_enumeration",
        "quick": {"stages": [st("^TestC14Fault", 150), st("^TestC14Reopen", 400, shards=4), st("^TestC14LargeBatch", 4)]},
        "thorough": {"stages": [st("^TestC14Fault", 1500, shards=8, timeout=3000), st("^TestC14Reopen", 6000, shards=6, timeout=3000), st("^TestC14LargeBatch", 40, shards=3, timeout=3000)]},
    },
    "C12": {
        "pkg": "session", "level": "exploration",
        "quick": {"stages": [st("^TestC12Session", 500), st("^TestC12LongLivedRelay", 12, shards=3), st("^TestC12FanOut", 40, shards=2), st("^TestC12SlowReader", 2), st("^TestC12SteadyReader", 6, shards=3), st("^TestC12CloseAfterBurst", 100, shards=2), st("^TestC12Regress", 1)]},
        "thorough": {"stages": [st("^TestC12Session", 6000, shards=12, timeout=3000), st("^TestC12Session", 800, shards=4, race=True, timeout=3000), st("^TestC12LongLivedRelay", 300, shards=4, timeout=3000), st("^TestC12FanOut", 1500, shards=4, timeout=3000), st("^TestC12FanOut", 100, shards=2, race=True, timeout=3000), st("^TestC12SlowReader", 12, shards=3, timeout=3000), st("^TestC12SteadyReader", 40, shards=4, timeout=3000), st("^TestC12CloseAfterBurst", 4000, shards=4, timeout=3000), st("^TestC12Regress", 1)]},
    },
    "C13": {
        "pkg": "session", "level": "exploration",
        "quick": {"stages": [st("^TestC13Termination", 600), st("^TestC13WebSocketSend", 3, shrinktime="40s"), st("^TestC13WebSocketCancel", 4, shrinktime="40s"), st("^TestC13RouterInboundClose", 150), st("^TestC13SQLiteBlockedInserter", 6), st("^TestC13SQLiteBlockedReaders", 12), st("^TestC13LargeAnswerCut", 120, shards=2), st("^TestC13RouterManySessions", 12), st("^TestC13WebSocketIdlePing", 40), st("^TestC13WebSocketFloodingPeer", 3), st("^TestC13WebSocketLatePong", 3), st("^TestC13CancelWhileSending", 60, shards=2)]},
        "thorough": {"stages": [st("^TestC13Termination", 15000, shards=10, timeout=3000), st("^TestC13Termination", 2000, shards=2, race=True, timeout=3000), st("^TestC13WebSocketSend", 20, shards=1, shrinktime="60s"), st("^TestC13WebSocketCancel", 30, shards=1, shrinktime="60s"), st("^TestC13RouterInboundClose", 3000, shards=2), st("^TestC13SQLiteBlockedInserter", 60, shards=1), st("^TestC13SQLiteBlockedReaders", 300, shards=2), st("^TestC13LargeAnswerCut", 3000, shards=4, timeout=3000), st("^TestC13RouterManySessions", 300, shards=2, timeout=3000), st("^TestC13WebSocketIdlePing", 1500, shards=3, timeout=3000), st("^TestC13WebSocketFloodingPeer", 30, shards=3, timeout=3000), st("^TestC13WebSocketLatePong", 30, shards=3, timeout=3000), st("^TestC13CancelWhileSending", 3000, shards=4, timeout=3000), st("^TestC13CancelWhileSending", 100, shards=2, race=True, timeout=3000)]},
    },
    "C20": {
        "pkg": "core", "level": "exploration",
        "quick": {"stages": [st("^TestC20", 3000), st("^TestNIP11ConcurrentDocuments", 8, shards=2)]},
        "thorough": {"stages": [st("^TestC20", 200000, shards=8, timeout=3000), st("^TestNIP11ConcurrentDocuments", 300, shards=4, timeout=3000), st("^TestNIP11ConcurrentDocuments", 40, shards=2, race=True, timeout=3000)]},
    },
    "C16": {
        "pkg": "handlers", "level": "exploration",
        "quick": {"stages": [st("^TestC16", 800), st("^TestC16SQLiteHandlerReplies", 500, shards=2, pkg="sqlite"), st("^TestC16SQLiteRepublishAfterStall", 24, shards=2, pkg="sqlite"), st("^TestC16SQLiteRetryAfterFault", 3, shards=3, pkg="sqlite")]},
        "thorough": {"stages": [st("^TestC16", 20000, shards=10, timeout=3000), st("^TestC16SQLiteHandlerReplies", 5000, shards=6, pkg="sqlite", timeout=3000), st("^TestC16SQLiteRepublishAfterStall", 400, shards=4, pkg="sqlite", timeout=3000), st("^TestC16SQLiteRetryAfterFault", 40, shards=8, pkg="sqlite", timeout=3000)]},
    },
    "C07": {
        "pkg": "handlers", "level": "exploration",
        "quick": {"stages": [st("^TestC07Sequential", 600), st("^TestC07Concurrent", 600), st("^TestC07Backpressure", 150), st("^TestC07Churn", 12), st("^TestC07BacklogSiblingClose", 60, shards=3), st("^TestC07Scale", 12, shards=4), st("^TestC07SimultaneousPublishers", 24, shards=3), st("^TestC07FireAndForget", 60, shards=2), st("^TestC07SameRemoteAddr", 40, pkg="session"), st("^TestC07(Concurrent|SimultaneousPublishers)", 40, race=True)]},
        "thorough": {"stages": [st("^TestC07Sequential", 10000, shards=6, timeout=3000), st("^TestC07Concurrent", 12000, shards=5, timeout=3000), st("^TestC07Concurrent", 2500, shards=2, race=True, timeout=3000), st("^TestC07Backpressure", 1500, shards=3, timeout=3000), st("^TestC07Churn", 150, shards=2, timeout=3000), st("^TestC07Churn", 40, shards=1, race=True, timeout=3000), st("^TestC07BacklogSiblingClose", 1500, shards=6, timeout=3000), st("^TestC07Scale", 300, shards=6, timeout=3000), st("^TestC07SimultaneousPublishers", 600, shards=6, timeout=3000), st("^TestC07FireAndForget", 3000, shards=4, timeout=3000), st("^TestC07SameRemoteAddr", 1500, shards=3, pkg="session", timeout=3000)]},
    },
    "C15": {
        "pkg": "core", "level": "exploration",
        "quick": {"stages": [st("^TestC15Linearizable", 500), st("^TestC15Stress", 60), st("^TestC15ReadYourWrites", 30), st("^TestC15SimultaneousWriters", 60, shards=3), st("^TestC15HandlerSessions", 20), st("^TestC15", 25, race=True), st("^TestC15HandlerSessionsMixed", 40, race=True)]},
        "thorough": {"stages": [st("^TestC15Linearizable", 8000, shards=8, timeout=3000), st("^TestC15Stress", 600, shards=3, timeout=3000), st("^TestC15ReadYourWrites", 400, shards=2, timeout=3000), st("^TestC15SimultaneousWriters", 3000, shards=4, timeout=3000), st("^TestC15HandlerSessions", 300, shards=1, timeout=3000), st("^TestC15", 300, shards=4, race=True, timeout=3000), st("^TestC15HandlerSessionsMixed", 600, shards=3, race=True, timeout=3000)]},
    },
    "C10": {
        "pkg": "core", "level": "exploration",
        "quick": {"stages": [st("^TestC10", 15000)]},
        "thorough": {"stages": [st("^TestC10", 400000, shards=16, timeout=3000)],
                     "fuzz": [{"target": "FuzzC10Decode", "seconds": 180}]},
    },
    "C11": {
        "pkg": "core", "level": "exploration",
        "quick": {"stages": [st("^TestC11", 12000)]},
        "thorough": {"stages": [st("^TestC11", 300000, shards=16, timeout=3000)],
                     "fuzz": [{"target": "FuzzC11Admission", "seconds": 150}]},
    },
    "C02": {
        "pkg": "core", "level": "exploration",
        "quick": {"stages": [st("^TestC02", 6000)]},
        "thorough": {"stages": [st("^TestC02", 400000, shards=16, timeout=2400)]},
    },
}
