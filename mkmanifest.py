#!/usr/bin/env python3
"""Regenerates MANIFEST.json from runconf.PROPS and the descriptions in manifest_text.py."""
import json
import os

from runconf import PROPS
from manifest_text import TEXT, HOOK_COMMITS

ROOT = os.path.dirname(os.path.abspath(__file__))
ALL = ["C%02d" % i for i in range(1, 21)]

checks = []
for pid in ALL:
    if pid not in PROPS or pid not in TEXT:
        continue
    t = TEXT[pid]
    checks.append({
        "property_id": pid,
        "quick_cmd": "./run %s quick" % pid,
        "thorough_cmd": "./run %s thorough" % pid,
        "evidence_file": "/verif/evidence/%s.json" % pid,
        "replay_cmd_template": "./run %s replay {path}" % pid,
        "engine": "harness",
        "level_claimed": {"category": PROPS[pid]["level"], "text": t["level_text"], "design_ref": "DESIGN.md section 4, " + pid},
        "level_note": t["level_note"],
        "technique": t["technique"],
    })

na = [{"property_id": pid, "reason": "check not built yet in this session (planned in DESIGN.md section 4)"}
      for pid in ALL if pid not in PROPS or pid not in TEXT]

manifest = {
    "version": 1,
    "setup_cmd": "./run setup",
    "hooks": {
        "guard": "verif",
        "enable": "go build tag: every check compiles /repo (replace directive => /repo) with -tags verif",
        "baseline_off_cmd": "cd /repo && go test -mod=mod -vet=off -count=1 ./...",
        "source_commits": HOOK_COMMITS,
        "add_only": True,
    },
    "engines": [{
        "name": "harness", "path": "/verif/harness",
        "serves_properties": [c["property_id"] for c in checks],
        "kind_free_text": "Go module of property-based tests (pgregory.net/rapid v1.3.0 generators and state machines, porcupine linearizability checker, native go fuzz targets) with reference models written from NIP-01 / the property text; driver /verif/run shards by seed, merges evidence, saves shrunk replays",
    }],
    "checks": checks,
    "not_applicable": na,
    "notes": "All checks are decided by generated-input search against an explicit oracle (property-based testing / fuzzing). VERIF_SEED selects the rapid seed; quick tiers use no native fuzzing and are pure functions of (tree, seed) except where the evidence file's assumptions say otherwise.",
}
with open(os.path.join(ROOT, "MANIFEST.json"), "w") as f:
    json.dump(manifest, f, indent=1)
    f.write("\n")
print("wrote MANIFEST.json with %d checks, %d not_applicable" % (len(checks), len(na)))
