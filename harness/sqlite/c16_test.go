package sqlite

import (
	"context"
	"database/sql"
	"fmt"
	"os"
	"testing"
	"time"

	"github.com/high-moctane/mocrelay"
	mocsqlite "github.com/high-moctane/mocrelay/handler/sqlite"
	"pgregory.net/rapid"

	"verifharness/ev"
	"verifharness/gen"
	"verifharness/hx"
	"verifharness/model"
)

const c16Rule = "cases = (i) CacheHandler: generated client message sequences (3-40 messages over all five types; events of all classes with distinct timestamps, versions, re-offers, targeted deletion requests; REQ/COUNT with generated filter lists; capacities 1-8 and 30-150) - the complete output must equal the concatenation, in request order, of: EVENT -> one OK(id, accepted iff the deterministic model newly stores it, duplicate: prefix when that very id is stored; ephemeral: exactly one OK with the id), REQ -> the model's answer labelled with the sub id then one EOSE, COUNT -> one COUNT, CLOSE/AUTH -> nothing; (ii) SQLiteHandler (EventBulkInsertNum=1): EVENT -> accepting OK, REQ -> an allowed answer over some prefix of the events submitted so far + one EOSE, and the exact model answer after the flush was observed; (iii) Dump/Restore: any history (ties allowed, caches up to 150 events), restore into a fresh handler of the same capacity, a battery + generated filter lists give identical answers and a second Dump is byte-identical; non-trivial = sequence mixing >=3 message types with >=1 rejected EVENT and >=1 non-empty REQ answer / dump of a cache that has evicted or deleted; distinct by hash of the sequence"

type sess struct {
	cancel context.CancelFunc
	recv   chan mocrelay.ClientMsg
	send   chan mocrelay.ServerMsg
	ret    chan error
}

func startSess(h mocrelay.Handler) *sess {
	ctx, cancel := context.WithCancel(context.Background())
	s := &sess{cancel: cancel, recv: make(chan mocrelay.ClientMsg), send: make(chan mocrelay.ServerMsg), ret: make(chan error, 1)}
	go func() { s.ret <- h.ServeNostr(ctx, s.send, s.recv) }()
	return s
}

// ask sends one message and collects replies until the reply that ends its answer
// (OK / EOSE / COUNT), or nothing for CLOSE / AUTH (checked by a following COUNT).
func (s *sess) ask(m mocrelay.ClientMsg) ([]mocrelay.ServerMsg, error) {
	var out []mocrelay.ServerMsg
	sent := false
	timer := time.NewTimer(20 * time.Second)
	defer timer.Stop()
	for {
		var in chan mocrelay.ClientMsg
		if !sent {
			in = s.recv
		}
		select {
		case in <- m:
			sent = true
			switch m.(type) {
			case *mocrelay.ClientCloseMsg, *mocrelay.ClientAuthMsg:
				return out, nil
			}
		case r := <-s.send:
			out = append(out, r)
			switch r.(type) {
			case *mocrelay.ServerOKMsg, *mocrelay.ServerEOSEMsg, *mocrelay.ServerCountMsg, *mocrelay.ServerClosedMsg:
				if sent {
					return out, nil
				}
			}
		case err := <-s.ret:
			return out, fmt.Errorf("handler ended: %v", err)
		case <-timer.C:
			return out, fmt.Errorf("timeout waiting for the reply (got %d messages)", len(out))
		}
	}
}

func TestC16SQLiteHandlerReplies(t *testing.T) {
	col := ev.For("C16").SetRule(c16Rule)
	col.Assume("SQLite insertion is asynchronous by design: before the flush is observed a REQ answer may reflect any prefix of the submitted events")
	rapid.Check(t, func(t *rapid.T) {
		db, _, err := openMem("sqlite3")
		if err != nil {
			t.Fatalf("open: %v", err)
		}
		defer db.Close()
		hctx, hcancel := context.WithCancel(context.Background())
		defer hcancel()
		opt := mocsqlite.NewDefaultSQLiteHandlerOption()
		// batches are written when they are full or when the flush timer fires
		switch rapid.IntRange(0, 3).Draw(t, "batching") {
		case 0, 1:
			opt.EventBulkInsertNum, opt.EventBulkInsertDur = 1, 0
		case 2:
			opt.EventBulkInsertNum, opt.EventBulkInsertDur = 3, 3*time.Millisecond
		default:
			opt.EventBulkInsertNum, opt.EventBulkInsertDur = 50, 2*time.Millisecond
		}
		// the handler's cap (default: none). It bounds every filter's limit and the merged answer
		// as a whole; with a finite cap the REQs of this test carry one filter, for which the two
		// coincide (how the cap cuts a merged answer of several filters is not claimed)
		maxLimit := rapid.SampledFrom([]int64{-1, -1, -1, 1, 2, 3, 10}).Draw(t, "max_limit")
		maxFilters := 3
		if maxLimit >= 0 {
			maxFilters = 1
		}
		if maxLimit >= 0 {
			opt.MaxLimit = uint(maxLimit)
		}
		h, err := mocsqlite.NewSQLiteHandler(hctx, db, opt)
		if err != nil {
			t.Fatalf("handler: %v", err)
		}
		s := startSess(h)
		defer func() { s.cancel() }()
		world := &gen.World{Authors: gen.Pubkeys(2)}
		cfg := &gen.StoreCfg{World: world, TsBase: 1000, TsSpan: 7, NoNoD: true, NoOpenRefs: true, UnicodeText: true}
		var submitted []*mocrelay.Event
		var briefs []any
		desc := func() any { return briefs }
		types := map[string]bool{}
		nonEmpty := false
		n := rapid.IntRange(3, 30).Draw(t, "nmsgs")
		checkReq := func(sub string, fs []*mocrelay.ReqFilter, replies []mocrelay.ServerMsg, exact bool) {
			if maxLimit >= 0 {
				// every filter is answered as if its limit were min(limit, MaxLimit)
				eff := make([]*mocrelay.ReqFilter, len(fs))
				for i, f := range fs {
					c := *f
					if c.Limit == nil || *c.Limit > maxLimit {
						c.Limit = gen.Ptr(maxLimit)
					}
					eff[i] = &c
				}
				fs = eff
			}
			var evs []*mocrelay.Event
			for i, r := range replies {
				switch x := r.(type) {
				case *mocrelay.ServerEventMsg:
					if x.SubscriptionID != sub || i == len(replies)-1 {
						hx.Fail(t, ev.Failure{Property: "C16", Signature: "sqlite-replies", Clause: "REQ gets the stored matches labelled with its subscription id followed by exactly one EOSE", Case: desc(), Observed: hx.JSON(gen.Norm(r))})
					}
					evs = append(evs, x.Event)
				case *mocrelay.ServerEOSEMsg:
					if x.SubscriptionID != sub || i != len(replies)-1 {
						hx.Fail(t, ev.Failure{Property: "C16", Signature: "sqlite-replies", Clause: "exactly one EOSE with the subscription id ends the answer", Case: desc(), Observed: hx.JSON(gen.Norm(r))})
					}
				default:
					hx.Fail(t, ev.Failure{Property: "C16", Signature: "sqlite-replies", Clause: "a REQ is answered by events and one EOSE only", Case: desc(), Observed: hx.JSON(gen.Norm(r))})
				}
			}
			if len(evs) > 0 {
				nonEmpty = true
			}
			// allowed over some prefix of the submitted events (exact: the whole history)
			from := 0
			if exact {
				from = len(submitted)
			}
			m := model.NewSQLModel()
			for i := 0; i < from; i++ {
				m.Insert(submitted[i])
			}
			first := ""
			for p := from; p <= len(submitted); p++ {
				if p > from {
					m.Insert(submitted[p-1])
				}
				why, judged := m.CheckAnswer(fs, evs)
				if !judged || why == "" {
					return
				}
				if first == "" {
					first = why
				}
			}
			sig := "sqlite-req-answer"
			if exact {
				sig = "sqlite-req-answer-after-flush"
			}
			hx.Fail(t, ev.Failure{Property: "C16", Signature: sig, Clause: "the REQ answer is the stored matches (over a prefix of the submitted events; exactly all of them once flushed): " + first,
				Case: map[string]any{"messages": desc(), "filters": gen.BriefFilters(fs)}, Observed: hx.JSON(gen.IDsShort(evs))})
		}
		for i := 0; i < n; i++ {
			lab := fmt.Sprintf("m%d.", i)
			switch k := rapid.IntRange(0, 21).Draw(t, lab+"type"); {
			case k < 11:
				var e *mocrelay.Event
				op := rapid.IntRange(0, 9).Draw(t, lab+"op")
				switch {
				case op < 5 || len(world.Events) == 0:
					e = cfg.DrawEvent(t)
				case op < 7:
					e = cfg.DrawVersion(t)
				case op < 9:
					e = gen.CloneEvent(rapid.SampledFrom(world.Events).Draw(t, lab+"reoffer"))
				default:
					e = drawTargetedKind5(t, cfg, world.Events)
				}
				types["EVENT"] = true
				briefs = append(briefs, map[string]any{"EVENT": gen.Brief(e)})
				replies, err := s.ask(&mocrelay.ClientEventMsg{Event: e})
				if err != nil {
					hx.Fail(t, ev.Failure{Property: "C16", Signature: "sqlite-handler-stalled", Clause: "every EVENT is answered", Case: desc(), Observed: err.Error()})
				}
				submitted = append(submitted, e)
				ok := len(replies) == 1
				if ok {
					r, is := replies[0].(*mocrelay.ServerOKMsg)
					ok = is && r.EventID == e.ID && r.Accepted
				}
				if !ok {
					hx.Fail(t, ev.Failure{Property: "C16", Signature: "sqlite-replies", Clause: "each EVENT gets exactly one accepting OK with its id", Case: desc(), Observed: hx.JSON(gen.Norm(at0(replies)))})
				}
			case k < 16:
				pool := gen.PoolFromEvents(world.Events, world.Authors)
				pool.MaxLimit = 4
				fs := pool.DrawFilters(t, lab, 1, maxFilters)
				sub := rapid.SampledFrom([]string{"a", "b"}).Draw(t, lab+"sub")
				types["REQ"] = true
				briefs = append(briefs, map[string]any{"REQ": sub, "filters": gen.BriefFilters(fs)})
				replies, err := s.ask(&mocrelay.ClientReqMsg{SubscriptionID: sub, ReqFilters: fs})
				if err != nil {
					hx.Fail(t, ev.Failure{Property: "C16", Signature: "sqlite-handler-stalled", Clause: "every REQ is answered by EOSE", Case: desc(), Observed: err.Error()})
				}
				checkReq(sub, fs, replies, false)
			case k < 17:
				sub := rapid.SampledFrom([]string{"a", "c"}).Draw(t, lab+"sub")
				types["COUNT"] = true
				briefs = append(briefs, map[string]any{"COUNT": sub})
				replies, err := s.ask(&mocrelay.ClientCountMsg{SubscriptionID: sub, ReqFilters: []*mocrelay.ReqFilter{{}}})
				ok := err == nil && len(replies) == 1
				if ok {
					r, is := replies[0].(*mocrelay.ServerCountMsg)
					ok = is && r.SubscriptionID == sub
				}
				if !ok {
					hx.Fail(t, ev.Failure{Property: "C16", Signature: "sqlite-replies", Clause: "each COUNT gets one COUNT reply", Case: desc(), Observed: fmt.Sprint(err, hx.JSON(gen.Norm(at0(replies))))})
				}
			case k < 19:
				sub := rapid.SampledFrom([]string{"a", "b"}).Draw(t, lab+"sub")
				types["CLOSE"] = true
				briefs = append(briefs, map[string]any{"CLOSE": sub})
				if _, err := s.ask(&mocrelay.ClientCloseMsg{SubscriptionID: sub}); err != nil {
					hx.Fail(t, ev.Failure{Property: "C16", Signature: "sqlite-handler-stalled", Clause: "CLOSE is consumed", Case: desc(), Observed: err.Error()})
				}
			case k >= 20:
				// the client disconnects and a new session begins on the same handler
				how := rapid.SampledFrom([]string{"cancel", "close"}).Draw(t, lab+"restart")
				briefs = append(briefs, "RESTART-"+how)
				types["RESTART"] = true
				if how == "cancel" {
					s.cancel()
				} else {
					close(s.recv)
				}
				select {
				case <-s.ret:
				case <-time.After(20 * time.Second):
					hx.Fail(t, ev.Failure{Property: "C16", Signature: "sqlite-handler-stalled", Clause: "a session ends when the client disconnects", Case: desc(), Observed: "ServeNostr did not return"})
				}
				s.cancel()
				s = startSess(h)
			default:
				e := &mocrelay.Event{Pubkey: world.Authors[0], Kind: 22242, CreatedAt: 1, Tags: []mocrelay.Tag{}}
				gen.Seal(e)
				types["AUTH"] = true
				briefs = append(briefs, "AUTH")
				if _, err := s.ask(&mocrelay.ClientAuthMsg{Event: e}); err != nil {
					hx.Fail(t, ev.Failure{Property: "C16", Signature: "sqlite-handler-stalled", Clause: "AUTH is consumed", Case: desc(), Observed: err.Error()})
				}
			}
		}
		// observe the flush with a marker event, then the answers are exact; CLOSE / AUTH
		// must have produced nothing: any stray reply would have been caught as a
		// malformed answer of the following request.
		marker := &mocrelay.Event{Pubkey: gen.Keys[5].Pub, Kind: 1, CreatedAt: 999, Content: "flush-marker", Tags: []mocrelay.Tag{}}
		gen.Seal(marker)
		if _, err := s.ask(&mocrelay.ClientEventMsg{Event: marker}); err != nil {
			hx.Fail(t, ev.Failure{Property: "C16", Signature: "sqlite-handler-stalled", Clause: "EVENT is answered", Case: desc(), Observed: err.Error()})
		}
		submitted = append(submitted, marker)
		deadline := time.Now().Add(10 * time.Second)
		for {
			replies, err := s.ask(&mocrelay.ClientReqMsg{SubscriptionID: "flush", ReqFilters: []*mocrelay.ReqFilter{{IDs: []string{marker.ID}}}})
			if err != nil {
				hx.Fail(t, ev.Failure{Property: "C16", Signature: "sqlite-handler-stalled", Clause: "REQ is answered", Case: desc(), Observed: err.Error()})
			}
			if len(replies) == 2 {
				break
			}
			if time.Now().After(deadline) {
				hx.Fail(t, ev.Failure{Property: "C16", Signature: "sqlite-never-flushed", Clause: "a submitted event becomes visible once its batch is full or the flush timer has fired", Case: desc(), Observed: "marker event not stored after 10 s"})
			}
			time.Sleep(time.Millisecond)
		}
		pool := gen.PoolFromEvents(world.Events, world.Authors)
		pool.MaxLimit = 4
		for q := 0; q < 3; q++ {
			fs := pool.DrawFilters(t, fmt.Sprintf("final%d.", q), 1, maxFilters)
			replies, err := s.ask(&mocrelay.ClientReqMsg{SubscriptionID: "f", ReqFilters: fs})
			if err != nil {
				hx.Fail(t, ev.Failure{Property: "C16", Signature: "sqlite-handler-stalled", Clause: "REQ is answered", Case: desc(), Observed: err.Error()})
			}
			checkReq("f", fs, replies, true)
		}
		col.Label("handler:sqlite")
		col.Case(len(types) >= 3 && nonEmpty, hx.JSON(briefs), func() any { return briefs })
	})
}

func at0(r []mocrelay.ServerMsg) any {
	if len(r) == 0 {
		return nil
	}
	return r[0]
}

// TestC16SQLiteRepublishAfterStall: the writer is stalled (another connection
// holds the database write lock) until the insert queue is full and the session
// is blocked handing over an EVENT; the client disconnects, the lock is released,
// and a new session publishes the same events again. Every EVENT of the new
// session is answered by one accepting OK, and once the flush is observed a REQ
// for their ids returns every one of them.
func TestC16SQLiteRepublishAfterStall(t *testing.T) {
	col := ev.For("C16").SetRule(c16Rule)
	rapid.Check(t, func(t *rapid.T) {
		dir, err := os.MkdirTemp("", "verif-c16-")
		if err != nil {
			t.Fatalf("tempdir: %v", err)
		}
		defer os.RemoveAll(dir)
		dsn := "file:" + dir + "/relay.db?_busy_timeout=100"
		db, err := sql.Open("sqlite3", dsn)
		if err != nil {
			t.Fatalf("open: %v", err)
		}
		defer db.Close()
		bulk := rapid.IntRange(1, 3).Draw(t, "bulk")
		hctx, hcancel := context.WithCancel(context.Background())
		defer hcancel()
		opt := mocsqlite.NewDefaultSQLiteHandlerOption()
		opt.EventBulkInsertNum = bulk
		opt.EventBulkInsertDur = 0
		h, err := mocsqlite.NewSQLiteHandler(hctx, db, opt)
		if err != nil {
			t.Fatalf("handler: %v", err)
		}
		locker, err := sql.Open("sqlite3", dsn)
		if err != nil {
			t.Fatalf("open locker: %v", err)
		}
		defer locker.Close()
		conn, err := locker.Conn(context.Background())
		if err != nil {
			t.Fatalf("conn: %v", err)
		}
		defer conn.Close()
		if _, err := conn.ExecContext(context.Background(), "BEGIN IMMEDIATE"); err != nil {
			t.Fatalf("begin immediate: %v", err)
		}
		n := 2*bulk + 3 + rapid.IntRange(0, 3).Draw(t, "extra")
		evs := make([]*mocrelay.Event, n)
		for i := range evs {
			evs[i] = &mocrelay.Event{Pubkey: gen.Keys[i%2].Pub, Kind: 1, CreatedAt: int64(1000 + i), Tags: []mocrelay.Tag{}, Content: fmt.Sprint("republish ", i)}
			gen.Seal(evs[i])
		}
		desc := map[string]any{"handler": "sqlite", "bulk_insert_num": bulk, "events": n, "scenario": "writer stalled by a foreign write lock, session cancelled while blocked on a full queue, lock released, same events published again in a new session"}
		failf := func(sig, clause, obs string) {
			hx.Fail(t, ev.Failure{Property: "C16", Signature: sig, Clause: clause, Case: desc, Observed: obs})
		}
		// session 1: publish until the handler stops taking input
		s1 := startSess(h)
		stop := make(chan struct{})
		go func() {
			for {
				select {
				case <-s1.send:
				case <-stop:
					return
				}
			}
		}()
		taken := 0
		for _, e := range evs {
			select {
			case s1.recv <- &mocrelay.ClientEventMsg{Event: e}:
				taken++
				continue
			case <-time.After(60 * time.Millisecond):
			}
			break
		}
		desc["taken_before_the_stall"] = taken
		time.Sleep(time.Duration(rapid.SampledFrom([]int{0, 5, 30}).Draw(t, "wait_ms")) * time.Millisecond)
		s1.cancel()
		select {
		case <-s1.ret:
		case <-time.After(10 * time.Second):
			failf("sqlite-handler-stalled", "a cancelled session returns", "ServeNostr did not return")
		}
		close(stop)
		if _, err := conn.ExecContext(context.Background(), "ROLLBACK"); err != nil {
			t.Fatalf("rollback: %v", err)
		}
		// session 2: the client reconnects and publishes everything again
		s2 := startSess(h)
		defer s2.cancel()
		order := rapid.Permutation(evs).Draw(t, "resend_order")
		for _, e := range order {
			replies, err := s2.ask(&mocrelay.ClientEventMsg{Event: e})
			if err != nil {
				failf("sqlite-handler-stalled", "every EVENT is answered", err.Error())
			}
			ok := len(replies) == 1
			if ok {
				r, is := replies[0].(*mocrelay.ServerOKMsg)
				ok = is && r.EventID == e.ID && r.Accepted
			}
			if !ok {
				failf("sqlite-replies", "each EVENT gets exactly one accepting OK with its id", hx.JSON(gen.Norm(at0(replies))))
			}
		}
		marker := &mocrelay.Event{Pubkey: gen.Keys[5].Pub, Kind: 1, CreatedAt: 999, Content: "flush-marker", Tags: []mocrelay.Tag{}}
		gen.Seal(marker)
		// markers fill the last batch (a batch is written when it is full)
		for i := 0; i < bulk; i++ {
			m := gen.CloneEvent(marker)
			m.Content = fmt.Sprint("flush-marker ", i)
			gen.Seal(m)
			if _, err := s2.ask(&mocrelay.ClientEventMsg{Event: m}); err != nil {
				failf("sqlite-handler-stalled", "every EVENT is answered", err.Error())
			}
			marker = m
		}
		var ids []string
		for _, e := range evs {
			ids = append(ids, e.ID)
		}
		deadline := time.Now().Add(10 * time.Second)
		for {
			replies, err := s2.ask(&mocrelay.ClientReqMsg{SubscriptionID: "all", ReqFilters: []*mocrelay.ReqFilter{{IDs: ids}}})
			if err != nil {
				failf("sqlite-handler-stalled", "REQ is answered", err.Error())
			}
			got := map[string]bool{}
			for _, r := range replies {
				if em, is := r.(*mocrelay.ServerEventMsg); is {
					got[em.Event.ID] = true
				}
			}
			if len(got) == len(evs) {
				break
			}
			if time.Now().After(deadline) {
				var missing []string
				for _, e := range evs {
					if !got[e.ID] {
						missing = append(missing, gen.Short(e.ID))
					}
				}
				failf("sqlite-acknowledged-event-lost", "REQ returns the stored matches: an event whose EVENT was answered by an accepting OK is stored once the writer has caught up", "still missing after 10 s: "+hx.JSON(missing))
			}
			time.Sleep(2 * time.Millisecond)
		}
		col.Label("handler:sqlite-republish-after-stall")
		col.Case(taken < n, hx.JSON(desc), func() any { return desc })
	})
}

// TestC16SQLiteRetryAfterFault: the first attempt to write a batch fails (one injected driver
// fault); the handler retries after its back-off while further EVENTs arrive. Every EVENT was
// answered by an accepting OK, so once the writer has caught up a REQ returns all of them.
func TestC16SQLiteRetryAfterFault(t *testing.T) {
	col := ev.For("C16").SetRule(c16Rule)
	rapid.Check(t, func(t *rapid.T) {
		db, _, err := openMem("sqlite3_verif_fault")
		if err != nil {
			t.Fatalf("open: %v", err)
		}
		defer db.Close()
		hctx, hcancel := context.WithCancel(context.Background())
		defer hcancel()
		opt := mocsqlite.NewDefaultSQLiteHandlerOption()
		opt.EventBulkInsertNum = rapid.IntRange(1, 3).Draw(t, "bulk")
		opt.EventBulkInsertDur = 0
		h, err := mocsqlite.NewSQLiteHandler(hctx, db, opt)
		if err != nil {
			t.Fatalf("handler: %v", err)
		}
		failAt := rapid.IntRange(0, 6).Draw(t, "failing_driver_call")
		errKind := rapid.SampledFrom([]string{"generic", "busy", "ioerr"}).Draw(t, "fault_error")
		during := rapid.IntRange(1, 5).Draw(t, "events_during_the_back_off")
		desc := map[string]any{"handler": "sqlite", "bulk_insert_num": opt.EventBulkInsertNum, "failing_driver_call": failAt, "fault_error": errKind, "events_during_the_back_off": during}
		failf := func(sig, clause, obs string) {
			hx.Fail(t, ev.Failure{Property: "C16", Signature: sig, Clause: clause, Case: desc, Observed: obs})
		}
		s := startSess(h)
		defer s.cancel()
		var evs []*mocrelay.Event
		publish := func(i int) {
			e := &mocrelay.Event{Pubkey: gen.Keys[i%2].Pub, Kind: 1, CreatedAt: int64(1000 + i), Tags: []mocrelay.Tag{}, Content: fmt.Sprint("retry ", i)}
			gen.Seal(e)
			evs = append(evs, e)
			replies, err := s.ask(&mocrelay.ClientEventMsg{Event: e})
			if err != nil {
				failf("sqlite-handler-stalled", "every EVENT is answered", err.Error())
			}
			if len(replies) != 1 {
				failf("sqlite-replies", "each EVENT gets exactly one accepting OK with its id", hx.JSON(gen.Norm(at0(replies))))
			}
			if r, is := replies[0].(*mocrelay.ServerOKMsg); !is || r.EventID != e.ID || !r.Accepted {
				failf("sqlite-replies", "each EVENT gets exactly one accepting OK with its id", hx.JSON(gen.Norm(replies[0])))
			}
		}
		theFaultCtl.mu.Lock()
		theFaultCtl.err = faultErrors[errKind]
		theFaultCtl.mu.Unlock()
		theFaultCtl.arm(failAt)
		defer func() {
			theFaultCtl.disarm()
			theFaultCtl.mu.Lock()
			theFaultCtl.err = nil
			theFaultCtl.mu.Unlock()
		}()
		// the first batch (its write fails once), then more events while the writer backs off,
		// then enough to complete the last batch
		n := opt.EventBulkInsertNum + during
		n += (opt.EventBulkInsertNum - n%opt.EventBulkInsertNum) % opt.EventBulkInsertNum
		for i := 0; i < n; i++ {
			publish(i)
		}
		var ids []string
		for _, e := range evs {
			ids = append(ids, e.ID)
		}
		deadline := time.Now().Add(12 * time.Second)
		for {
			replies, err := s.ask(&mocrelay.ClientReqMsg{SubscriptionID: "all", ReqFilters: []*mocrelay.ReqFilter{{IDs: ids}}})
			if err != nil {
				failf("sqlite-handler-stalled", "REQ is answered", err.Error())
			}
			got := map[string]bool{}
			for _, r := range replies {
				if em, is := r.(*mocrelay.ServerEventMsg); is {
					got[em.Event.ID] = true
				}
			}
			if len(got) == len(evs) {
				break
			}
			if time.Now().After(deadline) {
				var missing []int
				for i, e := range evs {
					if !got[e.ID] {
						missing = append(missing, i)
					}
				}
				_, fired := theFaultCtl.disarm()
				desc["fault_fired_at"] = fired
				failf("sqlite-acknowledged-event-lost", "REQ returns the stored matches: an event whose EVENT was answered by an accepting OK is stored once the writer has caught up (the first write attempt of a batch failed and was retried)", fmt.Sprintf("still missing after 12 s: events %v of %d", missing, len(evs)))
			}
			time.Sleep(20 * time.Millisecond)
		}
		_, fired := theFaultCtl.disarm()
		col.Label("handler:sqlite-retry-after-fault")
		col.Case(fired != "", hx.JSON(desc), func() any { return desc })
	})
}
