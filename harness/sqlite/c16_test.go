package sqlite

import (
	"context"
	"fmt"
	"testing"
	"time"

	"github.com/high-moctane/mocrelay"
	mocsqlite "github.com/high-moctane/mocrelay/handler/sqlite"
	"pgregory.net/rapid"

	"verifharness/ev"
	"verifharness/gen"
	"verifharness/hx"
	"verifharness/model"
)

const c16Rule = "cases = (i) CacheHandler: generated client message sequences (3-40 messages over all five types; events of all classes with distinct timestamps, versions, re-offers, targeted deletion requests; REQ/COUNT with generated filter lists; capacities 1-8 and 30-150) - the complete output must equal the concatenation, in request order, of: EVENT -> one OK(id, accepted iff the deterministic model newly stores it, duplicate: prefix when that very id is stored; ephemeral: exactly one OK with the id), REQ -> the model's answer labelled with the sub id then one EOSE, COUNT -> one COUNT, CLOSE/AUTH -> nothing; (ii) SQLiteHandler (EventBulkInsertNum=1): EVENT -> accepting OK, REQ -> an allowed answer over some prefix of the events submitted so far + one EOSE, and the exact model answer after the flush was observed; (iii) Dump/Restore: any history (ties allowed, caches up to 150 events), restore into a fresh handler of the same capacity, a battery + generated filter lists give identical answers and a second Dump is byte-identical; non-trivial = sequence mixing >=3 message types with >=1 rejected EVENT and >=1 non-empty REQ answer / dump of a cache that has evicted or deleted; distinct by hash of the sequence"

type sess struct {
	cancel context.CancelFunc
	recv   chan mocrelay.ClientMsg
	send   chan mocrelay.ServerMsg
	ret    chan error
}

func startSess(h mocrelay.Handler) *sess {
	ctx, cancel := context.WithCancel(context.Background())
	s := &sess{cancel: cancel, recv: make(chan mocrelay.ClientMsg), send: make(chan mocrelay.ServerMsg), ret: make(chan error, 1)}
	go func() { s.ret <- h.ServeNostr(ctx, s.send, s.recv) }()
	return s
}

// ask sends one message and collects replies until the reply that ends its answer
// (OK / EOSE / COUNT), or nothing for CLOSE / AUTH (checked by a following COUNT).
func (s *sess) ask(m mocrelay.ClientMsg) ([]mocrelay.ServerMsg, error) {
	var out []mocrelay.ServerMsg
	sent := false
	timer := time.NewTimer(20 * time.Second)
	defer timer.Stop()
	for {
		var in chan mocrelay.ClientMsg
		if !sent {
			in = s.recv
		}
		select {
		case in <- m:
			sent = true
			switch m.(type) {
			case *mocrelay.ClientCloseMsg, *mocrelay.ClientAuthMsg:
				return out, nil
			}
		case r := <-s.send:
			out = append(out, r)
			switch r.(type) {
			case *mocrelay.ServerOKMsg, *mocrelay.ServerEOSEMsg, *mocrelay.ServerCountMsg, *mocrelay.ServerClosedMsg:
				if sent {
					return out, nil
				}
			}
		case err := <-s.ret:
			return out, fmt.Errorf("handler ended: %v", err)
		case <-timer.C:
			return out, fmt.Errorf("timeout waiting for the reply (got %d messages)", len(out))
		}
	}
}

func TestC16SQLiteHandlerReplies(t *testing.T) {
	col := ev.For("C16").SetRule(c16Rule)
	col.Assume("SQLite insertion is asynchronous by design: before the flush is observed a REQ answer may reflect any prefix of the submitted events")
	rapid.Check(t, func(t *rapid.T) {
		db, _, err := openMem("sqlite3")
		if err != nil {
			t.Fatalf("open: %v", err)
		}
		defer db.Close()
		hctx, hcancel := context.WithCancel(context.Background())
		defer hcancel()
		opt := mocsqlite.NewDefaultSQLiteHandlerOption()
		opt.EventBulkInsertNum = 1
		opt.EventBulkInsertDur = 0
		h, err := mocsqlite.NewSQLiteHandler(hctx, db, opt)
		if err != nil {
			t.Fatalf("handler: %v", err)
		}
		s := startSess(h)
		defer func() { s.cancel() }()
		world := &gen.World{Authors: gen.Pubkeys(2)}
		cfg := &gen.StoreCfg{World: world, TsBase: 1000, TsSpan: 7, NoNoD: true, NoOpenRefs: true, UnicodeText: true}
		var submitted []*mocrelay.Event
		var briefs []any
		desc := func() any { return briefs }
		types := map[string]bool{}
		nonEmpty := false
		n := rapid.IntRange(3, 30).Draw(t, "nmsgs")
		checkReq := func(sub string, fs []*mocrelay.ReqFilter, replies []mocrelay.ServerMsg, exact bool) {
			var evs []*mocrelay.Event
			for i, r := range replies {
				switch x := r.(type) {
				case *mocrelay.ServerEventMsg:
					if x.SubscriptionID != sub || i == len(replies)-1 {
						hx.Fail(t, ev.Failure{Property: "C16", Signature: "sqlite-replies", Clause: "REQ gets the stored matches labelled with its subscription id followed by exactly one EOSE", Case: desc(), Observed: hx.JSON(gen.Norm(r))})
					}
					evs = append(evs, x.Event)
				case *mocrelay.ServerEOSEMsg:
					if x.SubscriptionID != sub || i != len(replies)-1 {
						hx.Fail(t, ev.Failure{Property: "C16", Signature: "sqlite-replies", Clause: "exactly one EOSE with the subscription id ends the answer", Case: desc(), Observed: hx.JSON(gen.Norm(r))})
					}
				default:
					hx.Fail(t, ev.Failure{Property: "C16", Signature: "sqlite-replies", Clause: "a REQ is answered by events and one EOSE only", Case: desc(), Observed: hx.JSON(gen.Norm(r))})
				}
			}
			if len(evs) > 0 {
				nonEmpty = true
			}
			// allowed over some prefix of the submitted events (exact: the whole history)
			from := 0
			if exact {
				from = len(submitted)
			}
			m := model.NewSQLModel()
			for i := 0; i < from; i++ {
				m.Insert(submitted[i])
			}
			first := ""
			for p := from; p <= len(submitted); p++ {
				if p > from {
					m.Insert(submitted[p-1])
				}
				why, judged := m.CheckAnswer(fs, evs)
				if !judged || why == "" {
					return
				}
				if first == "" {
					first = why
				}
			}
			sig := "sqlite-req-answer"
			if exact {
				sig = "sqlite-req-answer-after-flush"
			}
			hx.Fail(t, ev.Failure{Property: "C16", Signature: sig, Clause: "the REQ answer is the stored matches (over a prefix of the submitted events; exactly all of them once flushed): " + first,
				Case: map[string]any{"messages": desc(), "filters": gen.BriefFilters(fs)}, Observed: hx.JSON(gen.IDsShort(evs))})
		}
		for i := 0; i < n; i++ {
			lab := fmt.Sprintf("m%d.", i)
			switch k := rapid.IntRange(0, 21).Draw(t, lab+"type"); {
			case k < 11:
				var e *mocrelay.Event
				op := rapid.IntRange(0, 9).Draw(t, lab+"op")
				switch {
				case op < 5 || len(world.Events) == 0:
					e = cfg.DrawEvent(t)
				case op < 7:
					e = cfg.DrawVersion(t)
				case op < 9:
					e = gen.CloneEvent(rapid.SampledFrom(world.Events).Draw(t, lab+"reoffer"))
				default:
					e = drawTargetedKind5(t, cfg, world.Events)
				}
				types["EVENT"] = true
				briefs = append(briefs, map[string]any{"EVENT": gen.Brief(e)})
				replies, err := s.ask(&mocrelay.ClientEventMsg{Event: e})
				if err != nil {
					hx.Fail(t, ev.Failure{Property: "C16", Signature: "sqlite-handler-stalled", Clause: "every EVENT is answered", Case: desc(), Observed: err.Error()})
				}
				submitted = append(submitted, e)
				ok := len(replies) == 1
				if ok {
					r, is := replies[0].(*mocrelay.ServerOKMsg)
					ok = is && r.EventID == e.ID && r.Accepted
				}
				if !ok {
					hx.Fail(t, ev.Failure{Property: "C16", Signature: "sqlite-replies", Clause: "each EVENT gets exactly one accepting OK with its id", Case: desc(), Observed: hx.JSON(gen.Norm(at0(replies)))})
				}
			case k < 16:
				pool := gen.PoolFromEvents(world.Events, world.Authors)
				pool.MaxLimit = 4
				fs := pool.DrawFilters(t, lab, 1, 3)
				sub := rapid.SampledFrom([]string{"a", "b"}).Draw(t, lab+"sub")
				types["REQ"] = true
				briefs = append(briefs, map[string]any{"REQ": sub, "filters": gen.BriefFilters(fs)})
				replies, err := s.ask(&mocrelay.ClientReqMsg{SubscriptionID: sub, ReqFilters: fs})
				if err != nil {
					hx.Fail(t, ev.Failure{Property: "C16", Signature: "sqlite-handler-stalled", Clause: "every REQ is answered by EOSE", Case: desc(), Observed: err.Error()})
				}
				checkReq(sub, fs, replies, false)
			case k < 17:
				sub := rapid.SampledFrom([]string{"a", "c"}).Draw(t, lab+"sub")
				types["COUNT"] = true
				briefs = append(briefs, map[string]any{"COUNT": sub})
				replies, err := s.ask(&mocrelay.ClientCountMsg{SubscriptionID: sub, ReqFilters: []*mocrelay.ReqFilter{{}}})
				ok := err == nil && len(replies) == 1
				if ok {
					r, is := replies[0].(*mocrelay.ServerCountMsg)
					ok = is && r.SubscriptionID == sub
				}
				if !ok {
					hx.Fail(t, ev.Failure{Property: "C16", Signature: "sqlite-replies", Clause: "each COUNT gets one COUNT reply", Case: desc(), Observed: fmt.Sprint(err, hx.JSON(gen.Norm(at0(replies))))})
				}
			case k < 19:
				sub := rapid.SampledFrom([]string{"a", "b"}).Draw(t, lab+"sub")
				types["CLOSE"] = true
				briefs = append(briefs, map[string]any{"CLOSE": sub})
				if _, err := s.ask(&mocrelay.ClientCloseMsg{SubscriptionID: sub}); err != nil {
					hx.Fail(t, ev.Failure{Property: "C16", Signature: "sqlite-handler-stalled", Clause: "CLOSE is consumed", Case: desc(), Observed: err.Error()})
				}
			case k >= 20:
				// the client disconnects and a new session begins on the same handler
				how := rapid.SampledFrom([]string{"cancel", "close"}).Draw(t, lab+"restart")
				briefs = append(briefs, "RESTART-"+how)
				types["RESTART"] = true
				if how == "cancel" {
					s.cancel()
				} else {
					close(s.recv)
				}
				select {
				case <-s.ret:
				case <-time.After(20 * time.Second):
					hx.Fail(t, ev.Failure{Property: "C16", Signature: "sqlite-handler-stalled", Clause: "a session ends when the client disconnects", Case: desc(), Observed: "ServeNostr did not return"})
				}
				s.cancel()
				s = startSess(h)
			default:
				e := &mocrelay.Event{Pubkey: world.Authors[0], Kind: 22242, CreatedAt: 1, Tags: []mocrelay.Tag{}}
				gen.Seal(e)
				types["AUTH"] = true
				briefs = append(briefs, "AUTH")
				if _, err := s.ask(&mocrelay.ClientAuthMsg{Event: e}); err != nil {
					hx.Fail(t, ev.Failure{Property: "C16", Signature: "sqlite-handler-stalled", Clause: "AUTH is consumed", Case: desc(), Observed: err.Error()})
				}
			}
		}
		// observe the flush with a marker event, then the answers are exact; CLOSE / AUTH
		// must have produced nothing: any stray reply would have been caught as a
		// malformed answer of the following request.
		marker := &mocrelay.Event{Pubkey: gen.Keys[5].Pub, Kind: 1, CreatedAt: 999, Content: "flush-marker", Tags: []mocrelay.Tag{}}
		gen.Seal(marker)
		if _, err := s.ask(&mocrelay.ClientEventMsg{Event: marker}); err != nil {
			hx.Fail(t, ev.Failure{Property: "C16", Signature: "sqlite-handler-stalled", Clause: "EVENT is answered", Case: desc(), Observed: err.Error()})
		}
		submitted = append(submitted, marker)
		deadline := time.Now().Add(10 * time.Second)
		for {
			replies, err := s.ask(&mocrelay.ClientReqMsg{SubscriptionID: "flush", ReqFilters: []*mocrelay.ReqFilter{{IDs: []string{marker.ID}}}})
			if err != nil {
				hx.Fail(t, ev.Failure{Property: "C16", Signature: "sqlite-handler-stalled", Clause: "REQ is answered", Case: desc(), Observed: err.Error()})
			}
			if len(replies) == 2 {
				break
			}
			if time.Now().After(deadline) {
				hx.Fail(t, ev.Failure{Property: "C16", Signature: "sqlite-never-flushed", Clause: "with EventBulkInsertNum=1 a submitted event becomes visible", Case: desc(), Observed: "marker event not stored after 10 s"})
			}
			time.Sleep(time.Millisecond)
		}
		pool := gen.PoolFromEvents(world.Events, world.Authors)
		pool.MaxLimit = 4
		for q := 0; q < 3; q++ {
			fs := pool.DrawFilters(t, fmt.Sprintf("final%d.", q), 1, 3)
			replies, err := s.ask(&mocrelay.ClientReqMsg{SubscriptionID: "f", ReqFilters: fs})
			if err != nil {
				hx.Fail(t, ev.Failure{Property: "C16", Signature: "sqlite-handler-stalled", Clause: "REQ is answered", Case: desc(), Observed: err.Error()})
			}
			checkReq("f", fs, replies, true)
		}
		col.Label("handler:sqlite")
		col.Case(len(types) >= 3 && nonEmpty, hx.JSON(briefs), func() any { return briefs })
	})
}

func at0(r []mocrelay.ServerMsg) any {
	if len(r) == 0 {
		return nil
	}
	return r[0]
}
