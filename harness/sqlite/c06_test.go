package sqlite

import (
	"context"
	"database/sql"
	"fmt"
	"os"
	"strings"
	"sync"
	"sync/atomic"
	"testing"
	"time"

	"github.com/high-moctane/mocrelay"
	mocsqlite "github.com/high-moctane/mocrelay/handler/sqlite"
	"pgregory.net/rapid"

	"verifharness/ev"
	"verifharness/gen"
	"verifharness/hx"
	"verifharness/model"
)

const c06Rule = "cases = generated batch histories (1-12 batches of 0-8 events, thorough up to 30 batches; 2-3 authors; all event classes incl. ephemeral; versions of existing addresses with older/equal/newer timestamps; duplicates within and across batches; deletion requests before/after their targets by id and by address with 2- and 3-element tags, own and foreign; arbitrary Unicode content incl. NUL) inserted through insertEvents into a fresh in-memory database; after every batch 2-3 generated filter lists (limit 0/1/.., empty value lists, several #x incl. #e with #E, overlapping filters) go through queryEvent, which must return without error an allowed answer (tie-tolerant oracle) over the model's live set, each event equal in all seven fields; at the end the same events are re-inserted with different batch boundaries into a second database and queried again; non-trivial = >=1 replacement or tombstone in the history and a query whose answer is neither empty nor everything; distinct by hash of history+filters"

type batchTrace struct {
	Events []map[string]any `json:"events"`
}

func c06Query(t *rapid.T, db *sql.DB, seed uint32, m *model.SQLModel, fs []*mocrelay.ReqFilter, desc func() any, where string) (answer []*mocrelay.Event) {
	r, err := mocsqlite.VerifQueryEvent(context.Background(), db, seed, fs, mocsqlite.NoLimit)
	if err != nil {
		hx.Fail(t, ev.Failure{Property: "C06", Signature: "query-error", Clause: "queryEvent returns without error for every valid filter list (" + where + ")",
			Case: map[string]any{"history": desc(), "filters": gen.BriefFilters(fs)}, Observed: err.Error(), Expected: "an answer"})
	}
	why, judged := m.CheckAnswer(fs, r)
	if !judged {
		ev.For("C06").Exclude("too-many-equal-timestamp-version-ties")
		return r
	}
	if why != "" {
		hx.Fail(t, ev.Failure{Property: "C06", Signature: "query-answer", Clause: "queryEvent returns, per filter, the limit newest stored live matches, merged without duplicates in non-increasing created_at order (" + where + "): " + why,
			Case: map[string]any{"history": desc(), "filters": gen.BriefFilters(fs)}, Observed: hx.JSON(gen.IDsShort(r)), Expected: "an allowed answer over the live set"})
	}
	return r
}

func TestC06Query(t *testing.T) {
	col := ev.For("C06").SetRule(c06Rule)
	col.Assume("no 32-bit xxHash key collision among the <= ~100 events of a case (p ~ 2^-32 per pair); addressable events without d tag, address references to replaceable events and the MaxLimit option are not generated (outside the statement)")
	col.Assume("equal-timestamp versions of one address: either may be the stored one (all combinations up to 16 are tried)")
	maxBatches := 12
	if hx.Thorough() {
		maxBatches = 30
	}
	rapid.Check(t, func(t *rapid.T) {
		db, seed, err := openMem("sqlite3")
		if err != nil {
			t.Fatalf("open: %v", err)
		}
		defer db.Close()
		ctx := context.Background()
		world := &gen.World{Authors: gen.Pubkeys(rapid.IntRange(2, 3).Draw(t, "nauthors"))}
		cfg := &gen.StoreCfg{World: world, TsBase: 1000, TsSpan: 7, NoNoD: true, NoOpenRefs: true, UnicodeText: true}
		// histories in the past, or dated ahead of the wall clock (the store accepts any created_at)
		if rapid.IntRange(0, 3).Draw(t, "future") == 0 {
			cfg.TsBase = time.Now().Unix() + 3600
		}
		// events that exist (and can be named by a deletion request) before they are inserted
		var held []*mocrelay.Event
		m := model.NewSQLModel()
		var trace []batchTrace
		var all [][]*mocrelay.Event
		desc := func() any { return trace }
		nb := rapid.IntRange(1, maxBatches).Draw(t, "batches")
		nontrivial := false
		var sample any
		for b := 0; b < nb; b++ {
			n := rapid.IntRange(0, 8).Draw(t, fmt.Sprintf("b%d.n", b))
			var batch []*mocrelay.Event
			bt := batchTrace{Events: []map[string]any{}}
			for i := 0; i < n; i++ {
				var e *mocrelay.Event
				op := rapid.IntRange(0, 24).Draw(t, fmt.Sprintf("b%d.%d.op", b, i))
				if op == 21 || op == 23 {
					// written now, sent later
					if len(world.Events) > 0 && rapid.Bool().Draw(t, fmt.Sprintf("b%d.%d.holdversion", b, i)) {
						held = append(held, cfg.DrawVersion(t))
					} else {
						held = append(held, cfg.DrawEvent(t))
					}
					continue
				}
				if op == 22 || op == 24 {
					if len(held) == 0 {
						continue
					}
					k := rapid.IntRange(0, len(held)-1).Draw(t, fmt.Sprintf("b%d.%d.release", b, i))
					e := held[k]
					held = append(held[:k:k], held[k+1:]...)
					batch = append(batch, e)
					bt.Events = append(bt.Events, gen.Brief(e))
					col.Label("batch:late-arrival")
					continue
				}
				if op == 20 {
					for _, be := range cfg.DrawBurst(t) {
						batch = append(batch, be)
						bt.Events = append(bt.Events, gen.Brief(be))
					}
					col.Label("batch:version-burst")
					continue
				}
				switch {
				case op < 10 || len(world.Events) == 0:
					e = cfg.DrawEvent(t)
				case op < 14:
					e = cfg.DrawVersion(t)
				case op < 17:
					e = gen.CloneEvent(rapid.SampledFrom(world.Events).Draw(t, "reoffer"))
				default:
					if len(held) > 0 && rapid.Bool().Draw(t, fmt.Sprintf("b%d.%d.targetheld", b, i)) {
						// a deletion request that arrives before the event it names
						e = drawTargetedKind5(t, cfg, held)
					} else {
						e = drawTargetedKind5(t, cfg, world.Events)
					}
				}
				batch = append(batch, e)
				bt.Events = append(bt.Events, gen.Brief(e))
			}
			trace = append(trace, bt)
			all = append(all, batch)
			if err := mocsqlite.VerifInsertEvents(ctx, db, seed, batch); err != nil {
				hx.Fail(t, ev.Failure{Property: "C06", Signature: "insert-error", Clause: "insertEvents succeeds on a healthy database", Case: desc(), Observed: err.Error()})
			}
			for _, e := range batch {
				m.Insert(e)
			}
			pool := gen.PoolFromEvents(world.Events, world.Authors)
			pool.MaxLimit = 4
			pool.LongLists = true
			for q := 0; q < 2; q++ {
				fs := pool.DrawFilters(t, fmt.Sprintf("b%d.q%d.", b, q), 1, 3)
				r := c06Query(t, db, seed, m, fs, desc, "after a batch")
				sets, _ := m.LiveSets(16)
				if (m.Replaced > 0 || m.Tombs > 0) && len(r) > 0 && len(sets) > 0 && len(r) < len(sets[0]) {
					nontrivial = true
					if sample == nil {
						sample = map[string]any{"batches_so_far": len(trace), "replaced": m.Replaced, "tombstones": m.Tombs, "filters": gen.BriefFilters(fs), "answer": gen.IDsShort(r)}
					}
				}
				col.Add("queries", 1)
				for _, f := range fs {
					if f.Limit != nil && *f.Limit == 0 {
						col.Label("filter:limit0")
					}
					if len(f.Tags) >= 2 {
						col.Label("filter:multi-tag")
					}
				}
			}
		}
		// metamorphic: same events, different batch boundaries, second database
		db2, seed2, err := openMem("sqlite3")
		if err != nil {
			t.Fatalf("open: %v", err)
		}
		defer db2.Close()
		var flat []*mocrelay.Event
		for _, b := range all {
			flat = append(flat, b...)
		}
		for len(flat) > 0 {
			k := rapid.IntRange(1, 10).Draw(t, "resplit")
			if k > len(flat) {
				k = len(flat)
			}
			if err := mocsqlite.VerifInsertEvents(ctx, db2, seed2, flat[:k]); err != nil {
				hx.Fail(t, ev.Failure{Property: "C06", Signature: "insert-error", Clause: "insertEvents succeeds on a healthy database (re-split)", Case: desc(), Observed: err.Error()})
			}
			flat = flat[k:]
		}
		pool := gen.PoolFromEvents(world.Events, world.Authors)
		pool.MaxLimit = 4
		pool.LongLists = true
		for q := 0; q < 3; q++ {
			fs := pool.DrawFilters(t, fmt.Sprintf("final.q%d.", q), 1, 3)
			c06Query(t, db, seed, m, fs, desc, "final, original batches")
			c06Query(t, db2, seed2, m, fs, desc, "final, re-split batches")
		}
		// match-everything must list exactly a possible live set
		c06Query(t, db, seed, m, []*mocrelay.ReqFilter{{}}, desc, "match-everything")
		col.Case(nontrivial, hx.JSON(trace), func() any { return sample })
	})
}

func drawTargetedKind5(t *rapid.T, cfg *gen.StoreCfg, present []*mocrelay.Event) *mocrelay.Event {
	w := cfg.World
	target := rapid.SampledFrom(present).Draw(t, "k5target")
	e := &mocrelay.Event{Kind: 5, Tags: []mocrelay.Tag{}}
	if rapid.IntRange(0, 4).Draw(t, "k5own") != 0 {
		e.Pubkey = target.Pubkey
	} else {
		e.Pubkey = rapid.SampledFrom(w.Authors).Draw(t, "k5author")
	}
	e.CreatedAt = cfg.TsBase + rapid.Int64Range(0, cfg.TsSpan).Draw(t, "k5ts")
	var tag mocrelay.Tag
	d, hasD := gen.DTag(target)
	if gen.ClassOf(target.Kind) == gen.Addressable && hasD && rapid.Bool().Draw(t, "k5byaddr") {
		tag = mocrelay.Tag{"a", gen.AddrString(target.Kind, target.Pubkey, d)}
	} else {
		tag = mocrelay.Tag{"e", target.ID}
	}
	if !cfg.NoThreeElem && rapid.IntRange(0, 3).Draw(t, "k5three") == 0 {
		tag = append(tag, "wss://r.example")
	}
	e.Tags = append(e.Tags, tag)
	if rapid.IntRange(0, 3).Draw(t, "k5dup") == 0 {
		// the same target named twice, in the other form
		dup := mocrelay.Tag{tag[0], tag[1]}
		if len(tag) == 2 {
			dup = append(dup, "wss://other.example")
		}
		e.Tags = append(e.Tags, dup)
	}
	e.Content = rapid.SampledFrom([]string{"", "x"}).Draw(t, "k5content")
	gen.Seal(e)
	w.Events = append(w.Events, e)
	return e
}

// TestC06RegressFixed: plain regressions for the fixed C06 findings.
func TestC06RegressFixed(t *testing.T) {
	db, seed, err := openMem("sqlite3")
	if err != nil {
		t.Fatal(err)
	}
	defer db.Close()
	ctx := context.Background()
	a := gen.Keys[0].Pub
	mk := func(kind, ts int64, tags ...mocrelay.Tag) *mocrelay.Event {
		e := &mocrelay.Event{Pubkey: a, Kind: kind, CreatedAt: ts, Tags: append([]mocrelay.Tag{}, tags...)}
		gen.Seal(e)
		return e
	}
	x, y := mk(1, 1, mocrelay.Tag{"e", gen.FakeID(1)}, mocrelay.Tag{"E", "v"}), mk(1, 2)
	k := mk(5, 3, mocrelay.Tag{"e", y.ID, "wss://r.example"})
	if err := mocsqlite.VerifInsertEvents(ctx, db, seed, []*mocrelay.Event{x, y, k}); err != nil {
		t.Fatal(err)
	}
	q := func(fs ...*mocrelay.ReqFilter) ([]*mocrelay.Event, error) {
		return mocsqlite.VerifQueryEvent(ctx, db, seed, fs, mocsqlite.NoLimit)
	}
	if r, err := q(&mocrelay.ReqFilter{Tags: map[string][]string{"e": {gen.FakeID(1)}, "E": {"v"}}}); err != nil || len(r) != 1 {
		hx.Fail(t, ev.Failure{Property: "C06", Signature: "query-error", Clause: "regression: #e together with #E", Observed: fmt.Sprintf("%d events, err=%v", len(r), err), Expected: "1 event"})
	}
	if r, err := q(&mocrelay.ReqFilter{Limit: gen.Ptr(int64(0))}); err != nil || len(r) != 0 {
		hx.Fail(t, ev.Failure{Property: "C06", Signature: "query-answer", Clause: "regression: limit 0 returns nothing", Observed: fmt.Sprintf("%d events, err=%v", len(r), err), Expected: "0 events"})
	}
	if r, err := q(&mocrelay.ReqFilter{IDs: []string{y.ID}}); err != nil || len(r) != 0 {
		hx.Fail(t, ev.Failure{Property: "C06", Signature: "query-answer", Clause: "regression: 3-element e tag of a deletion request hides its target", Observed: fmt.Sprintf("%d events, err=%v", len(r), err), Expected: "0 events"})
	}
}

// TestC06ConcurrentReadersSeeWholeEvents: queries run on a second connection while batches
// replace versions of a few addresses over and over. Whatever a query returns, each event is
// identical in all seven fields to an event that was inserted (never a mixture of two
// versions), and per filter no address appears twice.
func TestC06ConcurrentReadersSeeWholeEvents(t *testing.T) {
	col := ev.For("C06").SetRule(c06Rule)
	rapid.Check(t, func(t *rapid.T) {
		dir, err := os.MkdirTemp("", "verif-c06-")
		if err != nil {
			t.Fatalf("tempdir: %v", err)
		}
		defer os.RemoveAll(dir)
		dsn := "file:" + dir + "/relay.db?_busy_timeout=5000&_journal_mode=WAL"
		db, err := sql.Open("sqlite3", dsn)
		if err != nil {
			t.Fatalf("open: %v", err)
		}
		defer db.Close()
		db.SetMaxOpenConns(4)
		ctx := context.Background()
		if err := mocsqlite.Migrate(ctx, db); err != nil {
			t.Fatalf("migrate: %v", err)
		}
		seed, err := mocsqlite.VerifSetOrLoadXXHashSeed(ctx, db)
		if err != nil {
			t.Fatalf("seed: %v", err)
		}
		naddr := rapid.IntRange(1, 4).Draw(t, "addresses")
		versions := rapid.IntRange(40, 200).Draw(t, "versions")
		readers := rapid.IntRange(1, 3).Draw(t, "readers")
		desc := map[string]any{"mode": "queries during replacing batches (second connection)", "addresses": naddr, "versions_per_address": versions, "readers": readers}
		authors := gen.Pubkeys(2)
		var mu sync.Mutex
		inserted := map[string]string{} // id -> canonical JSON of the inserted event
		var stop atomic.Bool
		var wg sync.WaitGroup
		fails := make(chan string, 16)
		for r := 0; r < readers; r++ {
			wg.Add(1)
			go func(r int) {
				defer wg.Done()
				fs := [][]*mocrelay.ReqFilter{{{Kinds: []int64{0, 10000, 30000}}}, {{Authors: authors}}, {{}}}[r%3]
				for !stop.Load() {
					evs, err := mocsqlite.VerifQueryEvent(ctx, db, seed, fs, 500)
					if err != nil {
						continue // lock contention: decides nothing
					}
					for _, e := range evs {
						mu.Lock()
						want, ok := inserted[e.ID]
						mu.Unlock()
						if got := hx.JSON(gen.Norm(e)); !ok || got != want {
							select {
							case fails <- fmt.Sprintf("returned %s; inserted under that id: %s", got, want):
							default:
							}
							return
						}
					}
				}
			}(r)
		}
		for v := 0; v < versions && len(fails) == 0; v++ {
			var batch []*mocrelay.Event
			for a := 0; a < naddr; a++ {
				e := &mocrelay.Event{Pubkey: authors[a%2], Kind: []int64{0, 10000, 30000, 30000}[a], CreatedAt: int64(1000 + v), Tags: []mocrelay.Tag{}, Content: fmt.Sprintf("address %d version %d %s", a, v, strings.Repeat("v", v%17))}
				if e.Kind == 30000 {
					e.Tags = append(e.Tags, mocrelay.Tag{"d", fmt.Sprint("d", a)})
				}
				e.Tags = append(e.Tags, mocrelay.Tag{"t", fmt.Sprint("v", v)})
				gen.Seal(e)
				mu.Lock()
				inserted[e.ID] = hx.JSON(gen.Norm(e))
				mu.Unlock()
				batch = append(batch, e)
			}
			if err := mocsqlite.VerifInsertEvents(ctx, db, seed, batch); err != nil {
				continue // lock contention with a reader: the batch is simply not there
			}
		}
		stop.Store(true)
		wg.Wait()
		select {
		case f := <-fails:
			hx.Fail(t, ev.Failure{Property: "C06", Signature: "torn-event", Clause: "a query returns events each identical in all seven fields to the event that was inserted (queries running while newer versions are inserted)", Case: desc, Observed: f})
		default:
		}
		col.Label("mode:concurrent-readers")
		col.Case(true, hx.JSON(desc), func() any { return desc })
	})
}
