package sqlite

import (
	"context"
	"database/sql"
	"database/sql/driver"
	"errors"
	"strings"
	"sync"

	sqlite3 "github.com/mattn/go-sqlite3"
)

// A database/sql driver that wraps go-sqlite3 and fails the n-th driver call
// of a batch insertion (begin, each prepare, each statement exec, commit)
// *before* executing it. A failed commit rolls the transaction back, as
// go-sqlite3 itself does.

var errInjected = errors.New("verif: injected driver fault")

type faultCtl struct {
	mu     sync.Mutex
	armed  bool
	failAt int
	count  int
	log    []string
	fired  string
	err    error // what a failing call returns (nil: errInjected)
}

// faultErrors: what a failing driver call may return. SQLite reports lock contention, I/O
// errors and a full disk through sqlite3.Error values; a caller must treat every one of them
// as "this statement did not run".
var faultErrors = map[string]error{
	"generic": errInjected,
	"busy":    sqlite3.Error{Code: sqlite3.ErrBusy},
	"locked":  sqlite3.Error{Code: sqlite3.ErrLocked},
	"ioerr":   sqlite3.Error{Code: sqlite3.ErrIoErr},
	"full":    sqlite3.Error{Code: sqlite3.ErrFull},
	"timeout": context.DeadlineExceeded,
}

func (c *faultCtl) errNow() error {
	c.mu.Lock()
	defer c.mu.Unlock()
	if c.err != nil {
		return c.err
	}
	return errInjected
}

func (c *faultCtl) arm(failAt int) {
	c.mu.Lock()
	defer c.mu.Unlock()
	c.armed, c.failAt, c.count, c.log, c.fired = true, failAt, 0, nil, ""
}

func (c *faultCtl) disarm() (calls []string, fired string) {
	c.mu.Lock()
	defer c.mu.Unlock()
	c.armed = false
	return c.log, c.fired
}

func (c *faultCtl) hit(kind string) bool {
	c.mu.Lock()
	defer c.mu.Unlock()
	if !c.armed {
		return false
	}
	idx := c.count
	c.count++
	c.log = append(c.log, kind)
	if idx == c.failAt {
		c.fired = kind
		return true
	}
	return false
}

var theFaultCtl = &faultCtl{}

type faultDriver struct{ inner *sqlite3.SQLiteDriver }

func (d *faultDriver) Open(name string) (driver.Conn, error) {
	c, err := d.inner.Open(name)
	if err != nil {
		return nil, err
	}
	return &faultConn{SQLiteConn: c.(*sqlite3.SQLiteConn)}, nil
}

type faultConn struct {
	*sqlite3.SQLiteConn
}

func (c *faultConn) BeginTx(ctx context.Context, opts driver.TxOptions) (driver.Tx, error) {
	if theFaultCtl.hit("begin") {
		return nil, theFaultCtl.errNow()
	}
	tx, err := c.SQLiteConn.BeginTx(ctx, opts)
	if err != nil {
		return nil, err
	}
	return &faultTx{tx}, nil
}

func (c *faultConn) Begin() (driver.Tx, error) {
	return c.BeginTx(context.Background(), driver.TxOptions{})
}

func stmtKind(q string) string {
	switch {
	case strings.Contains(q, "into event_payloads"):
		return "event_payloads"
	case strings.Contains(q, "into event_tags"):
		return "event_tags"
	case strings.Contains(q, "into deleted_event_keys"):
		return "deleted_event_keys"
	case strings.Contains(q, "into deleted_event_ids"):
		return "deleted_event_ids"
	case strings.Contains(q, "into events"):
		return "events"
	}
	return "other"
}

func (c *faultConn) PrepareContext(ctx context.Context, q string) (driver.Stmt, error) {
	kind := stmtKind(q)
	if theFaultCtl.hit("prepare:" + kind) {
		return nil, theFaultCtl.errNow()
	}
	st, err := c.SQLiteConn.PrepareContext(ctx, q)
	if err != nil {
		return nil, err
	}
	return &faultStmt{SQLiteStmt: st.(*sqlite3.SQLiteStmt), kind: kind}, nil
}

// ExecContext / QueryContext: statements run directly on the connection
// (database/sql uses them for db.ExecContext / tx.ExecContext without a
// prepared statement) are driver calls as well.
func (c *faultConn) ExecContext(ctx context.Context, q string, args []driver.NamedValue) (driver.Result, error) {
	if theFaultCtl.hit("exec:" + stmtKind(q)) {
		return nil, theFaultCtl.errNow()
	}
	return c.SQLiteConn.ExecContext(ctx, q, args)
}

func (c *faultConn) QueryContext(ctx context.Context, q string, args []driver.NamedValue) (driver.Rows, error) {
	if theFaultCtl.hit("query:" + stmtKind(q)) {
		return nil, theFaultCtl.errNow()
	}
	return c.SQLiteConn.QueryContext(ctx, q, args)
}

func (c *faultConn) Prepare(q string) (driver.Stmt, error) {
	return c.PrepareContext(context.Background(), q)
}

type faultStmt struct {
	*sqlite3.SQLiteStmt
	kind string
}

func (s *faultStmt) ExecContext(ctx context.Context, args []driver.NamedValue) (driver.Result, error) {
	if theFaultCtl.hit("exec:" + s.kind) {
		return nil, theFaultCtl.errNow()
	}
	return s.SQLiteStmt.ExecContext(ctx, args)
}

func (s *faultStmt) Exec(args []driver.Value) (driver.Result, error) {
	named := make([]driver.NamedValue, len(args))
	for i, a := range args {
		named[i] = driver.NamedValue{Ordinal: i + 1, Value: a}
	}
	return s.ExecContext(context.Background(), named)
}

type faultTx struct{ driver.Tx }

func (t *faultTx) Commit() error {
	if theFaultCtl.hit("commit") {
		_ = t.Tx.Rollback()
		return theFaultCtl.errNow()
	}
	return t.Tx.Commit()
}

func init() {
	sql.Register("sqlite3_verif_fault", &faultDriver{inner: &sqlite3.SQLiteDriver{}})
}
