package sqlite

import (
	"context"
	"database/sql"
	"fmt"
	"os"
	"path/filepath"
	"sort"
	"strings"
	"testing"

	"github.com/high-moctane/mocrelay"
	mocsqlite "github.com/high-moctane/mocrelay/handler/sqlite"
	"pgregory.net/rapid"

	"verifharness/ev"
	"verifharness/gen"
	"verifharness/hx"
	"verifharness/model"
)

const c14Rule = "cases = (a) fault enumeration: a generated history of 0-4 batches is inserted, then for a generated next batch EVERY driver call index n (begin, each of the 5 prepares, each exec of the 5 statement kinds, commit) is failed in turn through a wrapping database/sql driver: insertEvents must return an error and a battery of queries (match-all, by id, author, kind, tag, with limits) must answer as before; then the batch is retried without fault (answers = model with the batch applied once) and inserted once more (idempotence); (b) reopen: file-backed databases, close/reopen (Migrate + seed load) at generated points between batches: battery unchanged, afterwards newer versions still replace and deletion requests still hide pre-restart events; non-trivial = batch that changes >=1 battery answer and contains a replacement or a deletion request / a reopen followed by a replacement or deletion of a pre-restart event; distinct by hash of the history"

type battery struct {
	filters [][]*mocrelay.ReqFilter
}

func makeBattery(world *gen.World, batch []*mocrelay.Event) battery {
	var b battery
	add := func(fs ...*mocrelay.ReqFilter) { b.filters = append(b.filters, fs) }
	add(&mocrelay.ReqFilter{})
	add(&mocrelay.ReqFilter{Limit: gen.Ptr(int64(1))})
	add(&mocrelay.ReqFilter{Limit: gen.Ptr(int64(3))})
	for _, a := range world.Authors {
		add(&mocrelay.ReqFilter{Authors: []string{a}})
	}
	for _, k := range []int64{0, 1, 5, 30000, 10000} {
		add(&mocrelay.ReqFilter{Kinds: []int64{k}})
	}
	add(&mocrelay.ReqFilter{Tags: map[string][]string{"t": {"x", "y", "z"}}})
	add(&mocrelay.ReqFilter{Tags: map[string][]string{"p": world.Authors}}, &mocrelay.ReqFilter{Kinds: []int64{5}})
	var ids []string
	for _, e := range batch {
		ids = append(ids, e.ID)
	}
	if len(ids) > 0 {
		add(&mocrelay.ReqFilter{IDs: ids})
	}
	var all []string
	for _, e := range world.Events {
		all = append(all, e.ID)
	}
	if len(all) > 0 {
		add(&mocrelay.ReqFilter{IDs: all})
	}
	return b
}

// snapshot runs the battery; unlimited queries are returned as sorted id lists.
func snapshot(db *sql.DB, seed uint32, b battery) ([]string, [][]*mocrelay.Event, error) {
	var out []string
	var answers [][]*mocrelay.Event
	for _, fs := range b.filters {
		r, err := mocsqlite.VerifQueryEvent(context.Background(), db, seed, fs, mocsqlite.NoLimit)
		if err != nil {
			return nil, nil, err
		}
		answers = append(answers, r)
		limited := false
		for _, f := range fs {
			if f.Limit != nil {
				limited = true
			}
		}
		if limited {
			out = append(out, fmt.Sprintf("n=%d", len(r)))
			continue
		}
		ids := gen.SortedIDs(r)
		// full content matters too: include a digest of the seven fields
		var sb strings.Builder
		for _, id := range ids {
			sb.WriteString(id[:12])
			sb.WriteByte(',')
		}
		for _, e := range r {
			sb.WriteString(fmt.Sprintf("|%d:%d:%s:%d", e.Kind, e.CreatedAt, e.Content, len(e.Tags)))
		}
		out = append(out, sb.String())
	}
	return out, answers, nil
}

func checkBatteryAgainstModel(m *model.SQLModel, b battery, answers [][]*mocrelay.Event) string {
	for i, fs := range b.filters {
		if why, judged := m.CheckAnswer(fs, answers[i]); judged && why != "" {
			return fmt.Sprintf("battery query %d %s: %s", i, hx.JSON(gen.BriefFilters(fs)), why)
		}
	}
	return ""
}

func drawBatch(t *rapid.T, label string, cfg *gen.StoreCfg, minN, maxN int) []*mocrelay.Event {
	world := cfg.World
	n := rapid.IntRange(minN, maxN).Draw(t, label+"n")
	var batch []*mocrelay.Event
	for i := 0; i < n; i++ {
		var e *mocrelay.Event
		op := rapid.IntRange(0, 20).Draw(t, fmt.Sprintf("%s%d.op", label, i))
		if op == 20 {
			batch = append(batch, cfg.DrawBurst(t)...)
			continue
		}
		switch {
		case op < 8 || len(world.Events) == 0:
			e = cfg.DrawEvent(t)
		case op < 13:
			e = cfg.DrawVersion(t)
		case op < 15:
			e = gen.CloneEvent(rapid.SampledFrom(world.Events).Draw(t, "reoffer"))
		default:
			e = drawTargetedKind5(t, cfg, world.Events)
		}
		batch = append(batch, e)
	}
	return batch
}

func briefBatch(b []*mocrelay.Event) []map[string]any {
	out := make([]map[string]any, len(b))
	for i, e := range b {
		out[i] = gen.Brief(e)
	}
	return out
}

func TestC14FaultEnumeration(t *testing.T) {
	col := ev.For("C14").SetRule(c14Rule)
	col.Assume("faults are injected at the database/sql driver API (begin, prepare, exec, commit), before the call executes; no torn-page / power-loss model")
	rapid.Check(t, func(t *rapid.T) {
		db, seed, err := openMem("sqlite3_verif_fault")
		if err != nil {
			t.Fatalf("open: %v", err)
		}
		defer db.Close()
		ctx := context.Background()
		world := &gen.World{Authors: gen.Pubkeys(2)}
		cfg := &gen.StoreCfg{World: world, TsBase: 1000, TsSpan: 5, NoNoD: true, NoOpenRefs: true, NoManyTags: true}
		m := model.NewSQLModel()
		var hist [][]map[string]any
		nb := rapid.IntRange(0, 4).Draw(t, "prebatches")
		for b := 0; b < nb; b++ {
			batch := drawBatch(t, fmt.Sprintf("pre%d.", b), cfg, 1, 6)
			hist = append(hist, briefBatch(batch))
			if err := mocsqlite.VerifInsertEvents(ctx, db, seed, batch); err != nil {
				t.Fatalf("healthy insert failed: %v", err)
			}
			for _, e := range batch {
				m.Insert(e)
			}
		}
		batch := drawBatch(t, "batch.", cfg, 1, 6)
		// what the failing call reports: a generic error, lock contention, an I/O error, a full disk, a deadline
		errKind := rapid.SampledFrom([]string{"generic", "generic", "busy", "busy", "locked", "ioerr", "full", "timeout"}).Draw(t, "fault_error")
		theFaultCtl.mu.Lock()
		theFaultCtl.err = faultErrors[errKind]
		theFaultCtl.mu.Unlock()
		defer func() {
			theFaultCtl.mu.Lock()
			theFaultCtl.err = nil
			theFaultCtl.mu.Unlock()
		}()
		desc := func() any { return map[string]any{"history": hist, "batch": briefBatch(batch), "fault_error": errKind} }
		bat := makeBattery(world, batch)
		before, _, err := snapshot(db, seed, bat)
		if err != nil {
			t.Fatalf("battery failed: %v", err)
		}
		after := m.Clone()
		for _, e := range batch {
			after.Insert(e)
		}
		// every failing call index
		nfaults := 0
		var calls []string
		for n := 0; ; n++ {
			theFaultCtl.arm(n)
			ierr := mocsqlite.VerifInsertEvents(ctx, db, seed, batch)
			log, fired := theFaultCtl.disarm()
			if fired == "" {
				// no call had index n: this attempt ran without fault = the retry
				calls = log
				if ierr != nil {
					hx.Fail(t, ev.Failure{Property: "C14", Signature: "retry-fails", Clause: "inserting the batch again after failures succeeds", Case: desc(), Observed: ierr.Error()})
				}
				break
			}
			nfaults++
			col.Label("fault:" + fired)
			if ierr == nil {
				hx.Fail(t, ev.Failure{Property: "C14", Signature: "fault-swallowed", Clause: "a batch insertion that fails at a statement reports the failure (" + fired + ", call " + fmt.Sprint(n) + ")", Case: desc(), Observed: "nil error"})
			}
			now, _, err := snapshot(db, seed, bat)
			if err != nil {
				hx.Fail(t, ev.Failure{Property: "C14", Signature: "query-error-after-fault", Clause: "queries keep working after a failed batch", Case: desc(), Observed: err.Error()})
			}
			for i := range before {
				if before[i] != now[i] {
					hx.Fail(t, ev.Failure{Property: "C14", Signature: "not-atomic", Clause: fmt.Sprintf("after a batch failed at call %d (%s) the database answers every query exactly as before the batch", n, fired),
						Case: map[string]any{"history": hist, "batch": briefBatch(batch), "failed_call": n, "kind": fired, "query": gen.BriefFilters(bat.filters[i])}, Observed: now[i], Expected: before[i]})
				}
			}
			if n > 400 {
				t.Fatalf("runaway enumeration")
			}
		}
		// after the successful retry: model with the batch applied once
		got, answers, err := snapshot(db, seed, bat)
		if err != nil {
			hx.Fail(t, ev.Failure{Property: "C14", Signature: "query-error-after-retry", Clause: "queries work after the retry", Case: desc(), Observed: err.Error()})
		}
		if why := checkBatteryAgainstModel(after, bat, answers); why != "" {
			hx.Fail(t, ev.Failure{Property: "C14", Signature: "retry-differs-from-single-insert", Clause: "failures followed by a successful retry lead to the same answers as a single successful insertion: " + why, Case: desc(), Observed: why})
		}
		// idempotence
		if err := mocsqlite.VerifInsertEvents(ctx, db, seed, batch); err != nil {
			hx.Fail(t, ev.Failure{Property: "C14", Signature: "repeat-fails", Clause: "inserting the same batch again succeeds", Case: desc(), Observed: err.Error()})
		}
		again, _, err := snapshot(db, seed, bat)
		if err != nil {
			t.Fatalf("battery failed: %v", err)
		}
		for i := range got {
			if got[i] != again[i] {
				hx.Fail(t, ev.Failure{Property: "C14", Signature: "not-idempotent", Clause: "inserting the same batch again after a success changes no answer",
					Case: map[string]any{"history": hist, "batch": briefBatch(batch), "query": gen.BriefFilters(bat.filters[i])}, Observed: again[i], Expected: got[i]})
			}
		}
		changed := false
		for i := range before {
			if before[i] != got[i] {
				changed = true
			}
		}
		rich := after.Replaced > m.Replaced || after.Tombs > m.Tombs
		col.Add("injected_faults", int64(nfaults))
		col.Add("driver_calls_per_batch_sum", int64(len(calls)))
		col.Case(changed && rich, hx.JSON(desc()), func() any {
			return map[string]any{"batch": briefBatch(batch), "driver_calls": calls, "faults_injected": nfaults}
		})
	})
}

func openFile(path string) (*sql.DB, uint32, error) {
	db, err := sql.Open("sqlite3", "file:"+path+"?_busy_timeout=5000")
	if err != nil {
		return nil, 0, err
	}
	db.SetMaxOpenConns(1)
	ctx := context.Background()
	if err := mocsqlite.Migrate(ctx, db); err != nil {
		db.Close()
		return nil, 0, err
	}
	seed, err := mocsqlite.VerifSetOrLoadXXHashSeed(ctx, db)
	if err != nil {
		db.Close()
		return nil, 0, err
	}
	return db, seed, nil
}

func TestC14Reopen(t *testing.T) {
	col := ev.For("C14").SetRule(c14Rule)
	rapid.Check(t, func(t *rapid.T) {
		base := ""
		if st, e := os.Stat("/dev/shm"); e == nil && st.IsDir() {
			base = "/dev/shm"
		}
		dir, err := os.MkdirTemp(base, "verif-c14-")
		if err != nil {
			t.Fatalf("tempdir: %v", err)
		}
		defer os.RemoveAll(dir)
		path := filepath.Join(dir, "relay.db")
		var hist []any
		// the very first start of the process may be cut short as well: the schema set-up fails at
		// its k-th statement, the file is closed, and the next start has to complete the set-up
		if rapid.IntRange(0, 1).Draw(t, "first_open_interrupted") == 0 {
			k := rapid.IntRange(0, 13).Draw(t, "first_open_fails_at_statement")
			fdb, err := sql.Open("sqlite3_verif_fault", "file:"+path+"?_busy_timeout=5000")
			if err != nil {
				t.Fatalf("open (fault driver): %v", err)
			}
			fdb.SetMaxOpenConns(1)
			theFaultCtl.arm(k)
			merr := mocsqlite.Migrate(context.Background(), fdb)
			_, fired := theFaultCtl.disarm()
			fdb.Close()
			hist = append(hist, map[string]any{"op": "first open interrupted", "fails_at_statement": k, "fired": fired, "migrate_error": fmt.Sprint(merr)})
			col.Label("first-open-interrupted")
		}
		db, seed, err := openFile(path)
		if err != nil {
			t.Fatalf("open: %v", err)
		}
		defer func() { db.Close() }()
		ctx := context.Background()
		world := &gen.World{Authors: gen.Pubkeys(2)}
		cfg := &gen.StoreCfg{World: world, TsBase: 1000, TsSpan: 5, NoNoD: true, NoOpenRefs: true}
		m := model.NewSQLModel()
		desc := func() any { return hist }
		nb := rapid.IntRange(2, 7).Draw(t, "batches")
		reopens := 0
		crossRestart := false
		preRestart := map[string]bool{}
		for b := 0; b < nb; b++ {
			if b > 0 && rapid.IntRange(0, 2).Draw(t, fmt.Sprintf("reopen%d", b)) == 0 {
				bat := makeBattery(world, nil)
				before, _, err := snapshot(db, seed, bat)
				if err != nil {
					t.Fatalf("battery: %v", err)
				}
				db.Close()
				db, seed, err = openFile(path)
				if err != nil {
					hx.Fail(t, ev.Failure{Property: "C14", Signature: "reopen-fails", Clause: "the database can be reopened", Case: desc(), Observed: err.Error()})
				}
				hist = append(hist, "close+reopen")
				reopens++
				now, answers, err := snapshot(db, seed, bat)
				if err != nil {
					hx.Fail(t, ev.Failure{Property: "C14", Signature: "query-error-after-reopen", Clause: "queries work after reopening", Case: desc(), Observed: err.Error()})
				}
				for i := range before {
					if before[i] != now[i] {
						hx.Fail(t, ev.Failure{Property: "C14", Signature: "reopen-changes-answer", Clause: "closing and reopening the database changes no query answer",
							Case: map[string]any{"history": hist, "query": gen.BriefFilters(bat.filters[i])}, Observed: now[i], Expected: before[i]})
					}
				}
				if why := checkBatteryAgainstModel(m, bat, answers); why != "" {
					hx.Fail(t, ev.Failure{Property: "C14", Signature: "reopen-differs-from-model", Clause: "after reopening the answers equal the model: " + why, Case: desc(), Observed: why})
				}
				for _, e := range world.Events {
					preRestart[e.ID] = true
				}
			}
			// after a reopen prefer operations that touch pre-restart events
			var batch []*mocrelay.Event
			if reopens > 0 && len(world.Events) > 0 {
				n := rapid.IntRange(1, 4).Draw(t, fmt.Sprintf("b%d.n", b))
				for i := 0; i < n; i++ {
					if rapid.Bool().Draw(t, fmt.Sprintf("b%d.%d.ver", b, i)) {
						batch = append(batch, cfg.DrawVersion(t))
					} else {
						batch = append(batch, drawTargetedKind5(t, cfg, world.Events))
					}
				}
			} else {
				batch = drawBatch(t, fmt.Sprintf("b%d.", b), cfg, 1, 6)
			}
			hist = append(hist, briefBatch(batch))
			if err := mocsqlite.VerifInsertEvents(ctx, db, seed, batch); err != nil {
				hx.Fail(t, ev.Failure{Property: "C14", Signature: "insert-error", Clause: "insertEvents succeeds", Case: desc(), Observed: err.Error()})
			}
			r0, t0 := m.Replaced, m.Tombs
			for _, e := range batch {
				m.Insert(e)
			}
			if reopens > 0 && (m.Replaced > r0 || m.Tombs > t0) {
				crossRestart = true
			}
			bat := makeBattery(world, batch)
			_, answers, err := snapshot(db, seed, bat)
			if err != nil {
				hx.Fail(t, ev.Failure{Property: "C14", Signature: "query-error", Clause: "queries work", Case: desc(), Observed: err.Error()})
			}
			if why := checkBatteryAgainstModel(m, bat, answers); why != "" {
				sig := "answers-differ-from-model"
				if reopens > 0 {
					sig = "semantics-lost-across-reopen"
				}
				hx.Fail(t, ev.Failure{Property: "C14", Signature: sig, Clause: "replacement and deletion keep working across the restart: " + why, Case: desc(), Observed: why})
			}
		}
		col.Label(fmt.Sprintf("reopens:%d", reopens))
		keys := make([]string, 0, len(preRestart))
		for k := range preRestart {
			keys = append(keys, k)
		}
		sort.Strings(keys)
		col.Case(reopens > 0 && crossRestart, hx.JSON(hist), desc)
	})
}

// TestC14LargeBatch: batches of 101-260 storable events (beyond any plausible
// internal chunk size); the failing call index is sampled (first/last calls, the
// calls around every multiple of 50 events, and random ones) instead of enumerated.
func TestC14LargeBatch(t *testing.T) {
	col := ev.For("C14").SetRule(c14Rule)
	col.Assume("for batches of more than 100 events the failing call index is sampled (about 40 indexes incl. boundaries), not enumerated")
	rapid.Check(t, func(t *rapid.T) {
		db, seed, err := openMem("sqlite3_verif_fault")
		if err != nil {
			t.Fatalf("open: %v", err)
		}
		defer db.Close()
		ctx := context.Background()
		world := &gen.World{Authors: gen.Pubkeys(2)}
		cfg := &gen.StoreCfg{World: world, TsBase: 1000, TsSpan: 50, NoNoD: true, NoOpenRefs: true, NoEphemeral: true}
		n := rapid.IntRange(101, 260).Draw(t, "n")
		var batch []*mocrelay.Event
		for len(batch) < n {
			batch = append(batch, cfg.DrawEvent(t))
		}
		desc := map[string]any{"batch_size": len(batch)}
		bat := battery{filters: [][]*mocrelay.ReqFilter{{{}}, {{Kinds: []int64{1}}}, {{Kinds: []int64{5}}}, {{Authors: world.Authors[:1]}}}}
		before, _, err := snapshot(db, seed, bat)
		if err != nil {
			t.Fatalf("battery: %v", err)
		}
		// count the driver calls with a dry run on a scratch database
		db0, seed0, err := openMem("sqlite3_verif_fault")
		if err != nil {
			t.Fatalf("open: %v", err)
		}
		theFaultCtl.arm(1 << 30)
		if err := mocsqlite.VerifInsertEvents(ctx, db0, seed0, batch); err != nil {
			t.Fatalf("dry run: %v", err)
		}
		calls, _ := theFaultCtl.disarm()
		db0.Close()
		total := len(calls)
		idx := map[int]bool{0: true, 1: true, 5: true, 6: true, total - 1: true, total - 2: true}
		for i := 0; i < 30; i++ {
			idx[rapid.IntRange(0, total-1).Draw(t, fmt.Sprintf("fault%d", i))] = true
		}
		// the calls right after every 50th event
		evCount := 0
		for ci, c := range calls {
			if c == "exec:events" {
				evCount++
				if evCount%50 == 1 || evCount%50 == 0 {
					idx[ci] = true
					if ci+1 < total {
						idx[ci+1] = true
					}
				}
			}
		}
		nf := 0
		for fi := range idx {
			if fi < 0 || fi >= total {
				continue
			}
			theFaultCtl.arm(fi)
			ierr := mocsqlite.VerifInsertEvents(ctx, db, seed, batch)
			_, fired := theFaultCtl.disarm()
			if fired == "" {
				continue
			}
			nf++
			col.Label("fault-large:" + fired)
			if ierr == nil {
				hx.Fail(t, ev.Failure{Property: "C14", Signature: "fault-swallowed", Clause: "a batch insertion that fails at a statement reports the failure", Case: desc, Observed: fmt.Sprintf("nil error (call %d %s)", fi, fired)})
			}
			now, _, err := snapshot(db, seed, bat)
			if err != nil {
				hx.Fail(t, ev.Failure{Property: "C14", Signature: "query-error-after-fault", Clause: "queries keep working after a failed batch", Case: desc, Observed: err.Error()})
			}
			for i := range before {
				if before[i] != now[i] {
					hx.Fail(t, ev.Failure{Property: "C14", Signature: "not-atomic", Clause: fmt.Sprintf("after a batch of %d events failed at call %d of %d (%s) the database answers every query exactly as before the batch", len(batch), fi, total, fired),
						Case: map[string]any{"batch_size": len(batch), "failed_call": fi, "kind": fired, "query": gen.BriefFilters(bat.filters[i])}, Observed: now[i], Expected: before[i]})
				}
			}
		}
		if err := mocsqlite.VerifInsertEvents(ctx, db, seed, batch); err != nil {
			hx.Fail(t, ev.Failure{Property: "C14", Signature: "retry-fails", Clause: "inserting the batch again after failures succeeds", Case: desc, Observed: err.Error()})
		}
		m := model.NewSQLModel()
		for _, e := range batch {
			m.Insert(e)
		}
		_, answers, err := snapshot(db, seed, bat)
		if err != nil {
			t.Fatalf("battery: %v", err)
		}
		if why := checkBatteryAgainstModel(m, bat, answers); why != "" {
			hx.Fail(t, ev.Failure{Property: "C14", Signature: "retry-differs-from-single-insert", Clause: "failures followed by a successful retry lead to the same answers as a single successful insertion: " + why, Case: desc, Observed: why})
		}
		col.Add("injected_faults", int64(nf))
		col.Case(true, hx.JSON(briefBatch(batch)), func() any {
			return map[string]any{"batch_size": len(batch), "driver_calls": total, "faults_injected": nf}
		})
	})
}
