package sqlite

import (
	"context"
	"database/sql"
	"fmt"
	"os"
	"sync/atomic"
	"testing"

	mocsqlite "github.com/high-moctane/mocrelay/handler/sqlite"
	_ "github.com/mattn/go-sqlite3"

	"verifharness/ev"
)

func TestMain(m *testing.M) {
	code := m.Run()
	ev.Flush()
	os.Exit(code)
}

var dbCounter int64

// openMem opens a fresh in-memory database (one connection, so that every
// statement sees the same database) and migrates it.
func openMem(driver string) (*sql.DB, uint32, error) {
	n := atomic.AddInt64(&dbCounter, 1)
	db, err := sql.Open(driver, fmt.Sprintf("file:verifmem%d_%d?mode=memory&cache=private", os.Getpid(), n))
	if err != nil {
		return nil, 0, err
	}
	db.SetMaxOpenConns(1)
	ctx := context.Background()
	if err := mocsqlite.Migrate(ctx, db); err != nil {
		db.Close()
		return nil, 0, err
	}
	seed, err := mocsqlite.VerifSetOrLoadXXHashSeed(ctx, db)
	if err != nil {
		db.Close()
		return nil, 0, err
	}
	return db, seed, nil
}
