package model

import (
	"sort"

	"github.com/high-moctane/mocrelay"

	"verifharness/gen"
)

// SQLModel is the specification of the SQLite store (C06): stored = every
// non-ephemeral event inserted, newest version per replaceable/addressable
// address; deleted = referenced by id or address by a deletion request of the
// same author, whichever arrived first.
type SQLModel struct {
	byID     map[string]*mocrelay.Event
	regular  []*mocrelay.Event                    // regular events incl. kind 5, distinct ids, insertion order
	versions map[gen.AddrKey][]*mocrelay.Event    // all inserted versions per address (distinct ids)
	tombID   map[string]map[string]bool           // author -> ids
	tombAddr map[string]map[string]bool           // author -> kind:pubkey:d
	Replaced int
	Tombs    int
}

func NewSQLModel() *SQLModel {
	return &SQLModel{byID: map[string]*mocrelay.Event{}, versions: map[gen.AddrKey][]*mocrelay.Event{},
		tombID: map[string]map[string]bool{}, tombAddr: map[string]map[string]bool{}}
}

// Clone copies the model (events are shared, they are immutable).
func (m *SQLModel) Clone() *SQLModel {
	c := NewSQLModel()
	for k, v := range m.byID {
		c.byID[k] = v
	}
	c.regular = append(c.regular, m.regular...)
	for k, v := range m.versions {
		c.versions[k] = append([]*mocrelay.Event(nil), v...)
	}
	for a, s := range m.tombID {
		c.tombID[a] = map[string]bool{}
		for k := range s {
			c.tombID[a][k] = true
		}
	}
	for a, s := range m.tombAddr {
		c.tombAddr[a] = map[string]bool{}
		for k := range s {
			c.tombAddr[a][k] = true
		}
	}
	c.Replaced, c.Tombs = m.Replaced, m.Tombs
	return c
}

// Insert applies one inserted event.
func (m *SQLModel) Insert(e *mocrelay.Event) {
	if gen.ClassOf(e.Kind) == gen.Ephemeral {
		return
	}
	if m.byID[e.ID] != nil {
		return
	}
	k, isAddr, hasD := gen.AddrOf(e)
	if isAddr && !hasD {
		return // addressable without d tag: outside the statement, not generated
	}
	m.byID[e.ID] = e
	if isAddr {
		if len(m.versions[k]) > 0 {
			m.Replaced++
		}
		m.versions[k] = append(m.versions[k], e)
	} else {
		m.regular = append(m.regular, e)
	}
	if e.Kind == 5 {
		for _, t := range e.Tags {
			if len(t) < 2 {
				continue
			}
			switch t[0] {
			case "e":
				if gen.IsHex64(t[1]) {
					if m.tombID[e.Pubkey] == nil {
						m.tombID[e.Pubkey] = map[string]bool{}
					}
					m.tombID[e.Pubkey][t[1]] = true
					m.Tombs++
				}
			case "a":
				if m.tombAddr[e.Pubkey] == nil {
					m.tombAddr[e.Pubkey] = map[string]bool{}
				}
				m.tombAddr[e.Pubkey][t[1]] = true
				m.Tombs++
			}
		}
	}
}

func (m *SQLModel) deleted(e *mocrelay.Event) bool {
	if m.tombID[e.Pubkey][e.ID] {
		return true
	}
	if k, ok, hasD := gen.AddrOf(e); ok && hasD && k.Param {
		return m.tombAddr[e.Pubkey][gen.AddrString(k.Kind, k.Pubkey, k.D)]
	}
	return false
}

// LiveSets enumerates the possible live sets: for every address whose newest
// timestamp is shared by several versions any of them may be the stored one.
// max bounds the number of combinations; ok=false when exceeded.
func (m *SQLModel) LiveSets(max int) (sets [][]*mocrelay.Event, ok bool) {
	var base []*mocrelay.Event
	for _, e := range m.regular {
		if !m.deleted(e) {
			base = append(base, e)
		}
	}
	var choices [][]*mocrelay.Event
	keys := make([]gen.AddrKey, 0, len(m.versions))
	for k := range m.versions {
		keys = append(keys, k)
	}
	sort.Slice(keys, func(i, j int) bool {
		a, b := keys[i], keys[j]
		if a.Kind != b.Kind {
			return a.Kind < b.Kind
		}
		if a.Pubkey != b.Pubkey {
			return a.Pubkey < b.Pubkey
		}
		return a.D < b.D
	})
	combos := 1
	for _, k := range keys {
		vs := m.versions[k]
		mx := vs[0].CreatedAt
		for _, v := range vs {
			if v.CreatedAt > mx {
				mx = v.CreatedAt
			}
		}
		var cands []*mocrelay.Event
		for _, v := range vs {
			if v.CreatedAt == mx {
				cands = append(cands, v)
			}
		}
		if len(cands) == 1 {
			if !m.deleted(cands[0]) {
				base = append(base, cands[0])
			}
			continue
		}
		// several candidates: each may or may not be deleted
		combos *= len(cands)
		if combos > max {
			return nil, false
		}
		choices = append(choices, cands)
	}
	sets = [][]*mocrelay.Event{base}
	for _, cands := range choices {
		var next [][]*mocrelay.Event
		for _, s := range sets {
			for _, c := range cands {
				ns := append([]*mocrelay.Event(nil), s...)
				if !m.deleted(c) {
					ns = append(ns, c)
				}
				next = append(next, ns)
			}
		}
		sets = next
	}
	return sets, true
}

// CheckAnswer: r must be an allowed answer over at least one possible live set.
func (m *SQLModel) CheckAnswer(fs []*mocrelay.ReqFilter, r []*mocrelay.Event) (why string, judged bool) {
	sets, ok := m.LiveSets(16)
	if !ok {
		return "", false
	}
	first := ""
	for _, l := range sets {
		w := AllowedAnswer(l, fs, r)
		if w == "" {
			return "", true
		}
		if first == "" {
			first = w
		}
	}
	return first, true
}
