// Package model holds the reference models (specifications) the checks compare
// the implementation with. Nothing here calls the code under test.
package model

import (
	"fmt"
	"sort"

	"github.com/high-moctane/mocrelay"

	"verifharness/gen"
)

// CheckListing verifies that a listing is ordered by non-increasing created_at
// and has pairwise distinct ids.
func CheckListing(r []*mocrelay.Event) string {
	seen := map[string]bool{}
	for i, e := range r {
		if e == nil {
			return fmt.Sprintf("nil event at position %d", i)
		}
		if seen[e.ID] {
			return fmt.Sprintf("event %s listed twice", gen.Short(e.ID))
		}
		seen[e.ID] = true
		if i > 0 && r[i-1].CreatedAt < e.CreatedAt {
			return fmt.Sprintf("order: position %d has created_at %d after %d", i, e.CreatedAt, r[i-1].CreatedAt)
		}
	}
	return ""
}

// AllowedAnswer decides whether r is *an* answer the filter specification
// allows over the live set l for the filter list fs:
//
//	r = union over filters of "the limit newest matching events" (all matching
//	ones without limit), ordered by non-increasing created_at, no duplicates;
//	ties at a filter's cut-off timestamp may be broken either way.
//
// It returns "" when allowed, else the reason.
func AllowedAnswer(l []*mocrelay.Event, fs []*mocrelay.ReqFilter, r []*mocrelay.Event) string {
	if why := CheckListing(r); why != "" {
		return why
	}
	live := map[string]*mocrelay.Event{}
	for _, e := range l {
		live[e.ID] = e
	}
	inR := map[string]bool{}
	for _, e := range r {
		le, ok := live[e.ID]
		if !ok {
			return fmt.Sprintf("returned event %s is not in the retained/live set", gen.Short(e.ID))
		}
		if !gen.EventEqual(le, e) {
			return fmt.Sprintf("returned event %s differs from the stored one", gen.Short(e.ID))
		}
		inR[e.ID] = true
	}
	mand := map[string]bool{}
	type tieInfo struct {
		cands map[string]bool
		need  int
	}
	var ties []tieInfo
	for i, f := range fs {
		var m []*mocrelay.Event
		for _, e := range l {
			if gen.MatchFilter(e, f) {
				m = append(m, e)
			}
		}
		k := len(m)
		if f.Limit != nil && *f.Limit < int64(k) {
			k = int(*f.Limit)
			if k < 0 {
				k = 0
			}
		}
		if k == len(m) {
			for _, e := range m {
				mand[e.ID] = true
			}
			continue
		}
		if k == 0 {
			continue
		}
		sort.Slice(m, func(a, b int) bool { return m[a].CreatedAt > m[b].CreatedAt })
		theta := m[k-1].CreatedAt
		ti := tieInfo{cands: map[string]bool{}}
		nm := 0
		for _, e := range m {
			if e.CreatedAt > theta {
				mand[e.ID] = true
				nm++
			} else if e.CreatedAt == theta {
				ti.cands[e.ID] = true
			}
		}
		ti.need = k - nm
		if ti.need == len(ti.cands) {
			for id := range ti.cands {
				mand[id] = true
			}
			continue
		}
		_ = i
		ties = append(ties, ti)
	}
	for id := range mand {
		if !inR[id] {
			return fmt.Sprintf("event %s must be in the answer (among the limit newest matches of a filter) but is missing", gen.Short(id))
		}
	}
	// rest = R \ mand must be covered by tie slots; each tie filter must get exactly
	// `need` of its candidates from R (mandatory elements of other filters count too).
	var rest []string
	for _, e := range r {
		if !mand[e.ID] {
			rest = append(rest, e.ID)
		}
	}
	for _, id := range rest {
		ok := false
		for _, ti := range ties {
			if ti.cands[id] {
				ok = true
			}
		}
		if !ok {
			return fmt.Sprintf("event %s is in the answer but no filter selects it (not matching, or beyond the limit)", gen.Short(id))
		}
	}
	// every tie filter needs `need` candidates inside R
	for _, ti := range ties {
		have := 0
		for id := range ti.cands {
			if inR[id] {
				have++
			}
		}
		if have < ti.need {
			return fmt.Sprintf("a filter with limit is short of %d tie candidate(s) at its cut-off timestamp", ti.need-have)
		}
	}
	// each element of rest must be assigned to a tie filter with residual capacity:
	// capacity of filter j for rest elements = need_j - (number of its candidates that are in R because mandatory elsewhere) ... at least;
	// exact condition: there is a choice S_j subset of cands_j, |S_j| = need_j, with union(S_j) ∪ mand = R.
	// Elements of cands_j already in mand can fill slots freely, so the binding constraint is that every
	// rest element gets a slot: bipartite matching rest -> filter slots with capacity need_j.
	if len(rest) > 0 {
		capLeft := make([]int, len(ties))
		for j, ti := range ties {
			capLeft[j] = ti.need
		}
		assign := make(map[string]int, len(rest))
		var try func(id string, seen []bool) bool
		owners := make([][]string, len(ties))
		try = func(id string, seen []bool) bool {
			for j, ti := range ties {
				if !ti.cands[id] || seen[j] {
					continue
				}
				seen[j] = true
				if len(owners[j]) < capLeft[j] {
					owners[j] = append(owners[j], id)
					assign[id] = j
					return true
				}
				for oi, other := range owners[j] {
					if try(other, seen) {
						owners[j][oi] = id
						assign[id] = j
						return true
					}
				}
			}
			return false
		}
		for _, id := range rest {
			if !try(id, make([]bool, len(ties))) {
				return fmt.Sprintf("too many events at a cut-off timestamp: %s exceeds the limits of the filters that could select it", gen.Short(id))
			}
		}
	}
	return ""
}

// ExactAnswer computes the unique answer when no tie is cut (deterministic
// model); ok=false when some filter cuts through a tie.
func ExactAnswer(l []*mocrelay.Event, fs []*mocrelay.ReqFilter) (out []*mocrelay.Event, ok bool) {
	sel := map[string]*mocrelay.Event{}
	for _, f := range fs {
		var m []*mocrelay.Event
		for _, e := range l {
			if gen.MatchFilter(e, f) {
				m = append(m, e)
			}
		}
		sort.Slice(m, func(a, b int) bool { return m[a].CreatedAt > m[b].CreatedAt })
		k := len(m)
		if f.Limit != nil && *f.Limit < int64(k) {
			k = int(*f.Limit)
			if k < 0 {
				k = 0
			}
			if k > 0 && k < len(m) && m[k-1].CreatedAt == m[k].CreatedAt {
				return nil, false
			}
		}
		for _, e := range m[:k] {
			sel[e.ID] = e
		}
	}
	for _, e := range sel {
		out = append(out, e)
	}
	sort.Slice(out, func(a, b int) bool {
		if out[a].CreatedAt != out[b].CreatedAt {
			return out[a].CreatedAt > out[b].CreatedAt
		}
		return out[a].ID > out[b].ID
	})
	return out, true
}
