package model

import (
	"fmt"
	"strconv"

	"github.com/high-moctane/mocrelay"

	"verifharness/gen"
)

// Store specification (C04, C05) as a nondeterministic transition relation over
// the *observed* retained set. See DESIGN.md Appendix A.1.

// Verdict of a transition check.
type Verdict struct {
	OK       bool
	Property string // "C04" or "C05": whose clause rejected the transition
	Sig      string // stable signature of the failure class
	Clause   string
}

func ok() Verdict { return Verdict{OK: true} }

func bad(prop, sig, clause string, a ...any) Verdict {
	return Verdict{Property: prop, Sig: sig, Clause: fmt.Sprintf(clause, a...)}
}

// refsE / refsA: second elements of e / a tags with >= 2 elements of a kind-5.
func refsE(k *mocrelay.Event) map[string]bool {
	m := map[string]bool{}
	for _, t := range k.Tags {
		if len(t) >= 2 && t[0] == "e" {
			m[t[1]] = true
		}
	}
	return m
}

func refsA(k *mocrelay.Event) map[string]bool {
	m := map[string]bool{}
	for _, t := range k.Tags {
		if len(t) >= 2 && t[0] == "a" {
			m[t[1]] = true
		}
	}
	return m
}

// Refs: deletion request k (definitely) references x: same author, and by id,
// or x is addressable with a d tag and k carries its kind:pubkey:d.
func Refs(k, x *mocrelay.Event) bool {
	if k.Kind != 5 || k.Pubkey != x.Pubkey {
		return false
	}
	if refsE(k)[x.ID] {
		return true
	}
	if gen.ClassOf(x.Kind) == gen.Addressable {
		if d, has := gen.DTag(x); has {
			return refsA(k)[gen.AddrString(x.Kind, x.Pubkey, d)]
		}
	}
	return false
}

// OpenRef: k references x by an address form on which the properties are
// silent (replaceable addresses, d-less addressable events): either outcome.
func OpenRef(k, x *mocrelay.Event) bool {
	if k.Kind != 5 || k.Pubkey != x.Pubkey || Refs(k, x) {
		return false
	}
	a := refsA(k)
	switch gen.ClassOf(x.Kind) {
	case gen.Replaceable:
		return a[gen.AddrString(x.Kind, x.Pubkey, "")] || a[strconv.FormatInt(x.Kind, 10)+":"+x.Pubkey]
	case gen.Addressable:
		if _, has := gen.DTag(x); !has {
			return a[gen.AddrString(x.Kind, x.Pubkey, "")]
		}
	}
	return false
}

// sameAddr: definite = both have the same replaceable/addressable address.
// optional = addressable, same kind and author, one of them without d tag and
// the other without d tag or with d == "" (the statement leaves d-less events open).
func sameAddr(a, b *mocrelay.Event) (definite, optional bool) {
	ka, oka, hasA := gen.AddrOf(a)
	kb, okb, hasB := gen.AddrOf(b)
	if !oka || !okb || ka.Kind != kb.Kind || ka.Pubkey != kb.Pubkey || ka.Param != kb.Param {
		return false, false
	}
	if !ka.Param {
		return true, false
	}
	if hasA && hasB {
		return ka.D == kb.D, false
	}
	// at least one d-less
	if ka.D == "" && kb.D == "" {
		return false, true
	}
	return false, false
}

func isNoD(e *mocrelay.Event) bool {
	if gen.ClassOf(e.Kind) != gen.Addressable {
		return false
	}
	_, has := gen.DTag(e)
	return !has
}

// CheckInvariants: the always-on clauses of C04 on a retained set.
func CheckInvariants(s []*mocrelay.Event, capacity int) Verdict {
	if len(s) > capacity {
		return bad("C04", "over-capacity", "store holds %d events, capacity %d", len(s), capacity)
	}
	ids := map[string]bool{}
	addr := map[gen.AddrKey]*mocrelay.Event{}
	for _, e := range s {
		if ids[e.ID] {
			return bad("C04", "duplicate-id", "id %s retained twice", gen.Short(e.ID))
		}
		ids[e.ID] = true
		if gen.ClassOf(e.Kind) == gen.Ephemeral {
			return bad("C04", "ephemeral-stored", "ephemeral event %s (kind %d) is served from storage", gen.Short(e.ID), e.Kind)
		}
		if k, ok, hasD := gen.AddrOf(e); ok && hasD {
			if o := addr[k]; o != nil {
				return bad("C04", "two-versions", "two events retained for one address kind=%d d=%q: %s and %s", k.Kind, k.D, gen.Short(o.ID), gen.Short(e.ID))
			}
			addr[k] = e
		}
	}
	return ok()
}

func byID(s []*mocrelay.Event) map[string]*mocrelay.Event {
	m := make(map[string]*mocrelay.Event, len(s))
	for _, e := range s {
		m[e.ID] = e
	}
	return m
}

// CheckTransition decides whether (s2, flag) is an allowed outcome of offering e
// to a store whose retained set is s (capacity cap). history holds every event
// offered before (used only to attribute a failure to C04 or C05).
func CheckTransition(s []*mocrelay.Event, capacity int, e *mocrelay.Event, s2 []*mocrelay.Event, flag bool, history []*mocrelay.Event) Verdict {
	if v := CheckInvariants(s2, capacity); !v.OK {
		return v
	}
	before, after := byID(s), byID(s2)
	var removed, added []*mocrelay.Event
	for _, x := range s {
		if after[x.ID] == nil {
			removed = append(removed, x)
		}
	}
	for _, x := range s2 {
		if before[x.ID] == nil {
			added = append(added, x)
		}
	}
	for _, x := range added {
		if x.ID != e.ID {
			return bad("C04", "foreign-addition", "event %s appeared although %s was offered", gen.Short(x.ID), gen.Short(e.ID))
		}
	}
	unchanged := len(removed) == 0 && len(added) == 0
	eIn := after[e.ID] != nil
	if eIn && !gen.EventEqual(after[e.ID], e) {
		return bad("C04", "stored-differs", "stored event %s differs from the offered one", gen.Short(e.ID))
	}

	suppressedBy := func() *mocrelay.Event {
		for _, k := range s {
			if Refs(k, e) {
				return k
			}
		}
		return nil
	}
	openBy := func() bool {
		for _, k := range s {
			if OpenRef(k, e) {
				return true
			}
		}
		return false
	}

	// attribution helper: could an event of another author explain the outcome?
	foreignInvolved := func() bool {
		for _, x := range s {
			if x.Pubkey == e.Pubkey {
				continue
			}
			if x.Kind == 5 {
				if refsE(x)[e.ID] {
					return true
				}
				if k, ok, _ := gen.AddrOf(e); ok && (refsA(x)[gen.AddrString(k.Kind, k.Pubkey, k.D)]) {
					return true
				}
			}
			if x.Kind == e.Kind && gen.ClassOf(e.Kind) != gen.Regular {
				return true
			}
			if gen.ClassOf(x.Kind) == gen.Ephemeral || gen.ClassOf(e.Kind) == gen.Ephemeral || isNoD(x) || isNoD(e) {
				if gen.ClassOf(x.Kind) != gen.Regular && gen.ClassOf(e.Kind) != gen.Regular {
					return true
				}
			}
		}
		return false
	}
	staleDeletion := func() bool {
		for _, k := range history {
			if before[k.ID] == nil && (Refs(k, e) || OpenRef(k, e)) {
				return true
			}
		}
		return false
	}
	propOfReject := func() string {
		if foreignInvolved() || staleDeletion() {
			return "C05"
		}
		return "C04"
	}

	// ---- ephemeral: never stored, reported new
	if gen.ClassOf(e.Kind) == gen.Ephemeral {
		if !unchanged {
			p := "C04"
			for _, x := range removed {
				if x.Pubkey != e.Pubkey {
					p = "C05"
				}
			}
			return bad(p, "ephemeral-changes-store", "offering ephemeral event %s changed the retained set (removed %d, added %d)", gen.Short(e.ID), len(removed), len(added))
		}
		if k := suppressedBy(); flag && k != nil && k.Pubkey == e.Pubkey && refsE(k)[e.ID] {
			return bad("C04", "suppressed-ephemeral-reported-new", "ephemeral event %s is named by retained deletion request %s of its author but was reported as new", gen.Short(e.ID), gen.Short(k.ID))
		}
		if !flag && suppressedBy() == nil {
			return bad(propOfReject(), "ephemeral-not-new", "ephemeral event %s is neither duplicate, older nor suppressed but was not reported as new", gen.Short(e.ID))
		}
		return ok()
	}
	// ---- duplicate
	if before[e.ID] != nil {
		if !unchanged {
			return bad("C04", "duplicate-changes-store", "re-offering retained event %s changed the retained set", gen.Short(e.ID))
		}
		if flag {
			return bad("C04", "duplicate-reported-new", "retained event %s offered again was reported as new", gen.Short(e.ID))
		}
		return ok()
	}
	// ---- suppressed by a retained deletion request of its author
	if k := suppressedBy(); k != nil {
		if flag || !unchanged {
			return bad("C05", "deleted-event-reinserted", "event %s is referenced by retained deletion request %s of its author but was accepted (flag=%v, store changed=%v)", gen.Short(e.ID), gen.Short(k.ID), flag, !unchanged)
		}
		return ok()
	}

	// ---- general case
	var defR, optR []*mocrelay.Event // same-address retained events (definite / optional)
	for _, r := range s {
		d, o := sameAddr(r, e)
		if d {
			defR = append(defR, r)
		} else if o {
			optR = append(optR, r)
		}
	}
	if !flag {
		if !unchanged {
			p := "C04"
			for _, x := range removed {
				if x.Pubkey != e.Pubkey {
					p = "C05"
				}
			}
			return bad(p, "rejected-but-changed", "event %s was not reported as new but the retained set changed", gen.Short(e.ID))
		}
		for _, r := range defR {
			if r.CreatedAt >= e.CreatedAt {
				return ok() // older or equal timestamp than the retained version
			}
		}
		for _, r := range optR {
			if r.CreatedAt >= e.CreatedAt {
				return ok()
			}
		}
		if openBy() || isNoD(e) {
			return ok()
		}
		return bad(propOfReject(), "fresh-event-rejected", "event %s (kind %d) is neither a duplicate, nor older than a retained version of its address, nor referenced by a retained deletion request of its author, but was not reported as new", gen.Short(e.ID), e.Kind)
	}

	// flag == true
	for _, r := range defR {
		if r.CreatedAt > e.CreatedAt {
			return bad("C04", "older-version-accepted", "event %s (ts %d) was accepted although newer version %s (ts %d) of its address is retained", gen.Short(e.ID), e.CreatedAt, gen.Short(r.ID), r.CreatedAt)
		}
	}
	mand := map[string]bool{}
	opt := map[string]bool{}
	for _, r := range defR {
		mand[r.ID] = true
	}
	for _, r := range optR {
		if r.CreatedAt <= e.CreatedAt {
			opt[r.ID] = true
		}
	}
	if e.Kind == 5 {
		for _, x := range s {
			if Refs(e, x) {
				mand[x.ID] = true
			} else if OpenRef(e, x) {
				opt[x.ID] = true
			}
		}
	}
	for id := range mand {
		if after[id] != nil {
			if e.Kind == 5 && Refs(e, before[id]) {
				return bad("C05", "deletion-target-survives", "deletion request %s references own event %s (kind %d) but it is still retained", gen.Short(e.ID), gen.Short(id), before[id].Kind)
			}
			return bad("C04", "old-version-survives", "event %s displaced nothing although older version %s of its address is retained", gen.Short(e.ID), gen.Short(id))
		}
	}
	// candidates for the capacity victim: none, e itself, or one removed non-mandatory event
	type cand struct {
		none bool
		ev   *mocrelay.Event
	}
	cands := []cand{{none: true}}
	if !eIn {
		cands = append(cands, cand{ev: e})
	}
	for _, x := range removed {
		if !mand[x.ID] {
			cands = append(cands, cand{ev: x})
		}
	}
	var lastWhy Verdict
	for _, c := range cands {
		// optional removals = removed \ mand \ {victim}
		okc := true
		bprime := map[string]*mocrelay.Event{}
		for _, x := range s {
			bprime[x.ID] = x
		}
		bprime[e.ID] = e
		for id := range mand {
			delete(bprime, id)
		}
		for _, x := range removed {
			if mand[x.ID] || (c.ev != nil && c.ev.ID == x.ID) {
				continue
			}
			if !opt[x.ID] {
				okc = false
				p := "C04"
				if x.Pubkey != e.Pubkey || e.Kind == 5 {
					p = "C05"
				}
				sig := "unexplained-removal"
				if x.Pubkey != e.Pubkey {
					sig = "foreign-event-removed"
				}
				lastWhy = bad(p, sig, "event %s (author %s, kind %d) left the store when %s (author %s, kind %d) was offered; it is neither an older version of the same address, nor referenced by this deletion request, nor the oldest event on overflow",
					gen.Short(x.ID), gen.Short(x.Pubkey), x.Kind, gen.Short(e.ID), gen.Short(e.Pubkey), e.Kind)
				break
			}
			delete(bprime, x.ID)
		}
		if !okc {
			continue
		}
		if c.none {
			if len(bprime) > capacity {
				lastWhy = bad("C04", "over-capacity", "after the insertion %d events would be retained (capacity %d) and nothing was evicted", len(bprime), capacity)
				continue
			}
			if !eIn {
				if isNoD(e) {
					return ok() // statement silent on whether d-less addressable events are stored
				}
				lastWhy = bad("C04", "new-event-not-stored", "event %s was reported as new, there is room, but it is not retained", gen.Short(e.ID))
				continue
			}
			return ok()
		}
		// victim c.ev
		if len(bprime) <= capacity {
			lastWhy = bad("C04", "evicted-without-overflow", "event %s left the store although the insertion did not exceed capacity (%d <= %d)", gen.Short(c.ev.ID), len(bprime), capacity)
			if c.ev.ID == e.ID {
				lastWhy = bad("C04", "new-event-not-stored", "event %s was reported as new, there is room, but it is not retained", gen.Short(e.ID))
			}
			if c.ev.Pubkey != e.Pubkey {
				lastWhy.Property, lastWhy.Sig = "C05", "foreign-event-removed"
			}
			continue
		}
		if bprime[c.ev.ID] == nil {
			continue
		}
		minTs := c.ev.CreatedAt
		for _, x := range bprime {
			if x.CreatedAt < minTs {
				minTs = x.CreatedAt
			}
		}
		if c.ev.CreatedAt != minTs {
			lastWhy = bad("C04", "victim-not-oldest", "capacity victim %s has created_at %d but the smallest created_at in the store is %d", gen.Short(c.ev.ID), c.ev.CreatedAt, minTs)
			continue
		}
		if c.ev.ID != e.ID && !eIn {
			lastWhy = bad("C04", "new-event-not-stored", "event %s was reported as new, another event was evicted, but it is not retained", gen.Short(e.ID))
			continue
		}
		return ok()
	}
	if lastWhy.Property == "" {
		lastWhy = bad("C04", "disallowed-transition", "transition not allowed")
	}
	return lastWhy
}
