package model

import (
	"fmt"
	"testing"

	"github.com/high-moctane/mocrelay"
	"pgregory.net/rapid"

	"verifharness/gen"
)

// Self-test: the nondeterministic transition relation (store.go) and the
// deterministic store (detstore.go) were written separately; on deterministic
// histories the relation must accept exactly the deterministic store's
// transition and reject perturbed ones.
func TestOracleSelfTestStoreRelation(t *testing.T) {
	rapid.Check(t, func(t *rapid.T) {
		capacity := rapid.IntRange(1, 5).Draw(t, "cap")
		world := &gen.World{Authors: gen.Pubkeys(2)}
		cfg := &gen.StoreCfg{World: world, TsBase: 1000, TsSpan: 4096, UniqueTs: true, NoNoD: true, NoOpenRefs: true}
		s := NewDetStore(capacity)
		var history []*mocrelay.Event
		n := rapid.IntRange(1, 25).Draw(t, "steps")
		for i := 0; i < n; i++ {
			var e *mocrelay.Event
			switch op := rapid.IntRange(0, 9).Draw(t, fmt.Sprintf("%d.op", i)); {
			case op < 5 || len(world.Events) == 0:
				e = cfg.DrawEvent(t)
			case op < 7:
				e = cfg.DrawVersion(t)
			case op < 9:
				e = rapid.SampledFrom(world.Events).Draw(t, "reoffer")
			default:
				tgt := rapid.SampledFrom(world.Events).Draw(t, "target")
				e = &mocrelay.Event{Pubkey: tgt.Pubkey, Kind: 5, Tags: []mocrelay.Tag{{"e", tgt.ID}}}
				tmp := cfg.DrawVersionOf(t, &mocrelay.Event{Pubkey: tgt.Pubkey, Kind: 1, Tags: []mocrelay.Tag{}}, "k5.")
				world.Events = world.Events[:len(world.Events)-1]
				e.CreatedAt = tmp.CreatedAt
				gen.Seal(e)
				world.Events = append(world.Events, e)
			}
			before := s.Listing()
			flag := s.Add(e)
			after := s.Listing()
			if v := CheckTransition(before, capacity, e, after, flag, history); !v.OK {
				t.Fatalf("relation rejects the deterministic store's transition: %s [%s] (event %s kind %d, flag %v)", v.Clause, v.Sig, gen.Short(e.ID), e.Kind, flag)
			}
			// perturbations must be rejected
			if v := CheckTransition(before, capacity, e, after, !flag, history); v.OK && gen.ClassOf(e.Kind) != gen.Ephemeral {
				// the only admitted freedom for a flipped flag: suppressed ephemeral events
				t.Fatalf("relation accepts a flipped flag (event %s kind %d, flag %v)", gen.Short(e.ID), e.Kind, flag)
			}
			if len(after) > 0 {
				drop := append([]*mocrelay.Event{}, after[1:]...)
				if v := CheckTransition(before, capacity, e, drop, flag, history); v.OK {
					// dropping the newest retained event is never allowed unless it is the tied-oldest victim
					if !(len(before)+1 > capacity && after[0].CreatedAt == minTs(before, e)) {
						t.Fatalf("relation accepts an unexplained removal of %s", gen.Short(after[0].ID))
					}
				}
			}
			history = append(history, e)
		}
	})
}

func minTs(s []*mocrelay.Event, e *mocrelay.Event) int64 {
	m := e.CreatedAt
	for _, x := range s {
		if x.CreatedAt < m {
			m = x.CreatedAt
		}
	}
	return m
}
