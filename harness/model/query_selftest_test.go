package model

import (
	"fmt"
	"sort"
	"strings"
	"testing"

	"github.com/high-moctane/mocrelay"
	"pgregory.net/rapid"

	"verifharness/gen"
)

// Self-test of the query oracle: for small live sets and filter lists the set of
// allowed answers is enumerated by brute force (every tie-break of every
// filter), and AllowedAnswer must accept exactly those - it must be neither
// stricter (false alarms) nor more liberal (missed violations).

func bruteAnswers(l []*mocrelay.Event, fs []*mocrelay.ReqFilter) map[string]bool {
	// per filter: all possible selections
	var perFilter [][][]string
	for _, f := range fs {
		var m []*mocrelay.Event
		for _, e := range l {
			if gen.MatchFilter(e, f) {
				m = append(m, e)
			}
		}
		k := len(m)
		if f.Limit != nil && *f.Limit < int64(k) {
			k = int(*f.Limit)
		}
		// all k-subsets that are "k newest under some tie-break": a subset S is valid iff
		// every element outside S is not newer than any element inside S
		var sels [][]string
		n := len(m)
		for mask := 0; mask < 1<<n; mask++ {
			if popcount(mask) != k {
				continue
			}
			ok := true
			for i := 0; i < n && ok; i++ {
				if mask&(1<<i) == 0 {
					continue
				}
				for j := 0; j < n; j++ {
					if mask&(1<<j) == 0 && m[j].CreatedAt > m[i].CreatedAt {
						ok = false
						break
					}
				}
			}
			if ok {
				var ids []string
				for i := 0; i < n; i++ {
					if mask&(1<<i) != 0 {
						ids = append(ids, m[i].ID)
					}
				}
				sels = append(sels, ids)
			}
		}
		perFilter = append(perFilter, sels)
	}
	out := map[string]bool{}
	var rec func(i int, acc map[string]bool)
	rec = func(i int, acc map[string]bool) {
		if i == len(perFilter) {
			var ids []string
			for id := range acc {
				ids = append(ids, id)
			}
			sort.Strings(ids)
			out[strings.Join(ids, ",")] = true
			return
		}
		for _, sel := range perFilter[i] {
			nacc := map[string]bool{}
			for id := range acc {
				nacc[id] = true
			}
			for _, id := range sel {
				nacc[id] = true
			}
			rec(i+1, nacc)
		}
	}
	rec(0, map[string]bool{})
	return out
}

func popcount(x int) int {
	c := 0
	for ; x != 0; x &= x - 1 {
		c++
	}
	return c
}

func TestOracleSelfTestAllowedAnswer(t *testing.T) {
	rapid.Check(t, func(t *rapid.T) {
		n := rapid.IntRange(0, 7).Draw(t, "n")
		var l []*mocrelay.Event
		for i := 0; i < n; i++ {
			e := &mocrelay.Event{Pubkey: gen.Keys[i%2].Pub, Kind: rapid.SampledFrom([]int64{1, 7}).Draw(t, fmt.Sprintf("k%d", i)),
				CreatedAt: int64(rapid.IntRange(1, 3).Draw(t, fmt.Sprintf("ts%d", i))), Content: fmt.Sprint(i), Tags: []mocrelay.Tag{}}
			gen.Seal(e)
			l = append(l, e)
		}
		nf := rapid.IntRange(1, 3).Draw(t, "nf")
		var fs []*mocrelay.ReqFilter
		for i := 0; i < nf; i++ {
			f := &mocrelay.ReqFilter{}
			switch rapid.IntRange(0, 2).Draw(t, fmt.Sprintf("f%dshape", i)) {
			case 1:
				f.Kinds = []int64{1}
			case 2:
				f.Authors = []string{gen.Keys[0].Pub}
			}
			if rapid.Bool().Draw(t, fmt.Sprintf("f%dlim?", i)) {
				f.Limit = gen.Ptr(int64(rapid.IntRange(0, 4).Draw(t, fmt.Sprintf("f%dlim", i))))
			}
			fs = append(fs, f)
		}
		allowed := bruteAnswers(l, fs)
		// candidate answers: every subset of l, in a valid order
		for mask := 0; mask < 1<<n; mask++ {
			var r []*mocrelay.Event
			var ids []string
			for i := 0; i < n; i++ {
				if mask&(1<<i) != 0 {
					r = append(r, l[i])
					ids = append(ids, l[i].ID)
				}
			}
			sort.SliceStable(r, func(a, b int) bool { return r[a].CreatedAt > r[b].CreatedAt })
			sort.Strings(ids)
			want := allowed[strings.Join(ids, ",")]
			got := AllowedAnswer(l, fs, r) == ""
			if got != want {
				t.Fatalf("oracle disagrees with brute force: live=%v filters=%s answer=%v brute=%v oracle=%v (%s)",
					gen.IDsShort(l), hxJSON(gen.BriefFilters(fs)), gen.ShortAll(ids), want, got, AllowedAnswer(l, fs, r))
			}
		}
		// ordering and duplicates are rejected
		if n >= 2 && l[0].CreatedAt != l[1].CreatedAt {
			lo, hi := l[0], l[1]
			if lo.CreatedAt > hi.CreatedAt {
				lo, hi = hi, lo
			}
			if AllowedAnswer(l, []*mocrelay.ReqFilter{{}}, []*mocrelay.Event{lo, hi}) == "" && n == 2 {
				t.Fatalf("oracle accepts an answer in increasing created_at order")
			}
		}
		if n >= 1 && AllowedAnswer(l, []*mocrelay.ReqFilter{{}}, append(append([]*mocrelay.Event{}, l...), l[0])) == "" {
			t.Fatalf("oracle accepts a duplicate")
		}
	})
}

func hxJSON(v any) string { return fmt.Sprint(v) }
