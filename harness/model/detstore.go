package model

import (
	"sort"

	"github.com/high-moctane/mocrelay"

	"verifharness/gen"
)

// DetStore is the deterministic special case of the store specification: the
// generator excludes equal timestamps, d-less addressable events and open
// address references, so every Add has exactly one allowed outcome.
type DetStore struct {
	Cap   int
	Items []*mocrelay.Event
}

func NewDetStore(capacity int) *DetStore { return &DetStore{Cap: capacity} }

func (s *DetStore) Has(id string) bool {
	for _, x := range s.Items {
		if x.ID == id {
			return true
		}
	}
	return false
}

func (s *DetStore) remove(pred func(x *mocrelay.Event) bool) {
	var out []*mocrelay.Event
	for _, x := range s.Items {
		if !pred(x) {
			out = append(out, x)
		}
	}
	s.Items = out
}

// Add applies the specification and returns the "newly stored" flag.
func (s *DetStore) Add(e *mocrelay.Event) bool {
	if s.Has(e.ID) {
		return false
	}
	for _, k := range s.Items {
		if Refs(k, e) {
			return false
		}
	}
	if gen.ClassOf(e.Kind) == gen.Ephemeral {
		return true
	}
	for _, r := range s.Items {
		if d, _ := sameAddr(r, e); d && r.CreatedAt >= e.CreatedAt {
			return false
		}
	}
	s.remove(func(x *mocrelay.Event) bool { d, _ := sameAddr(x, e); return d })
	s.Items = append(s.Items, e)
	if e.Kind == 5 {
		s.remove(func(x *mocrelay.Event) bool { return x != e && Refs(e, x) })
	}
	if len(s.Items) > s.Cap {
		mi := 0
		for i, x := range s.Items {
			if x.CreatedAt < s.Items[mi].CreatedAt {
				mi = i
			}
		}
		s.Items = append(s.Items[:mi:mi], s.Items[mi+1:]...)
	}
	return true
}

// Listing returns the retained events by non-increasing created_at.
func (s *DetStore) Listing() []*mocrelay.Event {
	out := append([]*mocrelay.Event(nil), s.Items...)
	sort.Slice(out, func(i, j int) bool { return out[i].CreatedAt > out[j].CreatedAt })
	return out
}
