package handlers

import (
	"fmt"
	"sync"
	"testing"

	"github.com/high-moctane/mocrelay"
	"pgregory.net/rapid"

	"verifharness/ev"
	"verifharness/gen"
	"verifharness/hx"
)

const c18Rule = "cases = one shared middleware value (subscription quota N in 1..4 / receive-side unique filter / send-side unique filter with window 1..4) serving 1-4 sessions, each session with its own generated script (REQ/CLOSE/COUNT/EVENT over sub ids {a..e}; event ids from an alphabet of window+2) and its own model, so any leak between connections is a model mismatch; scripts run interleaved by a generated global schedule, or concurrently in goroutines (per-connection verdicts do not depend on the interleaving); oracle: quota set model / window = last W distinct ids by most recent sighting (inside window => must reject or drop, never seen => must pass, otherwise either); non-trivial = some session sees both a rejection and a later acceptance of the same id, with >= 2 sessions; distinct by hash of config+scripts"

type c18Op struct {
	Kind string `json:"op"` // REQ CLOSE COUNT EVENT SRV-EVENT SRV-OTHER
	ID   string `json:"id"`
}

type windowModel struct {
	w      int
	recent []string // most recent last, distinct
	seen   map[string]bool
}

func newWindow(w int) *windowModel { return &windowModel{w: w, seen: map[string]bool{}} }

// sight records a sighting and returns (inWindow, everSeen) judged before it.
func (m *windowModel) sight(id string) (inWindow, everSeen bool) {
	everSeen = m.seen[id]
	for i, x := range m.recent {
		if x == id {
			inWindow = true
			m.recent = append(m.recent[:i], m.recent[i+1:]...)
			break
		}
	}
	m.recent = append(m.recent, id)
	if len(m.recent) > m.w {
		m.recent = m.recent[len(m.recent)-m.w:]
	}
	m.seen[id] = true
	return
}

type c18Fail struct {
	f ev.Failure
}

// c18Sess is one session with its own model.
type c18Sess struct {
	rig      *Rig
	s        *Sess
	kind     string
	n        int
	idx      int
	desc     any
	open     map[string]bool // quota model
	downOpen map[string]bool // open downstream: forwarded REQ minus forwarded CLOSE
	win      *windowModel
	rejected map[string]bool
	events   map[string]*mocrelay.Event
	flip     bool
	step     int
}

func (c *c18Sess) fail(sig, clause, obs, exp string) *ev.Failure {
	return &ev.Failure{Property: "C18", Signature: sig, Clause: clause, Case: c.desc, Observed: fmt.Sprintf("session %d: %s", c.idx, obs), Expected: exp}
}

func newC18Sess(rig *Rig, kind string, n int, idx int, desc any) (*c18Sess, *ev.Failure) {
	c := &c18Sess{rig: rig, kind: kind, n: n, idx: idx, desc: desc, open: map[string]bool{}, downOpen: map[string]bool{}, win: newWindow(n),
		rejected: map[string]bool{}, events: map[string]*mocrelay.Event{}}
	s, err := rig.Start()
	if err != nil {
		return nil, c.fail("session-start", "session starts", err.Error(), "")
	}
	c.s = s
	return c, nil
}

func (c *c18Sess) eventFor(id string) *mocrelay.Event {
	if e := c.events[id]; e != nil {
		return e
	}
	// the same event ids are used by every session: a leak between connections shows
	// the event class is irrelevant to de-duplication: regular, replaceable, ephemeral, addressable
	kinds := []int64{1, 1, 0, 20001, 29999, 30000, 7, 10002}
	k := kinds[0]
	if len(id) > 0 {
		k = kinds[int(id[len(id)-1])%len(kinds)]
	}
	e := &mocrelay.Event{Pubkey: gen.Keys[0].Pub, Kind: k, CreatedAt: 1, Content: id}
	gen.Seal(e)
	c.events[id] = e
	return e
}

func (c *c18Sess) end() *ev.Failure {
	if why := c.s.Altered(); why != "" {
		return c.fail("reply-altered-after-delivery", "a refused REQ is answered by a CLOSED that names it: a reply the client has received keeps its wording afterwards", why, "")
	}
	if err := c.s.End(); err != nil {
		return c.fail("session-end", "the session ends", err.Error(), "")
	}
	return nil
}

// do executes one operation of the session's script against its own model.
func (c *c18Sess) do(op c18Op) *ev.Failure {
	if op.Kind == "RESTART" {
		// the connection goes away (without closing its subscriptions) and a new one
		// starts on the same middleware: it must start from a clean slate
		if err := c.s.End(); err != nil {
			return c.fail("session-end", "the session ends", err.Error(), "")
		}
		s, err := c.rig.Start()
		if err != nil {
			return c.fail("session-start", "a new session starts", err.Error(), "")
		}
		c.s = s
		c.open, c.downOpen, c.win, c.rejected = map[string]bool{}, map[string]bool{}, newWindow(c.n), map[string]bool{}
		c.step++
		return nil
	}
	s, kind, n := c.s, c.kind, c.n
	step := c.step
	c.step++
	fail := c.fail
	open, downOpen, win, rejected := c.open, c.downOpen, c.win, c.rejected
	eventFor := c.eventFor
	{
		switch op.Kind {
		case "REQ", "CLOSE", "COUNT", "EVENT":
			var msg mocrelay.ClientMsg
			switch op.Kind {
			case "REQ":
				msg = &mocrelay.ClientReqMsg{SubscriptionID: op.ID, ReqFilters: []*mocrelay.ReqFilter{{}}}
			case "CLOSE":
				msg = &mocrelay.ClientCloseMsg{SubscriptionID: op.ID}
			case "COUNT":
				msg = &mocrelay.ClientCountMsg{SubscriptionID: op.ID, ReqFilters: []*mocrelay.ReqFilter{{}}}
			case "EVENT":
				msg = &mocrelay.ClientEventMsg{Event: eventFor(op.ID)}
			}
			fwd, replies, err := s.Step(msg)
			if err != nil {
				return fail("stalled", "the middleware keeps processing messages", err.Error(), "")
			}
			forwarded := len(fwd) == 1 && fwd[0] == msg && len(replies) == 0
			rejectedOK := len(fwd) == 0 && len(replies) == 1 && rejectionFor(msg, replies[0])
			obs := fmt.Sprintf("step %d %s %s: forwarded=%s replies=%s", step, op.Kind, op.ID, hx.JSON(briefClients(fwd)), hx.JSON(briefServers(replies)))
			mustForward, mustReject := true, false
			switch kind {
			case "quota":
				if op.Kind == "REQ" {
					if open[op.ID] || len(open) < n {
						open[op.ID] = true
					} else {
						mustForward, mustReject = false, true
					}
				}
				if op.Kind == "CLOSE" {
					delete(open, op.ID)
				}
			case "recvunique":
				if op.Kind == "EVENT" {
					inWin, ever := win.sight(op.ID)
					switch {
					case inWin:
						mustForward, mustReject = false, true
					case ever:
						mustForward = false // either
					}
				}
			}
			switch {
			case mustForward && !forwarded:
				sig := "not-forwarded"
				if kind == "recvunique" {
					sig = "unseen-id-rejected"
				}
				if kind == "quota" {
					sig = "quota-wrongly-rejected"
				}
				return fail(sig, "a message within quota / an id never seen is forwarded unchanged", obs, "forwarded")
			case mustReject && !rejectedOK:
				sig := "quota-exceeded-forwarded"
				if kind == "recvunique" {
					sig = "repeat-in-window-forwarded"
				}
				return fail(sig, "a REQ beyond the quota / an event id repeated inside the window is answered by one rejection and not forwarded", obs, "rejected")
			case !mustForward && !mustReject && !forwarded && !rejectedOK:
				return fail("malformed-outcome", "a message is either forwarded unchanged or answered by exactly one rejection", obs, "forwarded or rejected")
			}
			if rejectedOK {
				if kind == "recvunique" {
					if ok := replies[0].(*mocrelay.ServerOKMsg); ok.MsgPrefix != mocrelay.MachineReadablePrefixDuplicate && len(ok.Message()) < len(mocrelay.MachineReadablePrefixDuplicate) || ok.Message()[:len(mocrelay.MachineReadablePrefixDuplicate)] != mocrelay.MachineReadablePrefixDuplicate {
						return fail("duplicate-prefix-missing", "the repeat is answered with a duplicate-marked rejection", obs, "duplicate: prefix")
					}
				}
				rejected[op.Kind+op.ID] = true
			}
			if forwarded {
				if rejected[op.Kind+op.ID] {
					c.flip = true
				}
				if op.Kind == "REQ" {
					downOpen[op.ID] = true
				}
				if op.Kind == "CLOSE" {
					delete(downOpen, op.ID)
				}
			}
			if kind == "quota" && len(downOpen) > n {
				return fail("quota-invariant", "at most N distinct subscription ids are open downstream", fmt.Sprintf("step %d: %d open downstream, N=%d", step, len(downOpen), n), "")
			}
		case "SRV-EVENT", "SRV-OTHER":
			var msg mocrelay.ServerMsg
			if op.Kind == "SRV-EVENT" {
				// the same event may answer different subscriptions of the connection
				msg = mocrelay.NewServerEventMsg([]string{"s", "s", "s2", "s3"}[(step+len(op.ID))%4], eventFor(op.ID))
			} else {
				switch op.ID {
				case "a":
					msg = mocrelay.NewServerEOSEMsg("s")
				case "b":
					// the downstream handler refuses an event that was forwarded earlier
					msg = mocrelay.NewServerOKMsg(eventFor("a").ID, false, mocrelay.MachineReadablePrefixBlocked, "refused downstream")
				case "e":
					msg = mocrelay.NewServerOKMsg(eventFor("b").ID, false, "", "refused downstream")
				case "d":
					msg = mocrelay.NewServerOKMsg(eventFor("a").ID, true, "", "")
				case "c":
					msg = mocrelay.NewServerClosedMsg("s", "", "x")
				default:
					msg = mocrelay.NewServerNoticeMsg("n")
				}
			}
			got, err := s.Emit(msg)
			if err != nil {
				return fail("stalled", "the middleware keeps passing server messages", err.Error(), "")
			}
			delivered := len(got) == 1 && got[0] == msg
			dropped := len(got) == 0
			obs := fmt.Sprintf("step %d %s %s: client received %s", step, op.Kind, op.ID, hx.JSON(briefServers(got)))
			mustDeliver, mustDrop := true, false
			if kind == "sendunique" && op.Kind == "SRV-EVENT" {
				inWin, ever := win.sight(op.ID)
				switch {
				case inWin:
					mustDeliver, mustDrop = false, true
				case ever:
					mustDeliver = false
				}
			}
			switch {
			case mustDeliver && !delivered:
				return fail("server-msg-not-delivered", "server messages (and event ids never delivered before) pass unchanged", obs, "delivered")
			case mustDrop && !dropped:
				return fail("repeat-in-window-delivered", "the send-side filter never delivers the same event id twice within its window", obs, "dropped")
			case !delivered && !dropped:
				return fail("malformed-outcome", "a server message is delivered unchanged or dropped", obs, "")
			}
			if dropped {
				rejected["S"+op.ID] = true
			}
			if delivered && rejected["S"+op.ID] {
				c.flip = true
			}
		}
	}
	return nil
}

// c18SoakCase: one long session on a de-duplication window that is not small: thousands of
// sightings, most of them repeats of a few hot ids, the rest spread over more ids than the
// window holds.
func c18SoakCase(t *rapid.T) (kind string, n int, scripts [][]c18Op, concurrent bool) {
	kind = rapid.SampledFrom([]string{"recvunique", "sendunique"}).Draw(t, "middleware")
	n = rapid.SampledFrom([]int{3, 64, 65, 100, 128, 1000}).Draw(t, "n")
	nids := n + n/2 + 3
	opk := "EVENT"
	if kind == "sendunique" {
		opk = "SRV-EVENT"
	}
	var sc []c18Op
	add := func(id int) { sc = append(sc, c18Op{Kind: opk, ID: fmt.Sprint("e", id)}) }
	// phase A: one id over and over. Its length sits around a round number (plus the window
	// size): internal queues, sweeps and counters tend to act at such counts.
	if rapid.Bool().Draw(t, "pure_repeats") {
		r := rapid.SampledFrom([]int{256, 512, 1024, 1024, 1024, 2048}).Draw(t, "round") + n + rapid.IntRange(-2, 4).Draw(t, "delta")
		for j := 0; j < r; j++ {
			add(0)
		}
	} else {
		for j, r := 0, rapid.IntRange(600, 1500).Draw(t, "len_a"); j < r; j++ {
			if rapid.IntRange(0, 19).Draw(t, fmt.Sprintf("a%d.cold", j)) == 0 {
				add(rapid.IntRange(0, nids-1).Draw(t, fmt.Sprintf("a%d.id", j)))
			} else {
				add(rapid.IntRange(0, 2).Draw(t, fmt.Sprintf("a%d.hot", j)))
			}
		}
	}
	// phase B: exactly n other ids, each once (they are the window now); phase C: the same
	// again, oldest first (every one of them is inside the window)
	for id := 1; id <= n; id++ {
		add(id)
	}
	for id := 1; id <= n; id++ {
		add(id)
	}
	// phase D: mixed
	for j, r := 0, rapid.IntRange(100, 600).Draw(t, "len_d"); j < r; j++ {
		add(rapid.IntRange(0, nids-1).Draw(t, fmt.Sprintf("d%d.id", j)))
	}
	return kind, n, [][]c18Op{sc}, false
}

func c18Case(t *rapid.T) (kind string, n int, scripts [][]c18Op, concurrent bool) {
	kind = rapid.SampledFrom([]string{"quota", "recvunique", "sendunique"}).Draw(t, "middleware")
	n = rapid.IntRange(1, 4).Draw(t, "n")
	ns := rapid.IntRange(1, 4).Draw(t, "sessions")
	concurrent = rapid.IntRange(0, 3).Draw(t, "concurrent") == 0
	subIDs := []string{"a", "b", "c", "d", "e"}
	evIDs := subIDs[:min(n+2, 5)]
	if n+2 > 5 {
		evIDs = []string{"a", "b", "c", "d", "e", "f"}
	}
	for i := 0; i < ns; i++ {
		l := rapid.IntRange(1, 40).Draw(t, fmt.Sprintf("s%d.len", i))
		var sc []c18Op
		for j := 0; j < l; j++ {
			var op c18Op
			lab := fmt.Sprintf("s%d.%d.", i, j)
			switch kind {
			case "quota":
				op.Kind = rapid.SampledFrom([]string{"REQ", "REQ", "REQ", "REQ", "CLOSE", "CLOSE", "COUNT", "EVENT", "SRV-OTHER", "RESTART"}).Draw(t, lab+"op")
				op.ID = rapid.SampledFrom(subIDs).Draw(t, lab+"id")
			case "recvunique":
				op.Kind = rapid.SampledFrom([]string{"EVENT", "EVENT", "EVENT", "EVENT", "EVENT", "REQ", "CLOSE", "SRV-EVENT", "SRV-OTHER", "SRV-OTHER", "RESTART"}).Draw(t, lab+"op")
				op.ID = rapid.SampledFrom(evIDs).Draw(t, lab+"id")
			case "sendunique":
				op.Kind = rapid.SampledFrom([]string{"SRV-EVENT", "SRV-EVENT", "SRV-EVENT", "SRV-EVENT", "SRV-EVENT", "SRV-OTHER", "EVENT", "REQ", "CLOSE", "CLOSE", "RESTART"}).Draw(t, lab+"op")
				op.ID = rapid.SampledFrom(evIDs).Draw(t, lab+"id")
				if op.Kind == "CLOSE" || op.Kind == "REQ" {
					// the subscription ids the deliveries are labelled with
					op.ID = rapid.SampledFrom([]string{"s", "s2", "s3"}).Draw(t, lab+"subid")
				}
			}
			sc = append(sc, op)
		}
		scripts = append(scripts, sc)
	}
	return
}

func TestC18Stateful(t *testing.T) { c18Run(t, c18Case, false) }

// TestC18Soak: the same models over one long session and windows of up to 1000 ids.
func TestC18Soak(t *testing.T) { c18Run(t, c18SoakCase, true) }

func c18Run(t *testing.T, draw func(*rapid.T) (string, int, [][]c18Op, bool), soak bool) {
	col := ev.For("C18").SetRule(c18Rule)
	rapid.Check(t, func(t *rapid.T) {
		kind, n, scripts, concurrent := draw(t)
		desc := map[string]any{"middleware": kind, "n": n, "scripts": scripts, "concurrent": concurrent}
		if soak {
			desc = map[string]any{"middleware": kind, "n": n, "mode": "soak: one session", "operations": len(scripts[0]), "script": scripts[0]}
		}
		var mw mocrelay.Middleware
		switch kind {
		case "quota":
			mw = mocrelay.Middleware(mocrelay.NewMaxSubscriptionsMiddleware(n))
		case "recvunique":
			mw = mocrelay.Middleware(mocrelay.NewRecvEventUniqueFilterMiddleware(n))
		case "sendunique":
			mw = mocrelay.Middleware(mocrelay.NewSendEventUniqueFilterMiddleware(n))
		}
		rig := NewRig(func(h mocrelay.Handler) mocrelay.Handler { return mw(h) })
		// all sessions are alive at once, so shared state would be visible
		sess := make([]*c18Sess, len(scripts))
		for i := range scripts {
			c, f := newC18Sess(rig, kind, n, i, desc)
			if f != nil {
				hx.Fail(t, *f)
			}
			sess[i] = c
			defer func() { c.s.End() }()
		}
		results := make([]*ev.Failure, len(scripts))
		if concurrent {
			var wg sync.WaitGroup
			for i := range scripts {
				wg.Add(1)
				go func(i int) {
					defer wg.Done()
					for _, op := range scripts[i] {
						if f := sess[i].do(op); f != nil {
							results[i] = f
							return
						}
					}
				}(i)
			}
			wg.Wait()
		} else {
			// a generated global schedule interleaves the scripts
			pos := make([]int, len(scripts))
			for {
				var live []int
				for i := range scripts {
					if pos[i] < len(scripts[i]) {
						live = append(live, i)
					}
				}
				if len(live) == 0 {
					break
				}
				i := live[0]
				if len(live) > 1 {
					i = rapid.SampledFrom(live).Draw(t, "sched")
				}
				if f := sess[i].do(scripts[i][pos[i]]); f != nil {
					hx.Fail(t, *f)
				}
				pos[i]++
			}
		}
		anyFlip := false
		for i, f := range results {
			if f != nil {
				hx.Fail(t, *f)
			}
			if sess[i].flip {
				anyFlip = true
			}
		}
		for _, c := range sess {
			if f := c.end(); f != nil {
				hx.Fail(t, *f)
			}
		}
		col.Label("middleware:" + kind)
		if concurrent {
			col.Label("mode:concurrent")
		} else {
			col.Label("mode:sequential")
		}
		if soak {
			col.Label("mode:soak")
		}
		col.Case(anyFlip && (len(scripts) >= 2 || soak), hx.JSON(desc), func() any { return desc })
	})
}

// TestC18PipelinedRepeats: a client that pipelines (many EVENTs / REQs back to back, replies
// read afterwards). Every repeat inside the window gets its own rejection naming its own id,
// in order, and stays what it was when later messages are processed; over-quota REQs likewise.
func TestC18PipelinedRepeats(t *testing.T) {
	col := ev.For("C18").SetRule(c18Rule)
	rapid.Check(t, func(t *rapid.T) {
		kind := rapid.SampledFrom([]string{"recvunique", "recvunique", "quota"}).Draw(t, "middleware")
		n := rapid.IntRange(2, 8).Draw(t, "n")
		k := rapid.IntRange(4, 60).Draw(t, "burst")
		var mw mocrelay.Middleware
		if kind == "quota" {
			mw = mocrelay.Middleware(mocrelay.NewMaxSubscriptionsMiddleware(n))
		} else {
			mw = mocrelay.Middleware(mocrelay.NewRecvEventUniqueFilterMiddleware(n))
		}
		rig := NewRig(func(h mocrelay.Handler) mocrelay.Handler { return mw(h) })
		s, err := rig.Start()
		if err != nil {
			hx.Fail(t, ev.Failure{Property: "C18", Signature: "session-start", Clause: "a session starts", Observed: err.Error()})
		}
		defer s.End()
		var msgs []mocrelay.ClientMsg
		var ids []string
		var wantFwd, wantRej []string
		seen := map[string]bool{}
		for i := 0; i < k; i++ {
			if kind == "quota" {
				// ids beyond the quota are refused; the first n distinct ids are open
				id := fmt.Sprint("q", rapid.IntRange(0, n+3).Draw(t, fmt.Sprintf("id%d", i)))
				ids = append(ids, id)
				msgs = append(msgs, &mocrelay.ClientReqMsg{SubscriptionID: id, ReqFilters: []*mocrelay.ReqFilter{{}}})
				if seen[id] || len(seen) < n {
					seen[id] = true
					wantFwd = append(wantFwd, id)
				} else {
					wantRej = append(wantRej, id)
				}
				continue
			}
			// at most n distinct ids: every repeat is inside the window
			id := fmt.Sprint("e", rapid.IntRange(0, n-1).Draw(t, fmt.Sprintf("id%d", i)))
			e := &mocrelay.Event{Pubkey: gen.Keys[0].Pub, Kind: 1, CreatedAt: 1, Content: id}
			gen.Seal(e)
			ids = append(ids, id)
			msgs = append(msgs, &mocrelay.ClientEventMsg{Event: e})
			if seen[id] {
				wantRej = append(wantRej, e.ID)
			} else {
				seen[id] = true
				wantFwd = append(wantFwd, e.ID)
			}
		}
		desc := map[string]any{"middleware": kind, "n": n, "mode": "pipelined burst", "ids": ids}
		fwd, replies, err := s.Burst(msgs)
		if err != nil {
			hx.Fail(t, ev.Failure{Property: "C18", Signature: "stalled", Clause: "the middleware keeps processing messages", Case: desc, Observed: err.Error()})
		}
		var gotFwd, gotRej []string
		for _, m := range fwd {
			switch x := m.(type) {
			case *mocrelay.ClientEventMsg:
				gotFwd = append(gotFwd, x.Event.ID)
			case *mocrelay.ClientReqMsg:
				gotFwd = append(gotFwd, x.SubscriptionID)
			}
		}
		for _, r := range replies {
			switch x := r.(type) {
			case *mocrelay.ServerOKMsg:
				if x.Accepted {
					gotRej = append(gotRej, "accepting OK "+x.EventID)
				} else {
					gotRej = append(gotRej, x.EventID)
				}
			case *mocrelay.ServerClosedMsg:
				gotRej = append(gotRej, x.SubscriptionID)
			default:
				gotRej = append(gotRej, hx.JSON(briefServer(r)))
			}
		}
		if hx.JSON(gotFwd) != hx.JSON(wantFwd) {
			hx.Fail(t, ev.Failure{Property: "C18", Signature: "pipelined-forwarding", Clause: "a REQ / EVENT is forwarded iff the quota / window allows it (pipelined client)", Case: desc,
				Observed: hx.JSON(gen.ShortAll(gotFwd)), Expected: hx.JSON(gen.ShortAll(wantFwd))})
		}
		if hx.JSON(gotRej) != hx.JSON(wantRej) {
			hx.Fail(t, ev.Failure{Property: "C18", Signature: "pipelined-rejections", Clause: "every refused message is answered with a rejection naming it (CLOSED with the subscription id / duplicate-marked OK with the event id), in order, also when the client pipelines", Case: desc,
				Observed: hx.JSON(gen.ShortAll(gotRej)), Expected: hx.JSON(gen.ShortAll(wantRej))})
		}
		col.Label("mode:pipelined")
		col.Case(len(wantRej) >= 2, hx.JSON(desc), func() any { return desc })
	})
}
