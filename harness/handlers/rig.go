// Package handlers holds the checks for the channel-based handlers and
// middlewares. rig.go is the shared harness: a scripted client on one side, a
// recording scripted downstream handler on the other, and barrier messages that
// travel the same FIFO path as the message under test, so that every effect of
// message k is observed before message k+1 is sent - without sleeps.
package handlers

import (
	"encoding/json"
	"context"
	"fmt"
	"strings"
	"sync"
	"time"

	"github.com/high-moctane/mocrelay"
)

const (
	barrierPrefix = "~verif-barrier-"
	markerPrefix  = "~verif-marker-"
	stepTimeout   = 20 * time.Second
)

// downSession is one invocation of the recording downstream handler.
type downSession struct {
	mu   sync.Mutex
	got  []mocrelay.ClientMsg
	emit chan []mocrelay.ServerMsg
	done chan struct{}
}

func (d *downSession) take() []mocrelay.ClientMsg {
	d.mu.Lock()
	defer d.mu.Unlock()
	out := d.got
	d.got = nil
	return out
}

// Down is a Handler that records what it receives, echoes barrier CLOSEs as
// NOTICEs and emits server messages on request.
type Down struct {
	sessions chan *downSession
}

func NewDown() *Down { return &Down{sessions: make(chan *downSession, 64)} }

func (d *Down) ServeNostr(ctx context.Context, send chan<- mocrelay.ServerMsg, recv <-chan mocrelay.ClientMsg) error {
	s := &downSession{emit: make(chan []mocrelay.ServerMsg), done: make(chan struct{})}
	defer close(s.done)
	d.sessions <- s
	out := func(m mocrelay.ServerMsg) bool {
		select {
		case send <- m:
			return true
		case <-ctx.Done():
			return false
		}
	}
	for {
		select {
		case <-ctx.Done():
			return ctx.Err()
		case m, ok := <-recv:
			if !ok {
				return mocrelay.ErrRecvClosed
			}
			if c, isClose := m.(*mocrelay.ClientCloseMsg); isClose && strings.HasPrefix(c.SubscriptionID, barrierPrefix) {
				if !out(mocrelay.NewServerNoticeMsg(c.SubscriptionID)) {
					return ctx.Err()
				}
				continue
			}
			s.mu.Lock()
			s.got = append(s.got, m)
			s.mu.Unlock()
		case msgs := <-s.emit:
			for _, m := range msgs {
				if !out(m) {
					return ctx.Err()
				}
			}
		}
	}
}

// Sess is the client side of one session plus its downstream recorder.
type Sess struct {
	ctx    context.Context
	cancel context.CancelFunc
	recv   chan mocrelay.ClientMsg
	send   chan mocrelay.ServerMsg
	ret    chan error
	down   *downSession
	n      int
	ended  bool
	endErr error
	held   []heldMsg // what the client side received, with its wording at that moment
}

type heldMsg struct {
	m    mocrelay.ServerMsg
	text string
}

// hold remembers a received server message together with its encoding at the moment of
// receipt (the last 512 are kept).
func (s *Sess) hold(m mocrelay.ServerMsg) {
	b, err := json.Marshal(m)
	if err != nil {
		return
	}
	if len(s.held) >= 512 {
		s.held = append(s.held[:0], s.held[256:]...)
	}
	s.held = append(s.held, heldMsg{m, string(b)})
}

// Altered reports a message that no longer reads as it did when the client received it
// (a reply object that the handler under test re-used for a later reply), or "".
func (s *Sess) Altered() string {
	for i, h := range s.held {
		b, err := json.Marshal(h.m)
		if err != nil {
			return fmt.Sprintf("message %d of the session, received as %s, can no longer be encoded: %v", i, h.text, err)
		}
		if string(b) != h.text {
			return fmt.Sprintf("message %d of the session was received as %s and now reads %s", i, h.text, b)
		}
	}
	return ""
}

// Rig drives sessions of handler H = stack(Down).
type Rig struct {
	H       mocrelay.Handler
	Down    *Down
	startMu sync.Mutex // pairing of a new session with its downstream recorder
}

func NewRig(stack func(mocrelay.Handler) mocrelay.Handler) *Rig {
	d := NewDown()
	return &Rig{H: stack(d), Down: d}
}

// Start opens a session and waits until the downstream handler is running.
func (r *Rig) Start() (*Sess, error) {
	r.startMu.Lock()
	defer r.startMu.Unlock()
	ctx, cancel := context.WithCancel(context.Background())
	s := &Sess{ctx: ctx, cancel: cancel, recv: make(chan mocrelay.ClientMsg), send: make(chan mocrelay.ServerMsg), ret: make(chan error, 1)}
	go func() { s.ret <- r.H.ServeNostr(ctx, s.send, s.recv) }()
	select {
	case s.down = <-r.Down.sessions:
	case err := <-s.ret:
		cancel()
		return nil, fmt.Errorf("handler returned before the downstream handler started: %v", err)
	case <-time.After(stepTimeout):
		cancel()
		return nil, fmt.Errorf("downstream handler did not start")
	}
	return s, nil
}

// collectUntil reads the client side until a NOTICE with the given text arrives.
func (s *Sess) collectUntil(text string) ([]mocrelay.ServerMsg, error) {
	var out []mocrelay.ServerMsg
	timer := time.NewTimer(stepTimeout)
	defer timer.Stop()
	for {
		select {
		case m := <-s.send:
			if n, ok := m.(*mocrelay.ServerNoticeMsg); ok && n.Message == text {
				return out, nil
			}
			out = append(out, m)
			s.hold(m)
		case err := <-s.ret:
			s.ret <- err
			return out, fmt.Errorf("session ended while waiting for %q: %v", text, err)
		case <-timer.C:
			return out, fmt.Errorf("timeout waiting for %q (got %d messages)", text, len(out))
		}
	}
}

func (s *Sess) put(m mocrelay.ClientMsg) error {
	select {
	case s.recv <- m:
		return nil
	case err := <-s.ret:
		s.ret <- err
		return fmt.Errorf("session ended: %v", err)
	case <-time.After(stepTimeout):
		return fmt.Errorf("timeout sending client message")
	}
}

// Step sends one client message followed by a barrier and returns what the
// downstream handler received for it and what the client received back.
func (s *Sess) Step(m mocrelay.ClientMsg) (forwarded []mocrelay.ClientMsg, replies []mocrelay.ServerMsg, err error) {
	s.n++
	bar := fmt.Sprintf("%s%d", barrierPrefix, s.n)
	// the replies may have to be drained while the message is still being handed in
	errc := make(chan error, 1)
	go func() {
		if err := s.put(m); err != nil {
			errc <- err
			return
		}
		errc <- s.put(&mocrelay.ClientCloseMsg{SubscriptionID: bar})
	}()
	replies, err = s.collectUntil(bar)
	if e := <-errc; e != nil && err == nil {
		err = e
	}
	forwarded = s.down.take()
	return
}

// Emit makes the downstream handler emit msgs followed by a marker and returns
// what reached the client before the marker.
func (s *Sess) Emit(msgs ...mocrelay.ServerMsg) ([]mocrelay.ServerMsg, error) {
	s.n++
	mark := fmt.Sprintf("%s%d", markerPrefix, s.n)
	all := append(append([]mocrelay.ServerMsg{}, msgs...), mocrelay.NewServerNoticeMsg(mark))
	errc := make(chan error, 1)
	go func() {
		select {
		case s.down.emit <- all:
			errc <- nil
		case <-s.down.done:
			errc <- fmt.Errorf("downstream handler ended")
		case <-time.After(stepTimeout):
			errc <- fmt.Errorf("timeout handing messages to the downstream handler")
		}
	}()
	got, err := s.collectUntil(mark)
	if e := <-errc; e != nil && err == nil {
		err = e
	}
	return got, err
}

// End cancels the session and waits for ServeNostr to return.
func (s *Sess) End() error {
	if s.ended {
		return s.endErr
	}
	s.ended = true
	s.cancel()
	select {
	case <-s.ret:
	case <-time.After(stepTimeout):
		s.endErr = fmt.Errorf("ServeNostr did not return after cancel")
	}
	return s.endErr
}

// EndByClose closes the inbound channel (while draining output) and waits.
func (s *Sess) EndByClose() error {
	if s.ended {
		return s.endErr
	}
	s.ended = true
	close(s.recv)
	timer := time.NewTimer(stepTimeout)
	defer timer.Stop()
	for {
		select {
		case <-s.send:
		case <-s.ret:
			s.cancel()
			return nil
		case <-timer.C:
			s.cancel()
			s.endErr = fmt.Errorf("ServeNostr did not return after the inbound channel was closed")
			return s.endErr
		}
	}
}

// Both hands a client message to the session and makes the downstream handler
// emit a server message at the same moment, so that the two directions of the
// handler under test work on them in parallel. It returns when a barrier behind
// the client message and a marker behind the server message have both come back.
func (s *Sess) Both(m mocrelay.ClientMsg, sm mocrelay.ServerMsg) (forwarded []mocrelay.ClientMsg, got []mocrelay.ServerMsg, err error) {
	s.n++
	bar := fmt.Sprintf("%s%d", barrierPrefix, s.n)
	mark := fmt.Sprintf("%s%d", markerPrefix, s.n)
	gate := make(chan struct{})
	errc := make(chan error, 2)
	go func() {
		<-gate
		if err := s.put(m); err != nil {
			errc <- err
			return
		}
		errc <- s.put(&mocrelay.ClientCloseMsg{SubscriptionID: bar})
	}()
	go func() {
		<-gate
		select {
		case s.down.emit <- []mocrelay.ServerMsg{sm, mocrelay.NewServerNoticeMsg(mark)}:
			errc <- nil
		case <-s.down.done:
			errc <- fmt.Errorf("downstream handler ended")
		case <-time.After(stepTimeout):
			errc <- fmt.Errorf("timeout handing messages to the downstream handler")
		}
	}()
	close(gate)
	want := map[string]bool{bar: true, mark: true}
	timer := time.NewTimer(stepTimeout)
	defer timer.Stop()
	for len(want) > 0 && err == nil {
		select {
		case x := <-s.send:
			if n, ok := x.(*mocrelay.ServerNoticeMsg); ok && want[n.Message] {
				delete(want, n.Message)
				continue
			}
			got = append(got, x)
		case e := <-s.ret:
			s.ret <- e
			err = fmt.Errorf("session ended during a parallel step: %v", e)
		case <-timer.C:
			err = fmt.Errorf("timeout in a parallel step (got %d messages)", len(got))
		}
	}
	if err != nil {
		return nil, got, err
	}
	for i := 0; i < 2; i++ {
		if e := <-errc; e != nil && err == nil {
			err = e
		}
	}
	forwarded = s.down.take()
	return
}

// Burst hands all messages to the session back to back (a pipelining client: nothing is read
// in between by the sender; the collector drains concurrently as a socket buffer would) and
// returns what the downstream handler received and what came back before the barrier. The
// replies are inspected only after the whole burst, as a writer goroutine that serialises
// later than the middleware produced them would see them.
func (s *Sess) Burst(msgs []mocrelay.ClientMsg) (forwarded []mocrelay.ClientMsg, replies []mocrelay.ServerMsg, err error) {
	s.n++
	bar := fmt.Sprintf("%s%d", barrierPrefix, s.n)
	errc := make(chan error, 1)
	go func() {
		for _, m := range msgs {
			if err := s.put(m); err != nil {
				errc <- err
				return
			}
		}
		errc <- s.put(&mocrelay.ClientCloseMsg{SubscriptionID: bar})
	}()
	replies, err = s.collectUntil(bar)
	if e := <-errc; e != nil && err == nil {
		err = e
	}
	forwarded = s.down.take()
	return
}
