package handlers

import (
	"context"
	"fmt"
	"runtime"
	"sort"
	"sync"
	"sync/atomic"
	"testing"
	"time"

	"github.com/high-moctane/mocrelay"
	"pgregory.net/rapid"

	"verifharness/ev"
	"verifharness/gen"
	"verifharness/hx"
)

const c07Rule = "cases = one shared RouterHandler and 2-5 connections; (seq) a generated global sequence of 4-40 steps (REQ s fs | CLOSE s | EVENT e | disconnect by cancel or inbound close | reconnect) each run to completion, deliveries collected by flushing every connection with a sentinel event on a reserved subscription (FIFO per connection): for each EVENT exactly one [EVENT,s,e] per open matching (conn,s) and none elsewhere, one accepting OK per EVENT, one EOSE per REQ; (conc) scripts run concurrently in goroutines with logical timestamps, judged by the real-time rule (must / must not / may), at most once per subscription instance, per-publisher order preserved; (stall) buffer 1-4, one subscriber never reads while publishers send more than buffer+1 matching events: every publisher gets its OK within 10 s, reading subscribers get all events in order, the stalled one later yields an in-order duplicate-free subsequence of at least buffer events; non-trivial = >=2 connections, >=1 delivery to a connection other than the publisher and >=1 subscription ended before a later matching publish; distinct by hash of the schedule"

const flushSub = "~verif-flush"

type rconn struct {
	id     int
	cancel context.CancelFunc
	recv   chan mocrelay.ClientMsg
	send   chan mocrelay.ServerMsg
	ret    chan error
	mu     sync.Mutex
	cond   *sync.Cond
	inbox  []mocrelay.ServerMsg
	closed bool
	stall  atomic.Bool
	quit   chan struct{}
}

func newRConn(id int, h mocrelay.Handler) *rconn {
	ctx, cancel := context.WithCancel(context.Background())
	c := &rconn{id: id, cancel: cancel, recv: make(chan mocrelay.ClientMsg), send: make(chan mocrelay.ServerMsg), ret: make(chan error, 1), quit: make(chan struct{})}
	c.cond = sync.NewCond(&c.mu)
	go func() { c.ret <- h.ServeNostr(ctx, c.send, c.recv) }()
	go func() {
		for {
			if c.stall.Load() {
				select {
				case <-c.quit:
					return
				case <-time.After(time.Millisecond):
					continue
				}
			}
			select {
			case m := <-c.send:
				c.mu.Lock()
				c.inbox = append(c.inbox, m)
				c.cond.Broadcast()
				c.mu.Unlock()
			case <-c.quit:
				return
			case <-time.After(2 * time.Millisecond):
			}
		}
	}()
	return c
}

// next pops the next received message (waits up to d).
func (c *rconn) next(d time.Duration) (mocrelay.ServerMsg, bool) {
	deadline := time.Now().Add(d)
	c.mu.Lock()
	defer c.mu.Unlock()
	for len(c.inbox) == 0 {
		if time.Now().After(deadline) {
			return nil, false
		}
		c.mu.Unlock()
		time.Sleep(50 * time.Microsecond)
		c.mu.Lock()
	}
	m := c.inbox[0]
	c.inbox = c.inbox[1:]
	return m, true
}

func (c *rconn) put(m mocrelay.ClientMsg, d time.Duration) error {
	select {
	case c.recv <- m:
		return nil
	case <-time.After(d):
		return fmt.Errorf("connection %d does not take client input within %v", c.id, d)
	}
}

func (c *rconn) end(byClose bool) error {
	if byClose {
		close(c.recv)
	} else {
		c.cancel()
	}
	select {
	case <-c.ret:
	case <-time.After(stepTimeout):
		c.cancel()
		close(c.quit)
		return fmt.Errorf("connection %d: ServeNostr did not return", c.id)
	}
	c.cancel()
	close(c.quit)
	return nil
}

type delivery struct {
	Sub string
	ID  string
}

type c07Step struct {
	Conn int    `json:"conn"`
	Op   string `json:"op"`
	Sub  string `json:"sub,omitempty"`
	Ev   any    `json:"event,omitempty"`
	Fs   any    `json:"filters,omitempty"`
}

func c07Event(t *rapid.T, label string, authors []string, n int) *mocrelay.Event {
	e := &mocrelay.Event{Pubkey: rapid.SampledFrom(authors).Draw(t, label+"pk"), Kind: rapid.SampledFrom([]int64{1, 1, 7, 0}).Draw(t, label+"kind"),
		CreatedAt: int64(100 + rapid.IntRange(0, 5).Draw(t, label+"ts")), Tags: []mocrelay.Tag{}, Content: fmt.Sprintf("e%d", n)}
	if rapid.Bool().Draw(t, label+"tag") {
		e.Tags = append(e.Tags, mocrelay.Tag{"t", rapid.SampledFrom([]string{"x", "y"}).Draw(t, label+"tv")})
	}
	if rapid.IntRange(0, 2).Draw(t, label+"pauthor") == 0 {
		e.Tags = append(e.Tags, mocrelay.Tag{"p", rapid.SampledFrom(authors).Draw(t, label+"pauthorv")})
	}
	if rapid.IntRange(0, 3).Draw(t, label+"ptag") == 0 {
		e.Tags = append(e.Tags, rapid.SampledFrom(gen.ProtocolTags).Draw(t, label+"ptagv"))
	}
	gen.Seal(e)
	return e
}

func c07Filters(t *rapid.T, label string, authors []string) []*mocrelay.ReqFilter {
	n := rapid.IntRange(1, 2).Draw(t, label+"nf")
	var fs []*mocrelay.ReqFilter
	for i := 0; i < n; i++ {
		f := &mocrelay.ReqFilter{}
		switch rapid.IntRange(0, 8).Draw(t, fmt.Sprintf("%sf%d", label, i)) {
		case 0:
		case 7:
			f.Kinds = []int64{} // an empty list selects nothing
		case 8:
			f.Authors = []string{}
		case 1:
			f.Kinds = []int64{1}
		case 2:
			f.Kinds = []int64{7, 0}
		case 3:
			f.Authors = []string{rapid.SampledFrom(authors).Draw(t, fmt.Sprintf("%sf%da", label, i))}
		case 4:
			f.Tags = map[string][]string{"t": {rapid.SampledFrom([]string{"x", "y"}).Draw(t, fmt.Sprintf("%sf%dt", label, i))}}
		case 6:
			// two tag conditions: both must hold
			f.Tags = map[string][]string{"t": {"x", "y"}, "p": {rapid.SampledFrom(authors).Draw(t, fmt.Sprintf("%sf%dp", label, i))}}
		case 5:
			f.Kinds = []int64{1}
			f.Limit = gen.Ptr(int64(rapid.IntRange(0, 1).Draw(t, fmt.Sprintf("%sf%dl", label, i))))
		}
		fs = append(fs, f)
	}
	return fs
}

// c07Twin derives filters that differ from prev in one place where a shortcut ("the same
// filters again") would be tempting: an absent condition becomes an empty list (selects
// nothing) or the reverse, a limit appears or goes, or nothing changes at all.
func c07Twin(t *rapid.T, label string, prev []*mocrelay.ReqFilter) []*mocrelay.ReqFilter {
	out := make([]*mocrelay.ReqFilter, len(prev))
	for i, f := range prev {
		c := *f
		out[i] = &c
	}
	f := out[rapid.IntRange(0, len(out)-1).Draw(t, label+"twinidx")]
	switch rapid.IntRange(0, 5).Draw(t, label+"twinkind") {
	case 0:
		if f.Kinds == nil {
			f.Kinds = []int64{}
		} else if len(f.Kinds) == 0 {
			f.Kinds = nil
		} else {
			f.Kinds = f.Kinds[:1]
		}
	case 1:
		if f.Authors == nil {
			f.Authors = []string{}
		} else if len(f.Authors) == 0 {
			f.Authors = nil
		}
	case 2:
		if f.IDs == nil {
			f.IDs = []string{}
		} else if len(f.IDs) == 0 {
			f.IDs = nil
		}
	case 3:
		if f.Tags == nil {
			f.Tags = map[string][]string{}
		} else if len(f.Tags) == 0 {
			f.Tags = nil
		} else {
			m := map[string][]string{}
			for k, v := range f.Tags {
				if len(v) > 0 {
					v = v[:len(v)-1] // one value fewer (possibly none: selects nothing)
				}
				m[k] = v
			}
			f.Tags = m
		}
	case 4:
		if f.Limit == nil {
			f.Limit = gen.Ptr(int64(1))
		} else {
			f.Limit = nil
		}
	case 5: // unchanged
	}
	return out
}

func TestC07Sequential(t *testing.T) {
	col := ev.For("C07").SetRule(c07Rule)
	rapid.Check(t, func(t *rapid.T) {
		router := mocrelay.NewRouterHandler(256)
		authors := gen.Pubkeys(2)
		nc := rapid.IntRange(2, 5).Draw(t, "conns")
		conns := make([]*rconn, nc)
		subs := make([]map[string][]*mocrelay.ReqFilter, nc)
		var trace []c07Step
		desc := func() any { return map[string]any{"connections": nc, "steps": trace} }
		failf := func(sig, clause, obs, exp string) {
			hx.Fail(t, ev.Failure{Property: "C07", Signature: sig, Clause: clause, Case: desc(), Observed: obs, Expected: exp})
		}
		pub := newRConn(-1, router) // dedicated sentinel publisher
		defer pub.end(false)
		nextID := 0
		recorded := make([][]delivery, nc) // deliveries since the last check
		record := func(i int, m mocrelay.ServerMsg) bool {
			if e, is := m.(*mocrelay.ServerEventMsg); is {
				// sentinel events (kind 9999) also match broad user filters: not part of the case
				if e.SubscriptionID != flushSub && e.Event.Kind != 9999 {
					recorded[i] = append(recorded[i], delivery{e.SubscriptionID, e.Event.ID})
				}
				return true
			}
			return false
		}
		connect := func(i int) {
			conns[i] = newRConn(i, router)
			subs[i] = map[string][]*mocrelay.ReqFilter{}
		}
		for i := range conns {
			connect(i)
		}
		defer func() {
			for _, c := range conns {
				if c != nil {
					c.end(false)
				}
			}
		}()
		// flush: open a temporary subscription on every live connection, publish a
		// sentinel, read each connection up to the sentinel (deliveries are FIFO per
		// connection, so everything published earlier has arrived), close the
		// temporary subscription again. A real client could do exactly this.
		flush := func() {
			nextID++
			s := &mocrelay.Event{Pubkey: authors[0], Kind: 9999, CreatedAt: 1, Tags: []mocrelay.Tag{}, Content: fmt.Sprintf("flush%d", nextID)}
			gen.Seal(s)
			for i, c := range conns {
				if c == nil {
					continue
				}
				if err := c.put(&mocrelay.ClientReqMsg{SubscriptionID: flushSub, ReqFilters: []*mocrelay.ReqFilter{{Kinds: []int64{9999}}}}, stepTimeout); err != nil {
					failf("stalled", "REQ is taken", err.Error(), "")
				}
				for {
					m, ok := c.next(stepTimeout)
					if !ok {
						failf("no-eose", "every REQ is answered by EOSE", fmt.Sprintf("connection %d: no EOSE", i), "")
					}
					if e, is := m.(*mocrelay.ServerEOSEMsg); is && e.SubscriptionID == flushSub {
						break
					}
					if !record(i, m) {
						failf("unexpected-message", "a REQ is answered by EOSE", hx.JSON(briefServer(m)), "")
					}
				}
			}
			if err := pub.put(&mocrelay.ClientEventMsg{Event: s}, stepTimeout); err != nil {
				failf("stalled", "the router takes EVENTs", err.Error(), "")
			}
			for {
				m, ok := pub.next(stepTimeout)
				if !ok {
					failf("no-ok", "every EVENT is answered by an accepting OK", "sentinel publish not acknowledged", "")
				}
				if o, is := m.(*mocrelay.ServerOKMsg); is && o.EventID == s.ID {
					break
				}
			}
			for i, c := range conns {
				if c == nil {
					continue
				}
				for {
					m, ok := c.next(stepTimeout)
					if !ok {
						failf("delivery-missing", "a subscription that is open receives a matching event (sentinel on a just opened subscription)", fmt.Sprintf("connection %d never received the sentinel", i), "delivered")
					}
					if e, is := m.(*mocrelay.ServerEventMsg); is && e.SubscriptionID == flushSub && e.Event.ID == s.ID {
						break
					}
					if !record(i, m) {
						failf("unexpected-message", "only deliveries arrive outside a request", hx.JSON(briefServer(m)), "")
					}
				}
				if err := c.put(&mocrelay.ClientCloseMsg{SubscriptionID: flushSub}, stepTimeout); err != nil {
					failf("stalled", "CLOSE is taken", err.Error(), "")
				}
				if err := c.put(&mocrelay.ClientCountMsg{SubscriptionID: "~cnt", ReqFilters: []*mocrelay.ReqFilter{{}}}, stepTimeout); err != nil {
					failf("stalled", "COUNT is taken", err.Error(), "")
				}
				for {
					m, ok := c.next(stepTimeout)
					if !ok {
						failf("stalled", "COUNT is answered", "no COUNT reply", "")
					}
					if _, is := m.(*mocrelay.ServerCountMsg); is {
						break
					}
					if !record(i, m) {
						failf("unexpected-message", "CLOSE is answered by nothing", hx.JSON(briefServer(m)), "")
					}
				}
			}
		}
		crossDelivery, endedThenPublish := false, false
		ended := false
		steps := rapid.IntRange(4, 40).Draw(t, "steps")
		for k := 0; k < steps; k++ {
			lab := fmt.Sprintf("%d.", k)
			ci := rapid.IntRange(0, nc-1).Draw(t, lab+"conn")
			if conns[ci] == nil {
				connect(ci)
				trace = append(trace, c07Step{Conn: ci, Op: "connect"})
				continue
			}
			c := conns[ci]
			switch op := rapid.SampledFrom([]string{"REQ", "REQ", "REQ", "CLOSE", "CLOSE", "EVENT", "EVENT", "EVENT", "EVENT", "disconnect"}).Draw(t, lab+"op"); op {
			case "REQ":
				s := rapid.SampledFrom([]string{"a", "b", "c"}).Draw(t, lab+"sub")
				fs := c07Filters(t, lab, authors)
				if prev, was := subs[ci][s]; was {
					ended = true // replaced
					// a replacement that is a near twin of what it replaces (an absent condition
					// against an empty list, a limit added, the same list again): the new filters count
					if rapid.IntRange(0, 2).Draw(t, lab+"twin") == 0 {
						fs = c07Twin(t, lab, prev)
						col.Label("replace-by-twin")
					}
				}
				trace = append(trace, c07Step{Conn: ci, Op: "REQ", Sub: s, Fs: gen.BriefFilters(fs)})
				if err := c.put(&mocrelay.ClientReqMsg{SubscriptionID: s, ReqFilters: fs}, stepTimeout); err != nil {
					failf("stalled", "REQ is taken", err.Error(), "")
				}
				eose := 0
				for eose == 0 {
					m, ok := c.next(stepTimeout)
					if !ok {
						failf("no-eose", "every REQ is answered by EOSE", fmt.Sprintf("connection %d: no EOSE for %q", ci, s), "one EOSE")
					}
					if e, is := m.(*mocrelay.ServerEOSEMsg); is && e.SubscriptionID == s {
						eose++
					} else if !record(ci, m) {
						failf("unexpected-message", "a REQ is answered by EOSE", hx.JSON(briefServer(m)), "EOSE "+s)
					}
				}
				subs[ci][s] = fs
			case "CLOSE":
				s := rapid.SampledFrom([]string{"a", "b", "c", "zz"}).Draw(t, lab+"sub")
				trace = append(trace, c07Step{Conn: ci, Op: "CLOSE", Sub: s})
				if err := c.put(&mocrelay.ClientCloseMsg{SubscriptionID: s}, stepTimeout); err != nil {
					failf("stalled", "CLOSE is taken", err.Error(), "")
				}
				// confirm with a COUNT round trip (the connection's messages are handled in order)
				if err := c.put(&mocrelay.ClientCountMsg{SubscriptionID: "~cnt", ReqFilters: []*mocrelay.ReqFilter{{}}}, stepTimeout); err != nil {
					failf("stalled", "COUNT is taken", err.Error(), "")
				}
				for {
					m, ok := c.next(stepTimeout)
					if !ok {
						failf("stalled", "COUNT is answered", "no COUNT reply", "")
					}
					if _, is := m.(*mocrelay.ServerCountMsg); is {
						break
					}
					if !record(ci, m) {
						failf("unexpected-message", "CLOSE is answered by nothing", hx.JSON(briefServer(m)), "")
					}
				}
				if _, was := subs[ci][s]; was {
					ended = true
				}
				delete(subs[ci], s)
			case "EVENT":
				nextID++
				e := c07Event(t, lab, authors, nextID)
				trace = append(trace, c07Step{Conn: ci, Op: "EVENT", Ev: gen.Brief(e)})
				if err := c.put(&mocrelay.ClientEventMsg{Event: e}, stepTimeout); err != nil {
					failf("stalled", "EVENT is taken", err.Error(), "")
				}
				oks := 0
				for oks == 0 {
					m, ok := c.next(stepTimeout)
					if !ok {
						failf("no-ok", "every EVENT is answered by an accepting OK", fmt.Sprintf("connection %d: no OK for %s", ci, gen.Short(e.ID)), "one OK")
					}
					if o, is := m.(*mocrelay.ServerOKMsg); is {
						if o.EventID != e.ID || !o.Accepted {
							failf("ok-wrong", "every EVENT is answered by an accepting OK with its id", hx.JSON(briefServer(m)), "OK "+gen.Short(e.ID)+" true")
						}
						oks++
					} else if !record(ci, m) {
						failf("unexpected-message", "an EVENT is answered by OK", hx.JSON(briefServer(m)), "")
					}
				}
				flush()
				// compare deliveries of this event on every connection
				for i := range conns {
					var want []delivery
					if conns[i] != nil {
						for s, fs := range subs[i] {
							if gen.MatchAny(e, fs) {
								want = append(want, delivery{s, e.ID})
							}
						}
					}
					got := recorded[i]
					recorded[i] = nil
					sortD(want)
					sortD(got)
					if hx.JSON(want) != hx.JSON(got) {
						sig := "delivery-mismatch"
						if len(got) < len(want) {
							sig = "delivery-missing"
						} else if len(got) > len(want) {
							sig = "delivery-extra"
						}
						failf(sig, "every open matching subscription receives the event exactly once labelled with its own id, and no other subscription does",
							fmt.Sprintf("connection %d got %s", i, hx.JSON(shortD(got))), hx.JSON(shortD(want)))
					}
					if len(want) > 0 {
						col.Label("delivery")
						if i != ci {
							crossDelivery = true
						}
						if ended {
							endedThenPublish = true
						}
					}
				}
			case "disconnect":
				byClose := rapid.Bool().Draw(t, lab+"byclose")
				trace = append(trace, c07Step{Conn: ci, Op: map[bool]string{true: "disconnect-close", false: "disconnect-cancel"}[byClose]})
				if err := c.end(byClose); err != nil {
					failf("disconnect", "a finished connection returns", err.Error(), "")
				}
				if len(subs[ci]) > 0 {
					ended = true
				}
				conns[ci] = nil
				subs[ci] = nil
				recorded[ci] = nil
			}
		}
		col.Label("mode:sequential")
		col.Case(nc >= 2 && crossDelivery && endedThenPublish, hx.JSON(trace), desc)
	})
}

func sortD(d []delivery) {
	sort.Slice(d, func(i, j int) bool {
		if d[i].ID != d[j].ID {
			return d[i].ID < d[j].ID
		}
		return d[i].Sub < d[j].Sub
	})
}

func shortD(d []delivery) []string {
	out := make([]string, len(d))
	for i, x := range d {
		out[i] = x.Sub + ":" + gen.Short(x.ID)
	}
	return out
}

// TestC07Backpressure: a subscriber that stops reading never delays publishers.
func TestC07Backpressure(t *testing.T) {
	col := ev.For("C07").SetRule(c07Rule)
	rapid.Check(t, func(t *rapid.T) {
		b := rapid.IntRange(1, 4).Draw(t, "buflen")
		router := mocrelay.NewRouterHandler(b)
		authors := gen.Pubkeys(2)
		nread := rapid.IntRange(1, 6).Draw(t, "readers")
		npub := rapid.IntRange(1, 2).Draw(t, "publishers")
		n := b + 2 + rapid.IntRange(0, 12).Draw(t, "extra")
		desc := map[string]any{"buflen": b, "reading_subscribers": nread, "publishers": npub, "events_per_publisher": n}
		failf := func(sig, clause, obs, exp string) {
			hx.Fail(t, ev.Failure{Property: "C07", Signature: sig, Clause: clause, Case: desc, Observed: obs, Expected: exp})
		}
		sub := func(c *rconn) {
			if err := c.put(&mocrelay.ClientReqMsg{SubscriptionID: "s", ReqFilters: []*mocrelay.ReqFilter{{Kinds: []int64{1}}}}, stepTimeout); err != nil {
				failf("stalled", "REQ is taken", err.Error(), "")
			}
			for {
				m, ok := c.next(stepTimeout)
				if !ok {
					failf("no-eose", "every REQ is answered by EOSE", "no EOSE", "")
				}
				if _, is := m.(*mocrelay.ServerEOSEMsg); is {
					return
				}
			}
		}
		// the stalled subscriber is placed at a generated position among the connections
		stalledPos := rapid.IntRange(0, nread).Draw(t, "stalled_position")
		var readers []*rconn
		var stalled *rconn
		for i := 0; i <= nread; i++ {
			c := newRConn(i, router)
			defer c.end(false)
			sub(c)
			if i == stalledPos {
				stalled = c
			} else {
				readers = append(readers, c)
			}
		}
		stalled.stall.Store(true)
		time.Sleep(2500 * time.Microsecond) // let the reader goroutine notice (it polls every 2 ms)
		// publishers: one event at a time, each waiting for its OK; readers are drained after every publish
		var pubs []*rconn
		for i := 0; i < npub; i++ {
			p := newRConn(100+i, router)
			defer p.end(false)
			pubs = append(pubs, p)
		}
		want := make([][]string, npub)
		got := make([][][]string, len(readers)) // per reader per publisher
		for i := range got {
			got[i] = make([][]string, npub)
		}
		seq := 0
		for k := 0; k < n; k++ {
			for pi, p := range pubs {
				seq++
				e := &mocrelay.Event{Pubkey: authors[pi%2], Kind: 1, CreatedAt: int64(seq), Tags: []mocrelay.Tag{}, Content: fmt.Sprintf("p%d-%d", pi, k)}
				gen.Seal(e)
				t0 := time.Now()
				if err := p.put(&mocrelay.ClientEventMsg{Event: e}, 10*time.Second); err != nil {
					failf("publisher-delayed", "a subscriber that stops reading never delays publishers", err.Error(), "EVENT taken at once")
				}
				m, ok := p.next(10 * time.Second)
				if !ok {
					failf("publisher-delayed", "a subscriber that stops reading never delays publishers: every publisher gets its OK", fmt.Sprintf("no OK for event %d of publisher %d within 10 s", k, pi), "accepting OK")
				}
				if o, is := m.(*mocrelay.ServerOKMsg); !is || o.EventID != e.ID || !o.Accepted {
					failf("ok-wrong", "every EVENT is answered by an accepting OK", hx.JSON(briefServer(m)), "")
				}
				col.Add("publish_latency_us_sum", time.Since(t0).Microseconds())
				want[pi] = append(want[pi], e.ID)
				// each reading subscriber receives it (their buffers never overflow: one event at a time)
				for ri, r := range readers {
					m, ok := r.next(stepTimeout)
					if !ok {
						failf("healthy-subscriber-dropped", "only the stalled subscriber's own deliveries beyond the buffer are dropped: a reading subscriber receives every event",
							fmt.Sprintf("reader %d did not receive event %d of publisher %d", ri, k, pi), "delivered")
					}
					em, is := m.(*mocrelay.ServerEventMsg)
					if !is || em.SubscriptionID != "s" {
						failf("unexpected-message", "deliveries are EVENT messages labelled with the subscription id", hx.JSON(briefServer(m)), "")
					}
					got[ri][pi] = append(got[ri][pi], em.Event.ID)
				}
			}
		}
		for ri := range readers {
			for pi := range pubs {
				if hx.JSON(got[ri][pi]) != hx.JSON(want[pi]) {
					failf("order", "events of one publisher reach a subscription in publication order", hx.JSON(gen.ShortAll(got[ri][pi])), hx.JSON(gen.ShortAll(want[pi])))
				}
			}
		}
		// a publisher that is slow to read its own OK: the event is published all the
		// same (the subscriptions were open when it was sent)
		lazyID := ""
		if rapid.Bool().Draw(t, "lazy_publisher") && len(readers) > 0 {
			lazy := newRConn(200, router)
			defer lazy.end(false)
			lazy.stall.Store(true)
			time.Sleep(2500 * time.Microsecond)
			seq++
			e := &mocrelay.Event{Pubkey: authors[0], Kind: 1, CreatedAt: int64(seq), Tags: []mocrelay.Tag{}, Content: "from-a-publisher-that-does-not-read"}
			gen.Seal(e)
			lazyID = e.ID
			if err := lazy.put(&mocrelay.ClientEventMsg{Event: e}, 10*time.Second); err != nil {
				failf("stalled", "the router takes an EVENT", err.Error(), "")
			}
			for ri, r := range readers {
				m, ok := r.next(10 * time.Second)
				em, is := m.(*mocrelay.ServerEventMsg)
				if !ok || !is || em.Event.ID != e.ID {
					failf("delivery-missing", "every open matching subscription receives a published event (the publisher has not read its OK yet)", fmt.Sprintf("reader %d got %s", ri, hx.JSON(briefServer(m))), "the event")
				}
			}
			col.Label("lazy-publisher")
			lazy.stall.Store(false)
		}
		// while still backlogged the stalled connection issues another REQ: it must be
		// answered by EOSE once the peer reads again (every REQ is answered by EOSE)
		lateReq := rapid.Bool().Draw(t, "late_req")
		if lateReq {
			if err := stalled.put(&mocrelay.ClientReqMsg{SubscriptionID: "late", ReqFilters: []*mocrelay.ReqFilter{{Kinds: []int64{7}}}}, 10*time.Second); err != nil {
				failf("stalled", "the router takes a REQ from a backlogged connection", err.Error(), "")
			}
			time.Sleep(time.Millisecond)
		}
		// the stalled subscriber, once it reads again: an in-order duplicate-free subsequence of >= b events
		stalled.stall.Store(false)
		var late []string
		lateEOSE := 0
		for {
			// wait generously for the first `buffer` events, then until 5 ms of silence
			wait := 5 * time.Millisecond
			if len(late) < b || (lateReq && lateEOSE == 0 && len(late) < b+2) {
				wait = 2 * time.Second
			}
			m, ok := stalled.next(wait)
			if !ok {
				break
			}
			if em, is := m.(*mocrelay.ServerEventMsg); is && em.Event.ID != lazyID {
				late = append(late, em.Event.ID)
			}
			if eo, is := m.(*mocrelay.ServerEOSEMsg); is && eo.SubscriptionID == "late" {
				lateEOSE++
			}
		}
		if lateReq && lateEOSE != 1 {
			failf("no-eose", "every REQ is answered by EOSE (REQ sent while the connection's delivery buffer was full)", fmt.Sprintf("%d EOSE for the late REQ", lateEOSE), "1")
		}
		all := map[string]int{}
		pos := 0
		for k := 0; k < n; k++ {
			for pi := range pubs {
				all[want[pi][k]] = pos
				pos++
			}
		}
		last := -1
		seen := map[string]bool{}
		for _, id := range late {
			p, ok := all[id]
			if !ok || seen[id] || p <= last {
				failf("stalled-subscriber-stream", "the stalled subscriber's deliveries are an in-order duplicate-free subsequence of the published events", hx.JSON(gen.ShortAll(late)), "")
			}
			seen[id] = true
			last = p
		}
		if len(late) < b {
			failf("stalled-subscriber-underfilled", "only deliveries beyond the configured buffer are dropped", fmt.Sprintf("%d events delivered, buffer %d", len(late), b), fmt.Sprintf(">= %d", b))
		}
		// a connection that ends with undelivered events in its buffer: nothing of it may
		// reach a connection that starts afterwards
		if rapid.Bool().Draw(t, "ghost_check") {
			ghost := newRConn(300, router)
			sub(ghost)
			ghost.stall.Store(true)
			time.Sleep(2500 * time.Microsecond)
			for k := 0; k < b+3; k++ {
				seq++
				e := &mocrelay.Event{Pubkey: authors[0], Kind: 1, CreatedAt: int64(seq), Tags: []mocrelay.Tag{}, Content: fmt.Sprint("ghost", k)}
				gen.Seal(e)
				p := pubs[0]
				if err := p.put(&mocrelay.ClientEventMsg{Event: e}, 10*time.Second); err != nil {
					failf("publisher-delayed", "a subscriber that stops reading never delays publishers", err.Error(), "")
				}
				if _, ok := p.next(10 * time.Second); !ok {
					failf("publisher-delayed", "every publisher gets its OK", "no OK", "")
				}
				for _, r := range readers {
					r.next(stepTimeout) // keep the healthy subscribers drained
				}
			}
			if err := ghost.end(rapid.Bool().Draw(t, "ghost_end_by_close")); err != nil && false {
				failf("disconnect", "a finished connection returns", err.Error(), "")
			}
			fresh := newRConn(301, router)
			defer fresh.end(false)
			if err := fresh.put(&mocrelay.ClientReqMsg{SubscriptionID: "fresh", ReqFilters: []*mocrelay.ReqFilter{{Kinds: []int64{9998}}}}, stepTimeout); err != nil {
				failf("stalled", "REQ is taken", err.Error(), "")
			}
			seq++
			sent := &mocrelay.Event{Pubkey: authors[0], Kind: 9998, CreatedAt: int64(seq), Tags: []mocrelay.Tag{}, Content: "sentinel for the fresh connection"}
			gen.Seal(sent)
			gotEOSE := false
			for !gotEOSE {
				m, ok := fresh.next(stepTimeout)
				if !ok {
					failf("no-eose", "every REQ is answered by EOSE", "no EOSE on the fresh connection", "")
				}
				switch x := m.(type) {
				case *mocrelay.ServerEOSEMsg:
					gotEOSE = true
				case *mocrelay.ServerEventMsg:
					failf("delivery-extra", "no subscription of a finished connection receives events (a new connection got an event labelled for another connection's subscription)", hx.JSON(briefServer(x)), "nothing")
				}
			}
			if err := pubs[0].put(&mocrelay.ClientEventMsg{Event: sent}, stepTimeout); err != nil {
				failf("stalled", "EVENT is taken", err.Error(), "")
			}
			for {
				m, ok := fresh.next(stepTimeout)
				if !ok {
					failf("delivery-missing", "an open matching subscription receives the event", "sentinel not delivered to the fresh connection", "")
				}
				em, is := m.(*mocrelay.ServerEventMsg)
				if is && em.SubscriptionID == "fresh" && em.Event.ID == sent.ID {
					break
				}
				failf("delivery-extra", "no subscription of a finished connection receives events (a new connection got a message that is not its own)", hx.JSON(briefServer(m)), "only the sentinel")
			}
			pubs[0].next(stepTimeout) // the sentinel's OK
			col.Label("ghost-check")
		}
		col.Label("mode:backpressure")
		col.Case(true, hx.JSON(desc), func() any { return desc })
	})
}

// ---- concurrent mode: real-time rule -----------------------------------------------------------

type c07Inst struct {
	conn, sub      int
	subID          string
	fs             []*mocrelay.ReqFilter
	reqInv, open   int64 // REQ sent, EOSE received
	endInv, endRes int64 // end started / confirmed (max int64 if never)
}

type c07Pub struct {
	conn     int
	e        *mocrelay.Event
	inv, res int64
	seq      int // publication order within the publisher
}

type c07Recv struct {
	sub string
	id  string
}

const never = int64(1) << 62

func TestC07Concurrent(t *testing.T) {
	col := ev.For("C07").SetRule(c07Rule)
	rapid.Check(t, func(t *rapid.T) {
		router := mocrelay.NewRouterHandler(4096)
		authors := gen.Pubkeys(2)
		nc := rapid.IntRange(2, 5).Draw(t, "conns")
		type op struct {
			Kind string                `json:"op"`
			Sub  string                `json:"sub,omitempty"`
			Fs   []*mocrelay.ReqFilter `json:"-"`
			FsB  any                   `json:"filters,omitempty"`
			Ev   *mocrelay.Event       `json:"-"`
			EvB  any                   `json:"event,omitempty"`
		}
		scripts := make([][]op, nc)
		evn := 0
		for i := range scripts {
			l := rapid.IntRange(1, 14).Draw(t, fmt.Sprintf("c%d.len", i))
			for j := 0; j < l; j++ {
				lab := fmt.Sprintf("c%d.%d.", i, j)
				switch k := rapid.SampledFrom([]string{"REQ", "REQ", "CLOSE", "EVENT", "EVENT", "EVENT", "END"}).Draw(t, lab+"op"); k {
				case "REQ":
					fs := c07Filters(t, lab, authors)
					scripts[i] = append(scripts[i], op{Kind: "REQ", Sub: rapid.SampledFrom([]string{"a", "b"}).Draw(t, lab+"sub"), Fs: fs, FsB: gen.BriefFilters(fs)})
				case "CLOSE":
					scripts[i] = append(scripts[i], op{Kind: "CLOSE", Sub: rapid.SampledFrom([]string{"a", "b"}).Draw(t, lab+"sub")})
				case "EVENT":
					evn++
					e := c07Event(t, lab, authors, evn)
					scripts[i] = append(scripts[i], op{Kind: "EVENT", Ev: e, EvB: gen.Brief(e)})
				case "END":
					if j == l-1 {
						scripts[i] = append(scripts[i], op{Kind: "END"})
					}
				}
			}
		}
		desc := map[string]any{"connections": nc, "scripts": scripts, "mode": "concurrent"}
		var clock atomic.Int64
		var mu sync.Mutex
		var insts []*c07Inst
		var pubs []*c07Pub
		recvd := make([][]c07Recv, nc)
		errs := make([]string, nc)
		live := make([]*rconn, nc)
		flushFn := make([]func() bool, nc)
		endByClose := make([]bool, nc)
		for i := range endByClose {
			endByClose[i] = rapid.Bool().Draw(t, fmt.Sprintf("c%d.endbyclose", i))
		}
		var wg sync.WaitGroup
		for i := 0; i < nc; i++ {
			wg.Add(1)
			go func(ci int) {
				defer wg.Done()
				c := newRConn(ci, router)
				open := map[string]*c07Inst{}
				failf := func(f string, a ...any) { errs[ci] = fmt.Sprintf(f, a...) }
				take := func(m mocrelay.ServerMsg) bool {
					if e, is := m.(*mocrelay.ServerEventMsg); is {
						if e.SubscriptionID != flushSub {
							recvd[ci] = append(recvd[ci], c07Recv{e.SubscriptionID, e.Event.ID})
						}
						return true
					}
					return false
				}
				waitFor := func(pred func(m mocrelay.ServerMsg) bool, what string) bool {
					for {
						m, ok := c.next(stepTimeout)
						if !ok {
							failf("connection %d: no %s", ci, what)
							return false
						}
						if pred(m) {
							return true
						}
						if !take(m) {
							failf("connection %d: unexpected %s while waiting for %s", ci, hx.JSON(briefServer(m)), what)
							return false
						}
					}
				}
				flush := func() bool {
					s := &mocrelay.Event{Pubkey: fmt.Sprintf("%064x", ci+1), Kind: 9999, CreatedAt: 1, Tags: []mocrelay.Tag{}, Content: fmt.Sprint(clock.Add(1))}
					gen.Seal(s)
					if c.put(&mocrelay.ClientReqMsg{SubscriptionID: flushSub, ReqFilters: []*mocrelay.ReqFilter{{Kinds: []int64{9999}, Authors: []string{s.Pubkey}}}}, stepTimeout) != nil {
						failf("stalled")
						return false
					}
					if !waitFor(func(m mocrelay.ServerMsg) bool {
						e, is := m.(*mocrelay.ServerEOSEMsg)
						return is && e.SubscriptionID == flushSub
					}, "EOSE") {
						return false
					}
					defer func() {
						c.put(&mocrelay.ClientCloseMsg{SubscriptionID: flushSub}, stepTimeout)
					}()
					if c.put(&mocrelay.ClientEventMsg{Event: s}, stepTimeout) != nil {
						failf("stalled")
						return false
					}
					// first the OK of the sentinel publish, then the sentinel itself (either order)
					gotOK, gotEv := false, false
					for !(gotOK && gotEv) {
						m, ok := c.next(stepTimeout)
						if !ok {
							failf("connection %d: flush sentinel did not arrive (ok=%v event=%v)", ci, gotOK, gotEv)
							return false
						}
						if o, is := m.(*mocrelay.ServerOKMsg); is && o.EventID == s.ID {
							gotOK = true
							continue
						}
						if e, is := m.(*mocrelay.ServerEventMsg); is && e.SubscriptionID == flushSub && e.Event.ID == s.ID {
							gotEv = true
							continue
						}
						if !take(m) {
							failf("connection %d: unexpected %s while flushing", ci, hx.JSON(briefServer(m)))
							return false
						}
					}
					return true
				}
				seq := 0
				ended := false
				for _, o := range scripts[ci] {
					runtime.Gosched()
					switch o.Kind {
					case "REQ":
						in := &c07Inst{conn: ci, subID: o.Sub, fs: o.Fs, endInv: never, endRes: never}
						in.reqInv = clock.Add(1)
						if old := open[o.Sub]; old != nil {
							old.endInv = in.reqInv
						}
						if c.put(&mocrelay.ClientReqMsg{SubscriptionID: o.Sub, ReqFilters: o.Fs}, stepTimeout) != nil {
							failf("stalled")
							return
						}
						if !waitFor(func(m mocrelay.ServerMsg) bool {
							e, is := m.(*mocrelay.ServerEOSEMsg)
							return is && e.SubscriptionID == o.Sub
						}, "EOSE "+o.Sub) {
							return
						}
						in.open = clock.Add(1)
						if old := open[o.Sub]; old != nil {
							old.endRes = in.open
						}
						open[o.Sub] = in
						mu.Lock()
						insts = append(insts, in)
						mu.Unlock()
					case "CLOSE":
						inv := clock.Add(1)
						if old := open[o.Sub]; old != nil {
							old.endInv = inv
						}
						if c.put(&mocrelay.ClientCloseMsg{SubscriptionID: o.Sub}, stepTimeout) != nil || c.put(&mocrelay.ClientCountMsg{SubscriptionID: "~cnt", ReqFilters: []*mocrelay.ReqFilter{{}}}, stepTimeout) != nil {
							failf("stalled")
							return
						}
						if !waitFor(func(m mocrelay.ServerMsg) bool { _, is := m.(*mocrelay.ServerCountMsg); return is }, "COUNT reply") {
							return
						}
						if old := open[o.Sub]; old != nil {
							old.endRes = clock.Add(1)
							delete(open, o.Sub)
						}
					case "EVENT":
						p := &c07Pub{conn: ci, e: o.Ev, seq: seq}
						seq++
						p.inv = clock.Add(1)
						if c.put(&mocrelay.ClientEventMsg{Event: o.Ev}, stepTimeout) != nil {
							failf("stalled")
							return
						}
						if !waitFor(func(m mocrelay.ServerMsg) bool {
							ok, is := m.(*mocrelay.ServerOKMsg)
							return is && ok.EventID == o.Ev.ID && ok.Accepted
						}, "accepting OK") {
							return
						}
						p.res = clock.Add(1)
						mu.Lock()
						pubs = append(pubs, p)
						mu.Unlock()
					case "END":
						inv := clock.Add(1)
						for _, in := range open {
							in.endInv = inv
						}
						if !flush() {
							return
						}
						if err := c.end(endByClose[ci]); err != nil {
							failf("%v", err)
							return
						}
						res := clock.Add(1)
						for _, in := range open {
							in.endRes = res
						}
						ended = true
					}
				}
				if !ended {
					live[ci], flushFn[ci] = c, flush
				}
			}(i)
		}
		wg.Wait()
		for _, e := range errs {
			if e != "" {
				hx.Fail(t, ev.Failure{Property: "C07", Signature: "concurrent-run", Clause: "every REQ is answered by EOSE and every EVENT by an accepting OK", Case: desc, Observed: e})
			}
		}
		// all scripts are done: flush the connections that are still live, then end them
		for ci := 0; ci < nc; ci++ {
			if live[ci] != nil {
				flushFn[ci]()
				live[ci].end(false)
			}
		}
		for _, e := range errs {
			if e != "" {
				hx.Fail(t, ev.Failure{Property: "C07", Signature: "concurrent-run", Clause: "a live subscription receives matching events (final flush)", Case: desc, Observed: e})
			}
		}
		// judge
		overlapping := false
		for _, p := range pubs {
			for ci := 0; ci < nc; ci++ {
				for _, sub := range []string{"a", "b"} {
					must, may := 0, 0
					for _, in := range insts {
						if in.conn != ci || in.subID != sub {
							continue
						}
						switch {
						case !gen.MatchAny(p.e, in.fs) || p.res < in.reqInv || in.endRes < p.inv:
						case in.open < p.inv && p.res < in.endInv:
							must++
						default:
							may++
							overlapping = true
						}
					}
					got := 0
					for _, r := range recvd[ci] {
						if r.sub == sub && r.id == p.e.ID {
							got++
						}
					}
					if got < must || got > must+may {
						sig := "concurrent-delivery-missing"
						if got > must+may {
							sig = "concurrent-delivery-extra"
						}
						hx.Fail(t, ev.Failure{Property: "C07", Signature: sig, Clause: "real-time rule: EOSE received before the EVENT was sent and nothing ended before its OK => exactly one delivery; REQ after the OK, ended before the EVENT or not matching => none",
							Case: desc, Observed: fmt.Sprintf("event %s on connection %d subscription %s: %d deliveries", gen.Short(p.e.ID), ci, sub, got), Expected: fmt.Sprintf("between %d and %d", must, must+may)})
					}
				}
			}
		}
		// per (publisher, connection, subscription): publication order
		seqOf := map[string]*c07Pub{}
		for _, p := range pubs {
			seqOf[p.e.ID] = p
		}
		for ci := 0; ci < nc; ci++ {
			last := map[string]int{}
			for _, r := range recvd[ci] {
				p := seqOf[r.id]
				if p == nil {
					continue
				}
				key := fmt.Sprintf("%s/%d", r.sub, p.conn)
				if l, ok := last[key]; ok && p.seq < l {
					hx.Fail(t, ev.Failure{Property: "C07", Signature: "concurrent-order", Clause: "events of one publisher reach a given subscription in publication order", Case: desc,
						Observed: fmt.Sprintf("connection %d subscription %s: event #%d of publisher %d after #%d", ci, r.sub, p.seq, p.conn, l)})
				}
				last[key] = p.seq
			}
		}
		col.Label("mode:concurrent")
		col.Case(overlapping && len(pubs) > 0, hx.JSON(desc), func() any { return desc })
	})
}

// TestC07Churn: registry churn (other connections subscribing / closing, a large
// idle connection) and continuous publishing while a victim connection repeatedly
// opens a subscription, sees its EOSE and then has a matching event published: by
// the real-time rule that event must be delivered. Waiting is positive (for the
// delivery), so a timeout only happens on a violation.
func TestC07Churn(t *testing.T) {
	col := ev.For("C07").SetRule(c07Rule)
	rapid.Check(t, func(t *rapid.T) {
		router := mocrelay.NewRouterHandler(4096)
		authors := gen.Pubkeys(2)
		nIdle := rapid.SampledFrom([]int{0, 200, 2000, 8000}).Draw(t, "idle_subscriptions")
		nChurn := rapid.IntRange(1, 3).Draw(t, "churners")
		iters := rapid.IntRange(60, 250).Draw(t, "iterations")
		desc := map[string]any{"idle_subscriptions": nIdle, "churners": nChurn, "iterations": iters, "mode": "churn"}
		failMsg := ""
		var failMu sync.Mutex
		setFail := func(s string) {
			failMu.Lock()
			if failMsg == "" {
				failMsg = s
			}
			failMu.Unlock()
		}
		idle := newRConn(1, router)
		defer idle.end(false)
		for i := 0; i < nIdle; i++ {
			if idle.put(&mocrelay.ClientReqMsg{SubscriptionID: fmt.Sprint("idle", i), ReqFilters: []*mocrelay.ReqFilter{{Kinds: []int64{4242}}}}, stepTimeout) != nil {
				t.Fatalf("idle REQ not taken")
			}
		}
		// drain the idle connection's EOSEs in the background
		var stop atomic.Bool
		var wg sync.WaitGroup
		wg.Add(1)
		go func() {
			defer wg.Done()
			for !stop.Load() {
				idle.next(5 * time.Millisecond)
			}
		}()
		for c := 0; c < nChurn; c++ {
			wg.Add(1)
			go func(c int) {
				defer wg.Done()
				conn := newRConn(10+c, router)
				defer conn.end(false)
				for i := 0; !stop.Load(); i++ {
					id := fmt.Sprint("churn", i%3)
					if conn.put(&mocrelay.ClientReqMsg{SubscriptionID: id, ReqFilters: []*mocrelay.ReqFilter{{Kinds: []int64{4243}}}}, stepTimeout) != nil {
						return
					}
					conn.next(stepTimeout)
					if i%2 == 1 {
						if conn.put(&mocrelay.ClientCloseMsg{SubscriptionID: id}, stepTimeout) != nil {
							return
						}
					}
				}
			}(c)
		}
		// background publisher: keeps Publish walking the registry
		wg.Add(1)
		go func() {
			defer wg.Done()
			conn := newRConn(20, router)
			defer conn.end(false)
			for i := 0; !stop.Load(); i++ {
				e := &mocrelay.Event{Pubkey: authors[1], Kind: 4244, CreatedAt: int64(i), Tags: []mocrelay.Tag{}, Content: fmt.Sprint("noise", i)}
				gen.Seal(e)
				if conn.put(&mocrelay.ClientEventMsg{Event: e}, stepTimeout) != nil {
					return
				}
				conn.next(stepTimeout)
			}
		}()
		victim := newRConn(30, router)
		defer victim.end(false)
		pub := newRConn(31, router)
		defer pub.end(false)
		for i := 0; i < iters && failMsg == ""; i++ {
			sid := fmt.Sprint("v", i%4)
			if victim.put(&mocrelay.ClientReqMsg{SubscriptionID: sid, ReqFilters: []*mocrelay.ReqFilter{{Kinds: []int64{1}, Authors: authors[:1]}}}, stepTimeout) != nil {
				setFail("victim REQ not taken")
				break
			}
			// EOSE (deliveries of earlier iterations to a replaced id may still arrive: ignore events here)
			for {
				m, ok := victim.next(stepTimeout)
				if !ok {
					setFail(fmt.Sprintf("iteration %d: no EOSE for %s", i, sid))
					break
				}
				if eo, is := m.(*mocrelay.ServerEOSEMsg); is && eo.SubscriptionID == sid {
					break
				}
			}
			if failMsg != "" {
				break
			}
			e := &mocrelay.Event{Pubkey: authors[0], Kind: 1, CreatedAt: int64(i), Tags: []mocrelay.Tag{}, Content: fmt.Sprint("victim", i)}
			gen.Seal(e)
			if pub.put(&mocrelay.ClientEventMsg{Event: e}, stepTimeout) != nil {
				setFail("publisher EVENT not taken")
				break
			}
			if _, ok := pub.next(stepTimeout); !ok {
				setFail("publisher got no OK")
				break
			}
			// the EOSE was received before the EVENT was sent => must deliver
			deadline := time.Now().Add(5 * time.Second)
			got := false
			for time.Now().Before(deadline) {
				m, ok := victim.next(time.Until(deadline))
				if !ok {
					break
				}
				if em, is := m.(*mocrelay.ServerEventMsg); is && em.Event.ID == e.ID && em.SubscriptionID == sid {
					got = true
					break
				}
			}
			if !got {
				setFail(fmt.Sprintf("iteration %d: subscription %s had received its EOSE before event %s was sent, but the event was not delivered within 5 s", i, sid, gen.Short(e.ID)))
			}
			if i%3 == 2 {
				victim.put(&mocrelay.ClientCloseMsg{SubscriptionID: sid}, stepTimeout)
			}
		}
		stop.Store(true)
		wg.Wait()
		if failMsg != "" {
			hx.Fail(t, ev.Failure{Property: "C07", Signature: "concurrent-delivery-missing", Clause: "real-time rule under registry churn: EOSE received before the EVENT was sent => the subscription receives it", Case: desc, Observed: failMsg})
		}
		col.Label("mode:churn")
		col.Add("churn_iterations", int64(iters))
		col.Case(true, hx.JSON(desc), func() any { return desc })
	})
}

// TestC07BacklogSiblingClose: a subscriber with several subscriptions is behind
// (its deliveries wait in the connection's buffer, which is large enough to hold
// all of them) and gives up subscriptions one by one while a publisher keeps
// publishing. The subscription it keeps must still receive every event, once and
// in publication order: nothing was beyond the configured buffer.
func TestC07BacklogSiblingClose(t *testing.T) {
	col := ev.For("C07").SetRule(c07Rule)
	rapid.Check(t, func(t *rapid.T) {
		ndrop := rapid.IntRange(1, 4).Draw(t, "dropped_subscriptions")
		n1 := rapid.IntRange(5, 60).Draw(t, "events_before")
		n2 := rapid.IntRange(20, 200).Draw(t, "events_during")
		b := (n1+n2)*(ndrop+1) + 16 // every delivery fits: nothing may be dropped
		router := mocrelay.NewRouterHandler(b)
		authors := gen.Pubkeys(2)
		// the last one may be replaced by a REQ that matches nothing instead of being closed (only
		// one: a connection that does not read cannot expect further input to be taken once a
		// reply is waiting for it)
		replace := rapid.Bool().Draw(t, "replace_last_instead_of_close")
		desc := map[string]any{"mode": "backlog-sibling-close", "buflen": b, "dropped_subscriptions": ndrop, "events_before": n1, "events_during": n2, "replace_last": replace}
		failf := func(sig, clause, obs, exp string) {
			hx.Fail(t, ev.Failure{Property: "C07", Signature: sig, Clause: clause, Case: desc, Observed: obs, Expected: exp})
		}
		s := newRConn(0, router)
		defer s.end(false)
		p := newRConn(1, router)
		defer p.end(false)
		ids := []string{"keep"}
		for i := 0; i < ndrop; i++ {
			ids = append(ids, fmt.Sprintf("drop%d", i))
		}
		for _, id := range ids {
			if err := s.put(&mocrelay.ClientReqMsg{SubscriptionID: id, ReqFilters: []*mocrelay.ReqFilter{{Kinds: []int64{1}}}}, stepTimeout); err != nil {
				failf("stalled", "REQ is taken", err.Error(), "")
			}
			if m, ok := s.next(stepTimeout); !ok {
				failf("no-eose", "every REQ is answered by EOSE", "no EOSE", "")
			} else if _, is := m.(*mocrelay.ServerEOSEMsg); !is {
				failf("no-eose", "every REQ is answered by EOSE", hx.JSON(briefServer(m)), "EOSE")
			}
		}
		s.stall.Store(true)
		time.Sleep(2500 * time.Microsecond)
		var want []string
		publish := func(k int) string {
			e := &mocrelay.Event{Pubkey: authors[0], Kind: 1, CreatedAt: int64(1000 + k), Tags: []mocrelay.Tag{}, Content: fmt.Sprint("backlog", k)}
			gen.Seal(e)
			if err := p.put(&mocrelay.ClientEventMsg{Event: e}, 10*time.Second); err != nil {
				return "EVENT not taken: " + err.Error()
			}
			if m, ok := p.next(10 * time.Second); !ok {
				return "no OK"
			} else if o, is := m.(*mocrelay.ServerOKMsg); !is || !o.Accepted {
				return "not an accepting OK: " + hx.JSON(briefServer(m))
			}
			want = append(want, e.ID)
			return ""
		}
		for k := 0; k < n1; k++ {
			if why := publish(k); why != "" {
				failf("publisher-delayed", "a subscriber that stops reading never delays publishers", why, "")
			}
		}
		// the publisher goes on while the subscriber gives subscriptions up
		perr := make(chan string, 1)
		progress := make(chan int, n2)
		go func() {
			for k := n1; k < n1+n2; k++ {
				if why := publish(k); why != "" {
					perr <- why
					return
				}
				progress <- k
			}
			perr <- ""
		}()
		for i := 0; i < ndrop; i++ {
			// after a few more publications
			for j, w := 0, rapid.IntRange(1, 6).Draw(t, fmt.Sprintf("gap%d", i)); j < w; j++ {
				select {
				case <-progress:
				case <-time.After(10 * time.Second):
				}
			}
			var m mocrelay.ClientMsg = &mocrelay.ClientCloseMsg{SubscriptionID: ids[i+1]}
			if replace && i == ndrop-1 {
				m = &mocrelay.ClientReqMsg{SubscriptionID: ids[i+1], ReqFilters: []*mocrelay.ReqFilter{{Kinds: []int64{7}}}}
			}
			if err := s.put(m, 10*time.Second); err != nil {
				failf("stalled", "the router takes a CLOSE / REQ from a connection that is behind", err.Error(), "")
			}
		}
		if why := <-perr; why != "" {
			failf("publisher-delayed", "a subscriber that stops reading never delays publishers", why, "")
		}
		s.stall.Store(false)
		var keep []string
		for len(keep) < len(want) {
			m, ok := s.next(3 * time.Second)
			if !ok {
				break
			}
			if em, is := m.(*mocrelay.ServerEventMsg); is && em.SubscriptionID == "keep" {
				keep = append(keep, em.Event.ID)
			}
		}
		if hx.JSON(keep) != hx.JSON(want) {
			first := 0
			for first < len(keep) && first < len(want) && keep[first] == want[first] {
				first++
			}
			failf("backlog-order", "events of one publisher reach a given subscription in publication order, each exactly once; only deliveries beyond the configured buffer are dropped (here none)",
				fmt.Sprintf("%d of %d received; first difference at position %d", len(keep), len(want), first), "all, in publication order")
		}
		col.Label("mode:backlog-sibling-close")
		col.Case(true, hx.JSON(desc), func() any { return desc })
	})
}

// TestC07Scale: (a) more connections than any page, shard or bit set of a registry is likely
// to hold (65-300 subscribers, each event exactly once per open matching subscription);
// (b) one connection that opens and closes hundreds of subscriptions (a closed one never
// receives anything again, the one that stays open receives everything).
func TestC07Scale(t *testing.T) {
	col := ev.For("C07").SetRule(c07Rule)
	rapid.Check(t, func(t *rapid.T) {
		authors := gen.Pubkeys(2)
		if rapid.Bool().Draw(t, "many_connections") {
			n := rapid.SampledFrom([]int{63, 64, 65, 66, 100, 128, 129, 257, 300}).Draw(t, "subscribers")
			m := rapid.IntRange(3, 12).Draw(t, "events")
			router := mocrelay.NewRouterHandler(m + 4)
			desc := map[string]any{"mode": "scale: many connections", "subscribers": n, "events": m}
			failf := func(sig, clause, obs string) {
				hx.Fail(t, ev.Failure{Property: "C07", Signature: sig, Clause: clause, Case: desc, Observed: obs})
			}
			conns := make([]*rconn, n)
			for i := range conns {
				c := newRConn(i, router)
				defer c.end(false)
				conns[i] = c
				// every third subscriber only wants kind 7
				k := int64(1)
				if i%3 == 2 {
					k = 7
				}
				if err := c.put(&mocrelay.ClientReqMsg{SubscriptionID: fmt.Sprint("s", i), ReqFilters: []*mocrelay.ReqFilter{{Kinds: []int64{k}}}}, stepTimeout); err != nil {
					failf("stalled", "REQ is taken", err.Error())
				}
				if m, ok := c.next(stepTimeout); !ok {
					failf("no-eose", "every REQ is answered by EOSE", "no EOSE")
				} else if _, is := m.(*mocrelay.ServerEOSEMsg); !is {
					failf("no-eose", "every REQ is answered by EOSE", hx.JSON(briefServer(m)))
				}
			}
			p := newRConn(100000, router)
			defer p.end(false)
			var want1, want7 []string
			for k := 0; k < m; k++ {
				kind := int64(1)
				if k%4 == 3 {
					kind = 7
				}
				e := &mocrelay.Event{Pubkey: authors[0], Kind: kind, CreatedAt: int64(1000 + k), Tags: []mocrelay.Tag{}, Content: fmt.Sprint("scale", k)}
				gen.Seal(e)
				if err := p.put(&mocrelay.ClientEventMsg{Event: e}, stepTimeout); err != nil {
					failf("stalled", "EVENT is taken", err.Error())
				}
				if _, ok := p.next(stepTimeout); !ok {
					failf("ok-missing", "every EVENT is answered by an accepting OK", "no OK")
				}
				if kind == 1 {
					want1 = append(want1, e.ID)
				} else {
					want7 = append(want7, e.ID)
				}
			}
			for i, c := range conns {
				want := want1
				if i%3 == 2 {
					want = want7
				}
				var got []string
				for len(got) < len(want) {
					msg, ok := c.next(2 * time.Second)
					if !ok {
						break
					}
					if em, is := msg.(*mocrelay.ServerEventMsg); is {
						if em.SubscriptionID != fmt.Sprint("s", i) {
							failf("delivery-extra", "deliveries are labelled with the subscription's own id", hx.JSON(briefServer(msg)))
						}
						got = append(got, em.Event.ID)
					}
				}
				if extra, ok := c.next(3 * time.Millisecond); ok {
					failf("delivery-extra", "every open matching subscription receives a published event exactly once", fmt.Sprintf("subscriber %d of %d got an extra message %s", i, n, hx.JSON(briefServer(extra))))
				}
				if hx.JSON(got) != hx.JSON(want) {
					failf("delivery-missing", "every subscription of any connection that was open and matches receives the event exactly once, in publication order", fmt.Sprintf("subscriber %d of %d received %d of %d events: %s", i, n, len(got), len(want), hx.JSON(gen.ShortAll(got))))
				}
			}
			col.Label("mode:scale-connections")
			col.Case(n > 64, hx.JSON(desc), func() any { return desc })
			return
		}
		cycles := rapid.SampledFrom([]int{255, 256, 257, 300, 520, 1030}).Draw(t, "cycles")
		router := mocrelay.NewRouterHandler(8)
		desc := map[string]any{"mode": "scale: REQ/CLOSE cycles on one connection", "cycles": cycles}
		failf := func(sig, clause, obs string) {
			hx.Fail(t, ev.Failure{Property: "C07", Signature: sig, Clause: clause, Case: desc, Observed: obs})
		}
		s := newRConn(0, router)
		defer s.end(false)
		p := newRConn(1, router)
		defer p.end(false)
		req := func(id string) {
			if err := s.put(&mocrelay.ClientReqMsg{SubscriptionID: id, ReqFilters: []*mocrelay.ReqFilter{{Kinds: []int64{1}}}}, stepTimeout); err != nil {
				failf("stalled", "REQ is taken", err.Error())
			}
			if m, ok := s.next(stepTimeout); !ok {
				failf("no-eose", "every REQ is answered by EOSE", "no EOSE")
			} else if _, is := m.(*mocrelay.ServerEOSEMsg); !is {
				failf("no-eose", "every REQ is answered by EOSE", hx.JSON(briefServer(m)))
			}
		}
		req("control")
		checkEvery := rapid.SampledFrom([]int{1, 7, 64}).Draw(t, "check_every")
		for i := 0; i < cycles; i++ {
			id := fmt.Sprint("view-", i)
			req(id)
			if err := s.put(&mocrelay.ClientCloseMsg{SubscriptionID: id}, stepTimeout); err != nil {
				failf("stalled", "CLOSE is taken", err.Error())
			}
			if i%checkEvery != 0 && i != cycles-1 {
				continue
			}
			// CLOSE has no reply: a COUNT round trip on the same connection orders the check behind it
			if err := s.put(&mocrelay.ClientCountMsg{SubscriptionID: "sync", ReqFilters: []*mocrelay.ReqFilter{{}}}, stepTimeout); err != nil {
				failf("stalled", "COUNT is taken", err.Error())
			}
			if _, ok := s.next(stepTimeout); !ok {
				failf("stalled", "COUNT is answered", "no COUNT reply")
			}
			e := &mocrelay.Event{Pubkey: authors[0], Kind: 1, CreatedAt: int64(1000 + i), Tags: []mocrelay.Tag{}, Content: fmt.Sprint("cycle", i)}
			gen.Seal(e)
			if err := p.put(&mocrelay.ClientEventMsg{Event: e}, stepTimeout); err != nil {
				failf("stalled", "EVENT is taken", err.Error())
			}
			if _, ok := p.next(stepTimeout); !ok {
				failf("ok-missing", "every EVENT is answered by an accepting OK", "no OK")
			}
			m, ok := s.next(stepTimeout)
			em, is := m.(*mocrelay.ServerEventMsg)
			if !ok || !is || em.SubscriptionID != "control" || em.Event.ID != e.ID {
				failf("delivery-missing", "the subscription that stays open receives every event", fmt.Sprintf("after cycle %d: %s", i, hx.JSON(briefServer(m))))
			}
			if extra, ok := s.next(2 * time.Millisecond); ok {
				failf("delivery-extra", "no subscription that was closed before receives the event", fmt.Sprintf("after cycle %d (CLOSE %s): %s", i, id, hx.JSON(briefServer(extra))))
			}
		}
		col.Label("mode:scale-cycles")
		col.Case(cycles > 256, hx.JSON(desc), func() any { return desc })
	})
}

// TestC07SimultaneousPublishers: two (or three) publishers send one event each at the same
// moment, with a small generated offset, to a subscriber that is idle; nothing else happens
// afterwards. Every event must arrive all the same: a delivery must not depend on a later
// event waking the connection up. Thousands of rounds per case, free-running.
func TestC07SimultaneousPublishers(t *testing.T) {
	col := ev.For("C07").SetRule(c07Rule)
	rapid.Check(t, func(t *rapid.T) {
		np := rapid.IntRange(2, 3).Draw(t, "publishers")
		rounds := rapid.IntRange(1000, 4000).Draw(t, "rounds")
		// the buffer holds a whole round: nothing is "beyond the configured buffer"
		buflen := rapid.SampledFrom([]int{np, 4, 16}).Draw(t, "buflen")
		twoTags := rapid.Bool().Draw(t, "tag_filter")
		router := mocrelay.NewRouterHandler(buflen)
		authors := gen.Pubkeys(3)
		desc := map[string]any{"mode": "simultaneous publishers, idle subscriber", "publishers": np, "rounds": rounds, "buflen": buflen, "tag_filter": twoTags}
		failf := func(sig, clause, obs string) {
			hx.Fail(t, ev.Failure{Property: "C07", Signature: sig, Clause: clause, Case: desc, Observed: obs})
		}
		type conn struct {
			recv chan mocrelay.ClientMsg
			send chan mocrelay.ServerMsg
		}
		start := func() *conn {
			c := &conn{recv: make(chan mocrelay.ClientMsg), send: make(chan mocrelay.ServerMsg)}
			ctx, cancel := context.WithCancel(context.Background())
			t.Cleanup(cancel)
			go router.ServeNostr(ctx, c.send, c.recv)
			return c
		}
		sub := start()
		f := &mocrelay.ReqFilter{Kinds: []int64{1}}
		if twoTags {
			f = &mocrelay.ReqFilter{Tags: map[string][]string{"e": {gen.FakeID(1)}, "p": {authors[0]}}}
		}
		sub.recv <- &mocrelay.ClientReqMsg{SubscriptionID: "s", ReqFilters: []*mocrelay.ReqFilter{f}}
		if _, is := (<-sub.send).(*mocrelay.ServerEOSEMsg); !is {
			failf("no-eose", "every REQ is answered by EOSE", "first message is not EOSE")
		}
		pubs := make([]*conn, np)
		for i := range pubs {
			pubs[i] = start()
		}
		gates := make([]chan *mocrelay.Event, np)
		acks := make(chan string, np)
		for i := range pubs {
			gates[i] = make(chan *mocrelay.Event)
			go func(i int) {
				for e := range gates[i] {
					pubs[i].recv <- &mocrelay.ClientEventMsg{Event: e}
					m := <-pubs[i].send
					if o, is := m.(*mocrelay.ServerOKMsg); !is || !o.Accepted || o.EventID != e.ID {
						acks <- "not an accepting OK: " + hx.JSON(briefServer(m))
					} else {
						acks <- ""
					}
				}
			}(i)
		}
		defer func() {
			for _, g := range gates {
				close(g)
			}
		}()
		for r := 0; r < rounds; r++ {
			want := map[string]bool{}
			evs := make([]*mocrelay.Event, np)
			for i := range pubs {
				e := &mocrelay.Event{Pubkey: authors[i], Kind: 1, CreatedAt: int64(r), Tags: []mocrelay.Tag{{"e", gen.FakeID(1)}, {"p", authors[0]}}, Content: fmt.Sprint("r", r, "p", i)}
				gen.Seal(e)
				evs[i] = e
				want[e.ID] = true
			}
			// a different offset every round: the second publisher fires 0-40 spins after the first
			spin := (r * 7) % 41
			for i := range pubs {
				gates[i] <- evs[i]
				for k := 0; k < spin*i; k++ {
					runtime.Gosched()
				}
			}
			for range pubs {
				if why := <-acks; why != "" {
					failf("ok-wrong", "every EVENT is answered by an accepting OK", why)
				}
			}
			for len(want) > 0 {
				select {
				case m := <-sub.send:
					em, is := m.(*mocrelay.ServerEventMsg)
					if !is || !want[em.Event.ID] || em.SubscriptionID != "s" {
						failf("delivery-extra", "every open matching subscription receives a published event exactly once", fmt.Sprintf("round %d: %s", r, hx.JSON(briefServer(m))))
					}
					delete(want, em.Event.ID)
				case <-time.After(2 * time.Second):
					failf("delivery-missing", "every subscription that was open and matches receives the event (both publishers have their OK, the subscriber is idle and reading, nothing else is published)",
						fmt.Sprintf("round %d of %d: %d of %d events not delivered within 2 s", r, rounds, len(want), np))
				}
			}
		}
		col.Label("mode:simultaneous-publishers")
		col.Case(true, hx.JSON(desc), func() any { return desc })
	})
}

// TestC07FireAndForget: a publisher hands its EVENT over and hangs up at once, without waiting
// for the OK (a script that posts and exits). The router has taken the event, so every
// subscription that was open and matches receives it.
func TestC07FireAndForget(t *testing.T) {
	col := ev.For("C07").SetRule(c07Rule)
	rapid.Check(t, func(t *rapid.T) {
		nsub := rapid.IntRange(1, 12).Draw(t, "subscribers")
		rounds := rapid.IntRange(50, 400).Draw(t, "rounds")
		how := rapid.SampledFrom([]string{"cancel", "close-inbound"}).Draw(t, "publisher_ends_by")
		router := mocrelay.NewRouterHandler(4)
		authors := gen.Pubkeys(1)
		desc := map[string]any{"mode": "fire-and-forget publisher", "subscribers": nsub, "rounds": rounds, "publisher_ends_by": how}
		failf := func(sig, clause, obs string) {
			hx.Fail(t, ev.Failure{Property: "C07", Signature: sig, Clause: clause, Case: desc, Observed: obs})
		}
		subs := make([]chan mocrelay.ServerMsg, nsub)
		for i := range subs {
			recv := make(chan mocrelay.ClientMsg)
			send := make(chan mocrelay.ServerMsg)
			ctx, cancel := context.WithCancel(context.Background())
			t.Cleanup(cancel)
			go router.ServeNostr(ctx, send, recv)
			recv <- &mocrelay.ClientReqMsg{SubscriptionID: fmt.Sprint("s", i), ReqFilters: []*mocrelay.ReqFilter{{Kinds: []int64{1}}}}
			if _, is := (<-send).(*mocrelay.ServerEOSEMsg); !is {
				failf("no-eose", "every REQ is answered by EOSE", "first message is not EOSE")
			}
			subs[i] = send
		}
		for r := 0; r < rounds; r++ {
			e := &mocrelay.Event{Pubkey: authors[0], Kind: 1, CreatedAt: int64(r), Tags: []mocrelay.Tag{}, Content: fmt.Sprint("fire-and-forget ", r)}
			gen.Seal(e)
			ctx, cancel := context.WithCancel(context.Background())
			recv := make(chan mocrelay.ClientMsg)
			send := make(chan mocrelay.ServerMsg, 1)
			ret := make(chan error, 1)
			go func() { ret <- router.ServeNostr(ctx, send, recv) }()
			select {
			case recv <- &mocrelay.ClientEventMsg{Event: e}:
			case <-time.After(stepTimeout):
				failf("stalled", "the router takes an EVENT", fmt.Sprintf("round %d", r))
			}
			if how == "cancel" {
				cancel()
			} else {
				close(recv)
			}
			for i, s := range subs {
				select {
				case m := <-s:
					em, is := m.(*mocrelay.ServerEventMsg)
					if !is || em.Event.ID != e.ID || em.SubscriptionID != fmt.Sprint("s", i) {
						failf("delivery-extra", "deliveries are the published event labelled with the subscription's id", fmt.Sprintf("round %d, subscriber %d: %s", r, i, hx.JSON(briefServer(m))))
					}
				case <-time.After(2 * time.Second):
					failf("delivery-missing", "every subscription that was open and matches receives an event the router has taken (the publisher hung up right after handing it over)", fmt.Sprintf("round %d: subscriber %d of %d did not receive the event within 2 s", r, i, nsub))
				}
			}
			cancel()
			select {
			case <-ret:
			case <-time.After(stepTimeout):
				failf("stalled", "the publisher's session ends", fmt.Sprintf("round %d", r))
			}
		}
		col.Label("mode:fire-and-forget")
		col.Case(true, hx.JSON(desc), func() any { return desc })
	})
}
