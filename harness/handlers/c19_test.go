package handlers

import (
	"context"
	"fmt"
	"runtime"
	"sort"
	"strconv"
	"strings"
	"sync"
	"sync/atomic"
	"testing"
	"time"

	"github.com/high-moctane/mocrelay"
	mocprom "github.com/high-moctane/mocrelay/middleware/prometheus"
	"github.com/prometheus/client_golang/prometheus"
	"pgregory.net/rapid"

	"verifharness/ev"
	"verifharness/gen"
	"verifharness/hx"
)

const c19Rule = "cases = a fresh Prometheus registry and one metrics middleware serving 1-4 sessions driven by one generated global schedule (or concurrently): client messages of all 5 types over sub ids {a,b,c}, downstream server messages of all 7 types incl. CLOSED for open and unknown ids, sessions starting late and ending (cancel or inbound close) with subscriptions open; after every step (barrier echo = quiescent point) Registry.Gather() must equal the model: connection gauge = live sessions, subscription gauge = sum over live sessions of ids opened by REQ and not ended by CLOSE/CLOSED, per-type recv/send counters and per-kind event counter = tallies of what crossed (the harness's own barrier CLOSE / marker NOTICE messages included); pass-through is pointer-equal and ordered; non-trivial = history has a repeated REQ of an open id, a server CLOSED of an open id and a session ending with >= 1 open subscription; distinct by hash of the schedule"

type promModel struct {
	conns   int
	open    map[int]map[string]bool
	recv    map[string]float64
	send    map[string]float64
	kinds   map[string]float64
	mu      sync.Mutex
	sawReRe bool
	sawSrvC bool
	sawEnd  bool
}

func newPromModel() *promModel {
	return &promModel{open: map[int]map[string]bool{}, recv: map[string]float64{}, send: map[string]float64{}, kinds: map[string]float64{}}
}

func (m *promModel) reqCount() int {
	n := 0
	for _, s := range m.open {
		n += len(s)
	}
	return n
}

func gatherProm(reg *prometheus.Registry) (gauges map[string]float64, vecs map[string]map[string]float64, err error) {
	fams, err := reg.Gather()
	if err != nil {
		return nil, nil, err
	}
	gauges = map[string]float64{}
	vecs = map[string]map[string]float64{}
	for _, f := range fams {
		for _, mt := range f.GetMetric() {
			if g := mt.GetGauge(); g != nil {
				gauges[f.GetName()] = g.GetValue()
			}
			if c := mt.GetCounter(); c != nil {
				if vecs[f.GetName()] == nil {
					vecs[f.GetName()] = map[string]float64{}
				}
				lab := ""
				for _, lp := range mt.GetLabel() {
					lab += lp.GetValue()
				}
				vecs[f.GetName()][lab] = c.GetValue()
			}
		}
	}
	return
}

func cmpVec(name string, want, got map[string]float64) string {
	keys := map[string]bool{}
	for k, v := range want {
		if v != 0 {
			keys[k] = true
		}
	}
	for k := range got {
		keys[k] = true
	}
	// a nil message (the "nothing to say" value the helpers drop) is no message of any
	// type: how it is tallied is not claimed
	delete(keys, "UNDEFINED")
	var ks []string
	for k := range keys {
		ks = append(ks, k)
	}
	sort.Strings(ks)
	for _, k := range ks {
		if want[k] != got[k] {
			return fmt.Sprintf("%s{%s} = %v, model says %v", name, k, got[k], want[k])
		}
	}
	return ""
}

func (m *promModel) compare(reg *prometheus.Registry) string {
	gauges, vecs, err := gatherProm(reg)
	if err != nil {
		return "Gather failed: " + err.Error()
	}
	if g := gauges["mocrelay_connection_count"]; g != float64(m.conns) {
		return fmt.Sprintf("mocrelay_connection_count = %v, live sessions = %d", g, m.conns)
	}
	if g := gauges["mocrelay_req_count"]; g != float64(m.reqCount()) {
		return fmt.Sprintf("mocrelay_req_count = %v, open subscriptions = %d", g, m.reqCount())
	}
	if why := cmpVec("mocrelay_recv_msg_total", m.recv, vecs["mocrelay_recv_msg_total"]); why != "" {
		return why
	}
	if why := cmpVec("mocrelay_send_msg_total", m.send, vecs["mocrelay_send_msg_total"]); why != "" {
		return why
	}
	if why := cmpVec("mocrelay_recv_event_total", m.kinds, vecs["mocrelay_recv_event_total"]); why != "" {
		return why
	}
	return ""
}

type c19Op struct {
	Sess int    `json:"s"`
	Kind string `json:"op"` // START END-CANCEL END-CLOSE REQ CLOSE COUNT EVENT AUTH SRV-<type>
	ID   string `json:"id,omitempty"`
	K    int64  `json:"kind,omitempty"`
}

func (m *promModel) applyClient(sess int, op c19Op) {
	m.mu.Lock()
	defer m.mu.Unlock()
	m.recv[op.Kind]++
	m.recv["CLOSE"]++ // the barrier
	m.send["NOTICE"]++
	switch op.Kind {
	case "REQ":
		if m.open[sess][op.ID] {
			m.sawReRe = true
		}
		m.open[sess][op.ID] = true
	case "CLOSE":
		delete(m.open[sess], op.ID)
	case "EVENT":
		m.kinds[strconv.FormatInt(op.K, 10)]++
	}
}

func (m *promModel) applyServer(sess int, op c19Op) {
	m.mu.Lock()
	defer m.mu.Unlock()
	if op.Kind != "SRV-NIL" {
		m.send[op.Kind[4:]]++
	}
	m.send["NOTICE"]++ // the marker
	if op.Kind == "SRV-CLOSED" {
		if m.open[sess][op.ID] {
			m.sawSrvC = true
		}
		delete(m.open[sess], op.ID)
	}
}

func c19ClientMsg(op c19Op) mocrelay.ClientMsg {
	switch op.Kind {
	case "REQ":
		return &mocrelay.ClientReqMsg{SubscriptionID: op.ID, ReqFilters: []*mocrelay.ReqFilter{{}}}
	case "CLOSE":
		return &mocrelay.ClientCloseMsg{SubscriptionID: op.ID}
	case "COUNT":
		return &mocrelay.ClientCountMsg{SubscriptionID: op.ID, ReqFilters: []*mocrelay.ReqFilter{{}}}
	case "EVENT", "AUTH":
		e := &mocrelay.Event{Pubkey: gen.Keys[0].Pub, Kind: op.K, CreatedAt: 1, Content: op.ID}
		gen.Seal(e)
		if op.Kind == "AUTH" {
			return &mocrelay.ClientAuthMsg{Event: e}
		}
		return &mocrelay.ClientEventMsg{Event: e}
	}
	panic(op.Kind)
}

func c19ServerMsg(op c19Op) mocrelay.ServerMsg {
	switch op.Kind {
	case "SRV-EOSE":
		return mocrelay.NewServerEOSEMsg(op.ID)
	case "SRV-EVENT":
		e := &mocrelay.Event{Pubkey: gen.Keys[0].Pub, Kind: 1, CreatedAt: 1, Content: op.ID}
		gen.Seal(e)
		return mocrelay.NewServerEventMsg(op.ID, e)
	case "SRV-NOTICE":
		return mocrelay.NewServerNoticeMsg("n" + op.ID)
	case "SRV-OK":
		return mocrelay.NewServerOKMsg(gen.FakeID(1), true, "", "")
	case "SRV-AUTH":
		return &mocrelay.ServerAuthMsg{Challenge: "c"}
	case "SRV-COUNT":
		return mocrelay.NewServerCountMsg(op.ID, 3, nil)
	case "SRV-CLOSED":
		return mocrelay.NewServerClosedMsg(op.ID, "", "bye")
	case "SRV-NIL":
		return nil // the handler has nothing to say: dropped on the way, the session goes on
	}
	panic(op.Kind)
}

// ids of more than 64 bytes that agree in their first 64 (a pubkey followed by a name)
var c19LongID = strings.Repeat("7f", 32)

func c19DrawOp(t *rapid.T, label string, sess int) c19Op {
	kinds := []string{"REQ", "REQ", "REQ", "CLOSE", "CLOSE", "COUNT", "EVENT", "EVENT", "AUTH",
		"SRV-EOSE", "SRV-EVENT", "SRV-NOTICE", "SRV-OK", "SRV-AUTH", "SRV-COUNT", "SRV-CLOSED", "SRV-CLOSED", "SRV-NIL"}
	op := c19Op{Sess: sess, Kind: rapid.SampledFrom(kinds).Draw(t, label+"op")}
	op.ID = rapid.SampledFrom([]string{"a", "b", "c", "", c19LongID + ":home", c19LongID + ":mentions", c19LongID}).Draw(t, label+"id")
	if op.Kind == "EVENT" || op.Kind == "AUTH" {
		op.K = rapid.SampledFrom([]int64{0, 1, 1, 7, 30000, 65535, 65536, 65537, 70000, 4464, -1}).Draw(t, label+"k")
	}
	return op
}

func TestC19Metrics(t *testing.T) {
	col := ev.For("C19").SetRule(c19Rule)
	rapid.Check(t, func(t *rapid.T) {
		reg := prometheus.NewRegistry()
		mw := mocprom.NewPrometheusMiddleware(reg)
		rig := NewRig(func(h mocrelay.Handler) mocrelay.Handler { return mocrelay.Middleware(mw)(h) })
		model := newPromModel()
		ns := rapid.IntRange(1, 4).Draw(t, "sessions")
		sess := make([]*Sess, ns)
		var trace []c19Op
		desc := func() any { return map[string]any{"sessions": ns, "schedule": trace} }
		failf := func(sig, clause, obs string) {
			hx.Fail(t, ev.Failure{Property: "C19", Signature: sig, Clause: clause, Case: desc(), Observed: obs})
		}
		defer func() {
			for _, s := range sess {
				if s != nil {
					s.End()
				}
			}
		}()
		steps := rapid.IntRange(1, 40).Draw(t, "steps")
		for i := 0; i < steps; i++ {
			si := rapid.IntRange(0, ns-1).Draw(t, fmt.Sprintf("%d.sess", i))
			lab := fmt.Sprintf("%d.", i)
			if rapid.IntRange(0, 24).Draw(t, lab+"doa") == 0 {
				// a session whose context is already cancelled when it is handed over
				trace = append(trace, c19Op{Sess: -2, Kind: "DEAD-ON-ARRIVAL"})
				dctx, dcancel := context.WithCancel(context.Background())
				dcancel()
				dret := make(chan error, 1)
				go func() {
					dret <- rig.H.ServeNostr(dctx, make(chan mocrelay.ServerMsg), make(chan mocrelay.ClientMsg))
				}()
				select {
				case <-dret:
				case <-time.After(stepTimeout):
					failf("session-end", "a session with a cancelled context returns", "ServeNostr did not return")
				}
				// the downstream handler may or may not have been started for it
				select {
				case <-rig.Down.sessions:
				default:
				}
				if why := model.compare(reg); why != "" {
					failf("metrics-mismatch", "a session that was over before it began leaves the gauges unchanged", why)
				}
			}
			if sess[si] == nil {
				s, err := rig.Start()
				if err != nil {
					failf("session-start", "a session starts", err.Error())
				}
				sess[si] = s
				model.conns++
				model.open[si] = map[string]bool{}
				trace = append(trace, c19Op{Sess: si, Kind: "START"})
			} else if rapid.IntRange(0, 11).Draw(t, lab+"end?") == 0 {
				how := rapid.SampledFrom([]string{"END-CANCEL", "END-CLOSE"}).Draw(t, lab+"how")
				trace = append(trace, c19Op{Sess: si, Kind: how})
				var err error
				if how == "END-CANCEL" {
					err = sess[si].End()
				} else {
					err = sess[si].EndByClose()
				}
				if err != nil {
					failf("session-end", "the session ends", err.Error())
				}
				if len(model.open[si]) > 0 {
					model.sawEnd = true
				}
				sess[si] = nil
				model.conns--
				delete(model.open, si)
			} else {
				op := c19DrawOp(t, lab, si)
				trace = append(trace, op)
				if op.Kind[:3] == "SRV" {
					msg := c19ServerMsg(op)
					got, err := sess[si].Emit(msg)
					if err != nil {
						failf("stalled", "server messages pass the middleware", err.Error())
					}
					if msg == nil {
						if len(got) != 0 {
							failf("server-msg-altered", "a nil message of the handler produces nothing", hx.JSON(briefServers(got)))
						}
					} else if len(got) != 1 || got[0] != msg {
						failf("server-msg-altered", "every server message passes through unaltered", hx.JSON(briefServers(got)))
					}
					model.applyServer(si, op)
				} else {
					msg := c19ClientMsg(op)
					fwd, replies, err := sess[si].Step(msg)
					if err != nil {
						failf("stalled", "client messages pass the middleware", err.Error())
					}
					if len(fwd) != 1 || fwd[0] != msg || len(replies) != 0 {
						failf("client-msg-altered", "every client message passes through unaltered", fmt.Sprintf("forwarded=%s replies=%s", hx.JSON(briefClients(fwd)), hx.JSON(briefServers(replies))))
					}
					model.applyClient(si, op)
				}
			}
			if why := model.compare(reg); why != "" {
				failf("metrics-mismatch", "at every quiescent point the exported values equal reality", why)
			}
		}
		// end everything: both gauges must be back to zero
		for si, s := range sess {
			if s != nil {
				if len(model.open[si]) > 0 {
					model.sawEnd = true
				}
				if err := s.End(); err != nil {
					failf("session-end", "the session ends", err.Error())
				}
				sess[si] = nil
				model.conns--
				delete(model.open, si)
			}
		}
		trace = append(trace, c19Op{Sess: -1, Kind: "END-ALL"})
		if why := model.compare(reg); why != "" {
			failf("metrics-mismatch-at-end", "after all sessions ended the gauges are back to zero and the counters keep their totals", why)
		}
		col.Case(model.sawReRe && model.sawSrvC && model.sawEnd, hx.JSON(trace), desc)
	})
}

// TestC19Concurrent: sessions run their scripts in goroutines; totals are
// compared when all scripts are done and again after all sessions ended.
func TestC19Concurrent(t *testing.T) {
	col := ev.For("C19").SetRule(c19Rule)
	rapid.Check(t, func(t *rapid.T) {
		reg := prometheus.NewRegistry()
		mw := mocprom.NewPrometheusMiddleware(reg)
		rig := NewRig(func(h mocrelay.Handler) mocrelay.Handler { return mocrelay.Middleware(mw)(h) })
		model := newPromModel()
		ns := rapid.IntRange(2, 4).Draw(t, "sessions")
		scripts := make([][]c19Op, ns)
		for i := range scripts {
			n := rapid.IntRange(1, 25).Draw(t, fmt.Sprintf("s%d.len", i))
			for j := 0; j < n; j++ {
				scripts[i] = append(scripts[i], c19DrawOp(t, fmt.Sprintf("s%d.%d.", i, j), i))
			}
		}
		desc := map[string]any{"sessions": ns, "scripts": scripts, "mode": "concurrent"}
		sess := make([]*Sess, ns)
		for i := range sess {
			s, err := rig.Start()
			if err != nil {
				hx.Fail(t, ev.Failure{Property: "C19", Signature: "session-start", Clause: "a session starts", Case: desc, Observed: err.Error()})
			}
			sess[i] = s
			defer s.End()
			model.conns++
			model.open[i] = map[string]bool{}
		}
		errs := make([]string, ns)
		var wg sync.WaitGroup
		for i := range scripts {
			wg.Add(1)
			go func(i int) {
				defer wg.Done()
				for _, op := range scripts[i] {
					if op.Kind[:3] == "SRV" {
						msg := c19ServerMsg(op)
						got, err := sess[i].Emit(msg)
						if err != nil || (msg == nil && len(got) != 0) || (msg != nil && (len(got) != 1 || got[0] != msg)) {
							errs[i] = fmt.Sprintf("server message not passed unaltered: %v %s", err, hx.JSON(briefServers(got)))
							return
						}
						model.applyServer(i, op)
					} else {
						msg := c19ClientMsg(op)
						fwd, replies, err := sess[i].Step(msg)
						if err != nil || len(fwd) != 1 || fwd[0] != msg || len(replies) != 0 {
							errs[i] = fmt.Sprintf("client message not passed unaltered: %v", err)
							return
						}
						model.applyClient(i, op)
					}
				}
			}(i)
		}
		wg.Wait()
		for _, e := range errs {
			if e != "" {
				hx.Fail(t, ev.Failure{Property: "C19", Signature: "passthrough-concurrent", Clause: "every message passes through unaltered and in order", Case: desc, Observed: e})
			}
		}
		if why := model.compare(reg); why != "" {
			hx.Fail(t, ev.Failure{Property: "C19", Signature: "metrics-mismatch", Clause: "at a quiescent point the exported values equal reality (concurrent sessions)", Case: desc, Observed: why})
		}
		for i, s := range sess {
			if len(model.open[i]) > 0 {
				model.sawEnd = true
			}
			if rapid.Bool().Draw(t, fmt.Sprintf("end%d", i)) {
				s.End()
			} else {
				s.EndByClose()
			}
			model.conns--
			delete(model.open, i)
		}
		if why := model.compare(reg); why != "" {
			hx.Fail(t, ev.Failure{Property: "C19", Signature: "metrics-mismatch-at-end", Clause: "after all sessions ended the gauges are back to zero", Case: desc, Observed: why})
		}
		col.Label("mode:concurrent")
		col.Case(model.sawReRe && model.sawSrvC && model.sawEnd, hx.JSON(scripts), func() any { return desc })
	})
}

// TestC19ParallelDirections: within ONE session the client's message and the
// handler's message about the same subscription cross the middleware at the same
// moment (the client gives a subscription up while the relay ends it). Whatever
// the order, the subscription is over afterwards; pairs whose outcome depends on
// the order are followed by a serial CLOSE before the gauges are compared.
func TestC19ParallelDirections(t *testing.T) {
	col := ev.For("C19").SetRule(c19Rule)
	rapid.Check(t, func(t *rapid.T) {
		reg := prometheus.NewRegistry()
		mw := mocprom.NewPrometheusMiddleware(reg)
		rig := NewRig(func(h mocrelay.Handler) mocrelay.Handler { return mocrelay.Middleware(mw)(h) })
		model := newPromModel()
		s, err := rig.Start()
		if err != nil {
			hx.Fail(t, ev.Failure{Property: "C19", Signature: "session-start", Clause: "a session starts", Observed: err.Error()})
		}
		defer s.End()
		model.conns++
		model.open[0] = map[string]bool{}
		rounds := rapid.IntRange(50, 400).Draw(t, "rounds")
		pairs := rapid.SliceOfN(rapid.SampledFrom([]string{"CLOSE||CLOSED", "CLOSE||CLOSED", "CLOSE||CLOSED-other", "REQ||CLOSED", "CLOSE||EOSE"}), 1, 4).Draw(t, "pairs")
		ids := rapid.SliceOfN(rapid.SampledFrom([]string{"a", "b", ""}), 1, 3).Draw(t, "ids")
		desc := map[string]any{"mode": "parallel-directions", "rounds": rounds, "pairs": pairs, "ids": ids}
		failf := func(round int, sig, clause, obs string) {
			desc["failed_round"] = round
			hx.Fail(t, ev.Failure{Property: "C19", Signature: sig, Clause: clause, Case: desc, Observed: obs})
		}
		serial := func(round int, op c19Op) {
			if _, _, err := s.Step(c19ClientMsg(op)); err != nil {
				failf(round, "stalled", "client messages pass the middleware", err.Error())
			}
			model.applyClient(0, op)
		}
		for r := 0; r < rounds; r++ {
			id := ids[r%len(ids)]
			pair := pairs[r%len(pairs)]
			serial(r, c19Op{Kind: "REQ", ID: id})
			cop := c19Op{Kind: "CLOSE", ID: id}
			sop := c19Op{Kind: "SRV-CLOSED", ID: id}
			switch pair {
			case "CLOSE||CLOSED-other":
				sop.ID = id + "x"
			case "REQ||CLOSED":
				cop.Kind = "REQ"
			case "CLOSE||EOSE":
				sop.Kind = "SRV-EOSE"
			}
			cm, sm := c19ClientMsg(cop), c19ServerMsg(sop)
			fwd, got, err := s.Both(cm, sm)
			if err != nil {
				failf(r, "stalled", "messages of both directions pass the middleware", err.Error())
			}
			if len(fwd) != 1 || fwd[0] != cm || len(got) != 1 || got[0] != sm {
				failf(r, "msg-altered", "every message passes through unaltered", fmt.Sprintf("forwarded=%s received=%s", hx.JSON(briefClients(fwd)), hx.JSON(briefServers(got))))
			}
			// either order is a legal serialisation; where they differ, settle it
			model.applyClient(0, cop)
			model.applyServer(0, sop)
			if pair == "REQ||CLOSED" {
				serial(r, c19Op{Kind: "CLOSE", ID: id})
			}
			if why := model.compare(reg); why != "" {
				failf(r, "metrics-mismatch-parallel", "at a quiescent point the exported values equal reality, also when a CLOSE from the client and a CLOSED from the handler for the same subscription cross at the same moment", pair+" on "+strconv.Quote(id)+": "+why)
			}
		}
		s.End()
		model.conns--
		delete(model.open, 0)
		if why := model.compare(reg); why != "" {
			failf(rounds, "metrics-mismatch-at-end", "after the session ended the gauges are back to zero", why)
		}
		col.Label("mode:parallel-directions")
		col.Case(true, hx.JSON(desc), func() any { return desc })
	})
}

// TestC19Soak: one long session: events of more than a thousand distinct kinds (each counted
// under its own label, early ones repeated at the end) and hundreds of subscriptions opened
// and ended; the exported values are compared at checkpoints and at the end.
func TestC19Soak(t *testing.T) {
	col := ev.For("C19").SetRule(c19Rule)
	rapid.Check(t, func(t *rapid.T) {
		reg := prometheus.NewRegistry()
		mw := mocprom.NewPrometheusMiddleware(reg)
		rig := NewRig(func(h mocrelay.Handler) mocrelay.Handler { return mocrelay.Middleware(mw)(h) })
		model := newPromModel()
		s, err := rig.Start()
		if err != nil {
			hx.Fail(t, ev.Failure{Property: "C19", Signature: "session-start", Clause: "a session starts", Observed: err.Error()})
		}
		defer s.End()
		model.conns++
		model.open[0] = map[string]bool{}
		nk := rapid.SampledFrom([]int{300, 1023, 1024, 1025, 1100, 2100}).Draw(t, "distinct_kinds")
		nsub := rapid.SampledFrom([]int{50, 255, 256, 257, 600}).Draw(t, "ended_subscriptions")
		desc := map[string]any{"mode": "soak", "distinct_kinds": nk, "ended_subscriptions": nsub}
		step := 0
		do := func(op c19Op) {
			step++
			var err error
			if op.Kind[:3] == "SRV" {
				_, err = s.Emit(c19ServerMsg(op))
				model.applyServer(0, op)
			} else {
				_, _, err = s.Step(c19ClientMsg(op))
				model.applyClient(0, op)
			}
			if err != nil {
				desc["failed_step"] = step
				hx.Fail(t, ev.Failure{Property: "C19", Signature: "stalled", Clause: "messages pass the middleware", Case: desc, Observed: err.Error()})
			}
			if step%257 == 0 {
				if why := model.compare(reg); why != "" {
					desc["failed_step"] = step
					hx.Fail(t, ev.Failure{Property: "C19", Signature: "metrics-mismatch", Clause: "at every quiescent point the exported values equal reality (long session)", Case: desc, Observed: why})
				}
			}
		}
		for k := 0; k < nk; k++ {
			do(c19Op{Kind: "EVENT", ID: "x", K: int64(k)})
			if k%3 == 0 {
				do(c19Op{Kind: "EVENT", ID: "y", K: int64(k % 7)}) // the early kinds again and again
			}
		}
		for i := 0; i < nsub; i++ {
			id := fmt.Sprint("s", i)
			do(c19Op{Kind: "REQ", ID: id})
			switch i % 3 {
			case 0:
				do(c19Op{Kind: "CLOSE", ID: id})
			case 1:
				do(c19Op{Kind: "SRV-CLOSED", ID: id})
			default:
				do(c19Op{Kind: "REQ", ID: id}) // re-REQ, then close
				do(c19Op{Kind: "CLOSE", ID: id})
			}
			if i%50 == 49 {
				do(c19Op{Kind: "REQ", ID: "kept" + id}) // a few stay open until the end
			}
		}
		if why := model.compare(reg); why != "" {
			hx.Fail(t, ev.Failure{Property: "C19", Signature: "metrics-mismatch", Clause: "at every quiescent point the exported values equal reality (end of a long session)", Case: desc, Observed: why})
		}
		s.End()
		model.conns--
		delete(model.open, 0)
		if why := model.compare(reg); why != "" {
			hx.Fail(t, ev.Failure{Property: "C19", Signature: "metrics-mismatch-at-end", Clause: "after the session ended the gauges are back to zero and the counters keep their totals", Case: desc, Observed: why})
		}
		col.Label("mode:soak")
		col.Case(true, hx.JSON(desc), func() any { return desc })
	})
}

// TestC19Churn: sessions of one shared middleware start and end at the same moment, round
// after round (a wave hangs up while the next connects); some are cancelled while their
// client is still pushing REQs. At every quiescent point the connection gauge is the number
// of live sessions and the subscription gauge the number of subscriptions they hold.
func TestC19Churn(t *testing.T) {
	col := ev.For("C19").SetRule(c19Rule)
	rapid.Check(t, func(t *rapid.T) {
		reg := prometheus.NewRegistry()
		mw := mocprom.NewPrometheusMiddleware(reg)
		h := mocrelay.Middleware(mw)(mocrelay.NewRouterHandler(4)) // subscriptions stay open until CLOSE / the end
		wave := rapid.IntRange(2, 10).Draw(t, "sessions_per_wave")
		rounds := rapid.IntRange(100, 600).Draw(t, "rounds")
		pipelined := rapid.IntRange(0, 32).Draw(t, "reqs_pushed_while_ending")
		desc := map[string]any{"mode": "churn", "sessions_per_wave": wave, "rounds": rounds, "reqs_pushed_while_ending": pipelined}
		var stuck atomic.Bool
		type live struct {
			cancel context.CancelFunc
			recv   chan mocrelay.ClientMsg
			ret    chan error
			stop   chan struct{}
		}
		start := func() *live {
			ctx, cancel := context.WithCancel(context.Background())
			l := &live{cancel: cancel, recv: make(chan mocrelay.ClientMsg), ret: make(chan error, 1), stop: make(chan struct{})}
			send := make(chan mocrelay.ServerMsg)
			go func() { l.ret <- h.ServeNostr(ctx, send, l.recv) }()
			go func() { // the client reads whatever comes
				for {
					select {
					case <-send:
					case <-l.stop:
						return
					}
				}
			}()
			return l
		}
		end := func(l *live) {
			// the client is still sending when the session ends
			done := make(chan struct{})
			go func() {
				defer close(done)
				for i := 0; i < pipelined; i++ {
					select {
					case l.recv <- &mocrelay.ClientReqMsg{SubscriptionID: fmt.Sprint("p", i), ReqFilters: []*mocrelay.ReqFilter{{}}}:
					case <-time.After(200 * time.Microsecond):
						return
					}
				}
			}()
			if pipelined > 0 {
				runtime.Gosched()
			}
			l.cancel()
			select {
			case <-l.ret:
			case <-time.After(stepTimeout):
				stuck.Store(true)
			}
			<-done
			close(l.stop)
		}
		gaugesNow := func() (float64, float64) {
			g, _, _ := gatherProm(reg)
			return g["mocrelay_connection_count"], g["mocrelay_req_count"]
		}
		var cur []*live
		for r := 0; r < rounds; r++ {
			// the previous wave hangs up while the next one connects
			next := make([]*live, wave)
			var wg sync.WaitGroup
			gate := make(chan struct{})
			for i := range next {
				wg.Add(1)
				go func(i int) {
					defer wg.Done()
					<-gate
					next[i] = start()
					// one subscription each, confirmed by a COUNT round trip? no reply is needed:
					// the REQ is handed over synchronously
					select {
					case next[i].recv <- &mocrelay.ClientReqMsg{SubscriptionID: "s", ReqFilters: []*mocrelay.ReqFilter{{}}}:
					case <-time.After(stepTimeout):
						stuck.Store(true)
					}
				}(i)
			}
			for _, l := range cur {
				wg.Add(1)
				go func(l *live) {
					defer wg.Done()
					<-gate
					end(l)
				}(l)
			}
			close(gate)
			wg.Wait()
			cur = next
			// quiescent once every session's REQ has crossed the middleware: a CLOSE of an unknown
			// id handed over afterwards is taken only when the REQ before it has been processed
			for _, l := range cur {
				for k := 0; k < 2 && l != nil; k++ {
					select {
					case l.recv <- &mocrelay.ClientCloseMsg{SubscriptionID: "sync"}:
					case <-time.After(stepTimeout):
						stuck.Store(true)
					}
				}
			}
			if stuck.Load() {
				desc["failed_round"] = r
				hx.Fail(t, ev.Failure{Property: "C19", Signature: "stalled", Clause: "every client and server message passes through (sessions starting and ending at the same moment: the middleware stopped taking messages / a session did not end)", Case: desc, Observed: "no progress within 20 s"})
			}
			if c, q := gaugesNow(); c != float64(len(cur)) || q != float64(len(cur)) {
				desc["failed_round"] = r
				hx.Fail(t, ev.Failure{Property: "C19", Signature: "metrics-mismatch-churn", Clause: "at every quiescent point the connection gauge is the number of live sessions and the subscription gauge the number of subscriptions opened and not yet ended (sessions starting and ending at the same moment)",
					Case: desc, Observed: fmt.Sprintf("connection gauge %v, subscription gauge %v", c, q), Expected: fmt.Sprintf("%d live sessions with one subscription each", len(cur))})
			}
		}
		for _, l := range cur {
			end(l)
		}
		if c, q := gaugesNow(); c != 0 || q != 0 {
			hx.Fail(t, ev.Failure{Property: "C19", Signature: "metrics-mismatch-at-end", Clause: "after all sessions ended the gauges are back to zero", Case: desc, Observed: fmt.Sprintf("connection gauge %v, subscription gauge %v", c, q)})
		}
		col.Label("mode:churn")
		col.Case(true, hx.JSON(desc), func() any { return desc })
	})
}
