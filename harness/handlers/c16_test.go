package handlers

import (
	"bytes"
	"context"
	"fmt"
	"testing"
	"time"

	"github.com/high-moctane/mocrelay"
	"pgregory.net/rapid"

	"verifharness/ev"
	"verifharness/gen"
	"verifharness/hx"
	"verifharness/model"
)

const c16Rule = "cases = (i) CacheHandler: generated client message sequences (3-40 messages over all five types; events of all classes with distinct timestamps, versions, re-offers, targeted deletion requests; REQ/COUNT with generated filter lists; capacities 1-8 and 30-150) - the complete output must equal the concatenation, in request order, of: EVENT -> one OK(id, accepted iff the deterministic model newly stores it, duplicate: prefix when that very id is stored; ephemeral: exactly one OK with the id), REQ -> the model's answer labelled with the sub id then one EOSE, COUNT -> one COUNT, CLOSE/AUTH -> nothing; (ii) SQLiteHandler (EventBulkInsertNum=1): EVENT -> accepting OK, REQ -> an allowed answer over some prefix of the events submitted so far + one EOSE, and the exact model answer after the flush was observed; (iii) Dump/Restore: any history (ties allowed, caches up to 150 events), restore into a fresh handler of the same capacity, a battery + generated filter lists give identical answers and a second Dump is byte-identical; non-trivial = sequence mixing >=3 message types with >=1 rejected EVENT and >=1 non-empty REQ answer / dump of a cache that has evicted or deleted; distinct by hash of the sequence"

// driveHandler sends msgs to a storage handler and returns its complete output,
// using a final COUNT with a reserved id as end marker (storage handlers answer
// strictly in request order).
func driveHandler(h mocrelay.Handler, msgs []mocrelay.ClientMsg) ([]mocrelay.ServerMsg, error) {
	ctx, cancel := context.WithCancel(context.Background())
	defer cancel()
	recv := make(chan mocrelay.ClientMsg)
	send := make(chan mocrelay.ServerMsg)
	ret := make(chan error, 1)
	go func() { ret <- h.ServeNostr(ctx, send, recv) }()
	const endID = "~verif-end"
	all := append(append([]mocrelay.ClientMsg{}, msgs...), &mocrelay.ClientCountMsg{SubscriptionID: endID, ReqFilters: []*mocrelay.ReqFilter{{}}})
	var out []mocrelay.ServerMsg
	i := 0
	timer := time.NewTimer(stepTimeout)
	defer timer.Stop()
	for {
		var in chan mocrelay.ClientMsg
		var next mocrelay.ClientMsg
		if i < len(all) {
			in, next = recv, all[i]
		}
		select {
		case in <- next:
			i++
		case m := <-send:
			if c, ok := m.(*mocrelay.ServerCountMsg); ok && c.SubscriptionID == endID {
				cancel()
				select {
				case <-ret:
				case <-time.After(stepTimeout):
					return out, fmt.Errorf("ServeNostr did not return")
				}
				return out, nil
			}
			out = append(out, m)
		case err := <-ret:
			return out, fmt.Errorf("handler ended early: %v", err)
		case <-timer.C:
			return out, fmt.Errorf("timeout (sent %d of %d, got %d replies)", i, len(all), len(out))
		}
	}
}

func c16DrawFilters(t *rapid.T, label string, world *gen.World) []*mocrelay.ReqFilter {
	pool := gen.PoolFromEvents(world.Events, world.Authors)
	pool.MaxLimit = 5
	pool.AllowEmptyTagsMap = true
	return pool.DrawFilters(t, label, 1, 3)
}

func TestC16CacheHandlerReplies(t *testing.T) {
	col := ev.For("C16").SetRule(c16Rule)
	col.Assume("cache replies are compared with a deterministic model: generated timestamps are pairwise distinct, no d-less addressable events, no address references to replaceable events")
	rapid.Check(t, func(t *rapid.T) {
		capacity := rapid.OneOf(rapid.IntRange(1, 8), rapid.IntRange(30, 150)).Draw(t, "cap")
		world := &gen.World{Authors: gen.Pubkeys(2)}
		cfg := &gen.StoreCfg{World: world, TsBase: 1000, TsSpan: 4096, UniqueTs: true, NoNoD: true, NoOpenRefs: true}
		h := mocrelay.NewCacheHandler(capacity)
		m := model.NewDetStore(capacity)
		n := rapid.IntRange(3, 40).Draw(t, "nmsgs")
		var msgs []mocrelay.ClientMsg
		var want [][]any
		var briefs []any
		types := map[string]bool{}
		rejected, nonEmptyReq := false, false
		for i := 0; i < n; i++ {
			lab := fmt.Sprintf("m%d.", i)
			switch k := rapid.IntRange(0, 19).Draw(t, lab+"type"); {
			case k < 11:
				var e *mocrelay.Event
				op := rapid.IntRange(0, 9).Draw(t, lab+"op")
				switch {
				case op < 5 || len(world.Events) == 0:
					e = cfg.DrawEvent(t)
				case op < 7:
					e = cfg.DrawVersion(t)
				case op < 9:
					e = gen.CloneEvent(rapid.SampledFrom(world.Events).Draw(t, lab+"reoffer"))
				default:
					e = drawTargetedKind5H(t, cfg, world.Events)
				}
				msgs = append(msgs, &mocrelay.ClientEventMsg{Event: e})
				types["EVENT"] = true
				switch {
				case gen.ClassOf(e.Kind) == gen.Ephemeral:
					m.Add(e)
					want = append(want, []any{"OK", e.ID, "any"})
				case m.Has(e.ID):
					want = append(want, []any{"OK", e.ID, false, "duplicate"})
					rejected = true
				default:
					acc := m.Add(e)
					want = append(want, []any{"OK", e.ID, acc})
					if !acc {
						rejected = true
					}
				}
				briefs = append(briefs, map[string]any{"EVENT": gen.Brief(e)})
			case k < 16:
				fs := c16DrawFilters(t, lab, world)
				sub := rapid.SampledFrom([]string{"a", "b", "sub:1"}).Draw(t, lab+"sub")
				msgs = append(msgs, &mocrelay.ClientReqMsg{SubscriptionID: sub, ReqFilters: fs})
				types["REQ"] = true
				ans, ok := model.ExactAnswer(m.Listing(), fs)
				if !ok {
					t.Fatalf("internal: tie in a deterministic case")
				}
				for _, e := range ans {
					want = append(want, []any{"EVENT", sub, e.ID})
				}
				if len(ans) > 0 {
					nonEmptyReq = true
				}
				want = append(want, []any{"EOSE", sub})
				briefs = append(briefs, map[string]any{"REQ": sub, "filters": gen.BriefFilters(fs)})
			case k < 17:
				sub := rapid.SampledFrom([]string{"a", "c"}).Draw(t, lab+"sub")
				msgs = append(msgs, &mocrelay.ClientCountMsg{SubscriptionID: sub, ReqFilters: []*mocrelay.ReqFilter{{}}})
				types["COUNT"] = true
				want = append(want, []any{"COUNT", sub})
				briefs = append(briefs, map[string]any{"COUNT": sub})
			case k < 19:
				sub := rapid.SampledFrom([]string{"a", "b"}).Draw(t, lab+"sub")
				msgs = append(msgs, &mocrelay.ClientCloseMsg{SubscriptionID: sub})
				types["CLOSE"] = true
				briefs = append(briefs, map[string]any{"CLOSE": sub})
			default:
				e := &mocrelay.Event{Pubkey: world.Authors[0], Kind: 22242, CreatedAt: 1, Tags: []mocrelay.Tag{}}
				gen.Seal(e)
				msgs = append(msgs, &mocrelay.ClientAuthMsg{Event: e})
				types["AUTH"] = true
				briefs = append(briefs, "AUTH")
			}
		}
		desc := map[string]any{"cap": capacity, "messages": briefs}
		out, err := driveHandler(h, msgs)
		if err != nil {
			hx.Fail(t, ev.Failure{Property: "C16", Signature: "cache-handler-stalled", Clause: "the cache handler answers every message", Case: desc, Observed: err.Error()})
		}
		var got [][]any
		for _, sm := range out {
			switch x := sm.(type) {
			case *mocrelay.ServerOKMsg:
				got = append(got, []any{"OK", x.EventID, x.Accepted, x.Message()})
			case *mocrelay.ServerEventMsg:
				got = append(got, []any{"EVENT", x.SubscriptionID, x.Event.ID})
			case *mocrelay.ServerEOSEMsg:
				got = append(got, []any{"EOSE", x.SubscriptionID})
			case *mocrelay.ServerCountMsg:
				got = append(got, []any{"COUNT", x.SubscriptionID})
			default:
				got = append(got, []any{fmt.Sprintf("%T", sm)})
			}
		}
		mismatch := func(i int, why string) {
			hx.Fail(t, ev.Failure{Property: "C16", Signature: "cache-replies", Clause: "replies come complete and in request order: " + why, Case: desc,
				Observed: fmt.Sprintf("reply %d: %s (all: %s)", i, hx.JSON(at(got, i)), hx.JSON(shortAll(got))), Expected: hx.JSON(shortOne(at(want, i)))})
		}
		for i := 0; i < len(want) || i < len(got); i++ {
			if i >= len(got) {
				mismatch(i, "a reply is missing")
			}
			if i >= len(want) {
				mismatch(i, "an extra reply")
			}
			w, g := want[i], got[i]
			if w[0] != g[0] || w[1] != g[1] {
				mismatch(i, "wrong reply type or id")
			}
			switch w[0] {
			case "OK":
				if w[2] == "any" {
					continue
				}
				if w[2] != g[2] {
					mismatch(i, "each EVENT gets one OK, accepting iff the event is newly stored")
				}
				if len(w) == 4 {
					msg := g[3].(string)
					if len(msg) < len(mocrelay.MachineReadablePrefixDuplicate) || msg[:len(mocrelay.MachineReadablePrefixDuplicate)] != mocrelay.MachineReadablePrefixDuplicate {
						mismatch(i, "a repeat of a stored event is rejected with the duplicate: prefix")
					}
				}
			case "EVENT":
				if w[2] != g[2] {
					mismatch(i, "REQ gets the stored matches labelled with its subscription id")
				}
			}
		}
		col.Label("handler:cache")
		col.Case(len(types) >= 3 && rejected && nonEmptyReq, hx.JSON(briefs), func() any { return desc })
	})
}

func at(s [][]any, i int) []any {
	if i < len(s) {
		return s[i]
	}
	return nil
}

func shortOne(a []any) []any {
	out := make([]any, len(a))
	for i, x := range a {
		if s, ok := x.(string); ok {
			out[i] = gen.Short(s)
		} else {
			out[i] = x
		}
	}
	return out
}

func shortAll(s [][]any) [][]any {
	out := make([][]any, len(s))
	for i, a := range s {
		out[i] = shortOne(a)
	}
	return out
}

func drawTargetedKind5H(t *rapid.T, cfg *gen.StoreCfg, present []*mocrelay.Event) *mocrelay.Event {
	w := cfg.World
	target := rapid.SampledFrom(present).Draw(t, "k5target")
	e := &mocrelay.Event{Kind: 5, Tags: []mocrelay.Tag{}}
	if rapid.IntRange(0, 4).Draw(t, "k5own") != 0 {
		e.Pubkey = target.Pubkey
	} else {
		e.Pubkey = rapid.SampledFrom(w.Authors).Draw(t, "k5author")
	}
	if cfg.UniqueTs {
		// reuse the generator's unique timestamps through a throw-away version draw
		tmp := cfg.DrawVersionOf(t, &mocrelay.Event{Pubkey: e.Pubkey, Kind: 1, Tags: []mocrelay.Tag{}}, "k5ts.")
		w.Events = w.Events[:len(w.Events)-1]
		e.CreatedAt = tmp.CreatedAt
	} else {
		e.CreatedAt = cfg.TsBase + rapid.Int64Range(0, cfg.TsSpan).Draw(t, "k5ts")
	}
	d, hasD := gen.DTag(target)
	var tag mocrelay.Tag
	if gen.ClassOf(target.Kind) == gen.Addressable && hasD && rapid.Bool().Draw(t, "k5byaddr") {
		tag = mocrelay.Tag{"a", gen.AddrString(target.Kind, target.Pubkey, d)}
	} else {
		tag = mocrelay.Tag{"e", target.ID}
	}
	if rapid.IntRange(0, 3).Draw(t, "k5three") == 0 {
		tag = append(tag, "wss://r.example")
	}
	e.Tags = append(e.Tags, tag)
	if rapid.IntRange(0, 3).Draw(t, "k5dup") == 0 {
		// the same target named twice, in the other form
		dup := mocrelay.Tag{tag[0], tag[1]}
		if len(tag) == 2 {
			dup = append(dup, "wss://other.example")
		}
		e.Tags = append(e.Tags, dup)
	}
	gen.Seal(e)
	w.Events = append(w.Events, e)
	return e
}

// reqAnswers runs REQs through a cache handler and returns the id lists.
func reqAnswers(h mocrelay.Handler, fss [][]*mocrelay.ReqFilter) ([][]string, error) {
	var msgs []mocrelay.ClientMsg
	for i, fs := range fss {
		msgs = append(msgs, &mocrelay.ClientReqMsg{SubscriptionID: fmt.Sprint(i), ReqFilters: fs})
	}
	out, err := driveHandler(h, msgs)
	if err != nil {
		return nil, err
	}
	res := make([][]string, len(fss))
	cur := 0
	for _, m := range out {
		switch x := m.(type) {
		case *mocrelay.ServerEventMsg:
			if x.SubscriptionID != fmt.Sprint(cur) {
				return nil, fmt.Errorf("event labelled %q while answering REQ %d", x.SubscriptionID, cur)
			}
			res[cur] = append(res[cur], x.Event.ID+fmt.Sprintf("@%d/%d/%s/%d", x.Event.CreatedAt, x.Event.Kind, x.Event.Content, len(x.Event.Tags)))
		case *mocrelay.ServerEOSEMsg:
			cur++
		}
	}
	if cur != len(fss) {
		return nil, fmt.Errorf("%d EOSE for %d REQs", cur, len(fss))
	}
	return res, nil
}

func TestC16DumpRestore(t *testing.T) {
	col := ev.For("C16").SetRule(c16Rule)
	rapid.Check(t, func(t *rapid.T) {
		capacity := rapid.OneOf(rapid.IntRange(1, 8), rapid.IntRange(60, 150)).Draw(t, "cap")
		world := &gen.World{Authors: gen.Pubkeys(2)}
		cfg := &gen.StoreCfg{World: world, TsBase: 1000, TsSpan: 7, UnicodeText: rapid.Bool().Draw(t, "unicode")}
		big := capacity >= 60
		steps := rapid.IntRange(1, 40).Draw(t, "steps")
		if big {
			steps = rapid.IntRange(capacity-10, capacity+60).Draw(t, "bigsteps")
			cfg.TsSpan = int64(rapid.IntRange(3, 40).Draw(t, "tsspan"))
		}
		h := mocrelay.NewCacheHandler(capacity)
		var msgs []mocrelay.ClientMsg
		for i := 0; i < steps; i++ {
			var e *mocrelay.Event
			op := rapid.IntRange(0, 9).Draw(t, fmt.Sprintf("%d.op", i))
			switch {
			case op < 6 || len(world.Events) == 0:
				e = cfg.DrawEvent(t)
			case op < 8:
				e = cfg.DrawVersion(t)
			default:
				e = drawTargetedKind5H(t, cfg, world.Events)
			}
			msgs = append(msgs, &mocrelay.ClientEventMsg{Event: e})
		}
		desc := map[string]any{"cap": capacity, "events": len(msgs)}
		out, err := driveHandler(h, msgs)
		if err != nil {
			hx.Fail(t, ev.Failure{Property: "C16", Signature: "cache-handler-stalled", Clause: "the cache handler answers every message", Case: desc, Observed: err.Error()})
		}
		rejected := 0
		for _, m := range out {
			if ok, is := m.(*mocrelay.ServerOKMsg); is && !ok.Accepted {
				rejected++
			}
		}
		var dump1 bytes.Buffer
		if err := h.Dump(&dump1); err != nil {
			hx.Fail(t, ev.Failure{Property: "C16", Signature: "dump-error", Clause: "Dump succeeds", Case: desc, Observed: err.Error()})
		}
		h2 := mocrelay.NewCacheHandler(capacity)
		if err := h2.Restore(bytes.NewReader(dump1.Bytes())); err != nil {
			hx.Fail(t, ev.Failure{Property: "C16", Signature: "restore-error", Clause: "Restore succeeds", Case: desc, Observed: err.Error()})
		}
		fss := [][]*mocrelay.ReqFilter{{{}}, {{Limit: gen.Ptr(int64(1))}}, {{Kinds: []int64{5}}}, {{Kinds: []int64{1}, Limit: gen.Ptr(int64(3))}}, {{Authors: world.Authors[:1]}},
			{{Until: gen.Ptr(int64(1003))}}, {{Since: gen.Ptr(int64(1004)), Limit: gen.Ptr(int64(70))}}}
		for q := 0; q < 5; q++ {
			fss = append(fss, c16DrawFilters(t, fmt.Sprintf("q%d.", q), world))
		}
		a1, err1 := reqAnswers(h, fss)
		a2, err2 := reqAnswers(h2, fss)
		if err1 != nil || err2 != nil {
			hx.Fail(t, ev.Failure{Property: "C16", Signature: "cache-handler-stalled", Clause: "REQs are answered", Case: desc, Observed: fmt.Sprint(err1, err2)})
		}
		for i := range fss {
			if hx.JSON(a1[i]) != hx.JSON(a2[i]) {
				hx.Fail(t, ev.Failure{Property: "C16", Signature: "restore-differs", Clause: "a cache restored from a dump answers every query identically",
					Case:     map[string]any{"cap": capacity, "events": briefMsgs(msgs), "filters": gen.BriefFilters(fss[i])},
					Observed: fmt.Sprintf("%d events after restore", len(a2[i])), Expected: fmt.Sprintf("%d events (original)", len(a1[i]))})
			}
		}
		var dump2 bytes.Buffer
		if err := h2.Dump(&dump2); err != nil || !bytes.Equal(dump1.Bytes(), dump2.Bytes()) {
			hx.Fail(t, ev.Failure{Property: "C16", Signature: "second-dump-differs", Clause: "dumping the restored cache gives the same dump", Case: desc, Observed: fmt.Sprintf("err=%v, %d vs %d bytes", err, dump1.Len(), dump2.Len())})
		}
		col.Label("handler:dump-restore")
		if big {
			col.Label("dump:large-cache")
		}
		col.Case(rejected > 0 || len(a1[0]) < len(msgs), hx.JSON(briefMsgs(msgs)), func() any {
			return map[string]any{"cap": capacity, "events_offered": len(msgs), "retained": len(a1[0]), "dump_bytes": dump1.Len()}
		})
	})
}

func briefMsgs(msgs []mocrelay.ClientMsg) []any {
	out := make([]any, len(msgs))
	for i, m := range msgs {
		out[i] = briefClient(m)
	}
	return out
}
