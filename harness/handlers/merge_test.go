package handlers

import (
	"context"
	"fmt"
	"os"
	"sort"
	"strings"
	"sync"
	"testing"
	"time"

	"github.com/high-moctane/mocrelay"
	"pgregory.net/rapid"

	"verifharness/ev"
	"verifharness/gen"
	"verifharness/hx"
)

// Deterministic scheduler for NewMergeHandler: every child is a scripted
// handler under harness control; the driver's atomic steps are
//   client_send(m)  - hand m to the merged handler (the merge session updates its
//                     state, then starts broadcasting; child 0 receives it)
//   child_recv(i)   - child i takes the broadcast message (only in broadcast order)
//   child_emit(i,m) - child i sends m followed by a unique NOTICE marker; NOTICEs
//                     pass the merger unchanged through the same per-child FIFO, so
//                     when the marker reaches the client the fate of m is known.
// rapid draws the step sequence, so every explored interleaving is executed
// exactly and shrinks like any other value.

const (
	c08Rule = "cases = NewMergeHandler over 2-4 scripted children driven by a generated schedule of atomic steps (client REQ/CLOSE/EVENT/COUNT, child_recv in broadcast order, child_emit of stored/live EVENTs - matching, non-matching, duplicate, out of order, over limit - EOSE, NOTICE); 6-45 steps, sub ids {a,b} re-issued only after their merged EOSE; per step the forwarded output must be what the REQ model allows: merged EOSE exactly in the step that completes the set of child EOSEs (none after CLOSE), pre-EOSE events matching/distinct/non-increasing/within a single filter's limit, post-EOSE events forwarded unchanged, sub ids preserved; non-trivial = >=2 children emitted overlapping events before the merged EOSE with >=1 drop-worthy message and >=1 live event after it; distinct by hash of the schedule"
	c09Rule = "cases = the same scheduler; children answer each EVENT with one OK (generated verdict and reason, with/without machine-readable prefix) and each COUNT with one COUNT (generated count), released in a generated interleaving with 1-6 requests in flight over 3 event ids / 2 count ids (repeats after completion and in flight); per step: an aggregated reply appears exactly in the step that delivers the last child's answer to the oldest open request of that id, accepting iff all children accepted, rejection text beginning with the first rejecting child's reason, COUNT = max; at quiescence #OK(id) == #EVENT(id); non-trivial = >=2 requests simultaneously in flight with interleaved child replies and >=1 rejection; distinct by hash of the schedule"
)

type mcmd func(ctx context.Context, send chan<- mocrelay.ServerMsg, recv <-chan mocrelay.ClientMsg)

type mchild struct {
	idx int
	cmd chan mcmd
}

func (c *mchild) ServeNostr(ctx context.Context, send chan<- mocrelay.ServerMsg, recv <-chan mocrelay.ClientMsg) error {
	for {
		select {
		case <-ctx.Done():
			return ctx.Err()
		case f := <-c.cmd:
			f(ctx, send, recv)
		}
	}
}

type mergeRig struct {
	h        mocrelay.Handler
	n        int
	children []*mchild
	recv     chan mocrelay.ClientMsg
	send     chan mocrelay.ServerMsg
	cancel   context.CancelFunc
	ret      chan error
	markers  int
	closed   bool
	closeErr error
}

func newMergeRig(n int) *mergeRig {
	r := &mergeRig{n: n, recv: make(chan mocrelay.ClientMsg), send: make(chan mocrelay.ServerMsg), ret: make(chan error, 1)}
	hs := make([]mocrelay.Handler, n)
	for i := 0; i < n; i++ {
		c := &mchild{idx: i, cmd: make(chan mcmd)}
		r.children = append(r.children, c)
		hs[i] = c
	}
	r.h = mocrelay.NewMergeHandler(hs...)
	r.start()
	return r
}

func (r *mergeRig) start() {
	r.recv, r.send, r.ret = make(chan mocrelay.ClientMsg), make(chan mocrelay.ServerMsg), make(chan error, 1)
	ctx, cancel := context.WithCancel(context.Background())
	r.cancel = cancel
	recv, send, ret := r.recv, r.send, r.ret
	go func() { ret <- r.h.ServeNostr(ctx, send, recv) }()
}

// restart ends the session (whatever is in flight) and starts a new one on the same merged handler.
func (r *mergeRig) restart() error {
	r.cancel()
	select {
	case <-r.ret:
	case <-time.After(stepTimeout):
		return fmt.Errorf("merged ServeNostr did not return after cancel")
	}
	r.start()
	return nil
}

func (r *mergeRig) close() error {
	if r.closed {
		return r.closeErr
	}
	r.closed = true
	r.cancel()
	select {
	case <-r.ret:
	case <-time.After(stepTimeout):
		r.closeErr = fmt.Errorf("merged ServeNostr did not return after cancel")
	}
	return r.closeErr
}

// clientSend hands m to the merged handler.
func (r *mergeRig) clientSend(m mocrelay.ClientMsg) error {
	select {
	case r.recv <- m:
		return nil
	case <-time.After(stepTimeout):
		return fmt.Errorf("timeout: the merged handler does not take client input")
	}
}

// childRecv makes child i take its next inbound message.
func (r *mergeRig) childRecv(i int) (mocrelay.ClientMsg, error) {
	res := make(chan mocrelay.ClientMsg, 1)
	cmd := func(ctx context.Context, send chan<- mocrelay.ServerMsg, recv <-chan mocrelay.ClientMsg) {
		select {
		case m := <-recv:
			res <- m
		case <-ctx.Done():
			res <- nil
		case <-time.After(stepTimeout):
			res <- nil
		}
	}
	select {
	case r.children[i].cmd <- cmd:
	case <-time.After(stepTimeout):
		return nil, fmt.Errorf("timeout: child %d is not running", i)
	}
	m := <-res
	if m == nil {
		return nil, fmt.Errorf("child %d did not receive the broadcast message", i)
	}
	return m, nil
}

// childEmit makes child i send msg and a marker, and returns what the client received before the marker.
func (r *mergeRig) childEmit(i int, msg mocrelay.ServerMsg) ([]mocrelay.ServerMsg, error) {
	r.markers++
	mark := fmt.Sprintf("%s%d", markerPrefix, r.markers)
	done := make(chan bool, 1)
	cmd := func(ctx context.Context, send chan<- mocrelay.ServerMsg, recv <-chan mocrelay.ClientMsg) {
		for _, m := range []mocrelay.ServerMsg{msg, mocrelay.NewServerNoticeMsg(mark)} {
			select {
			case send <- m:
			case <-ctx.Done():
				done <- false
				return
			case <-time.After(stepTimeout):
				done <- false
				return
			}
		}
		done <- true
	}
	select {
	case r.children[i].cmd <- cmd:
	case <-time.After(stepTimeout):
		return nil, fmt.Errorf("timeout: child %d is not running", i)
	}
	var out []mocrelay.ServerMsg
	timer := time.NewTimer(stepTimeout)
	defer timer.Stop()
	for {
		select {
		case m := <-r.send:
			if n, ok := m.(*mocrelay.ServerNoticeMsg); ok && n.Message == mark {
				<-done
				return out, nil
			}
			out = append(out, m)
		case <-timer.C:
			return out, fmt.Errorf("timeout waiting for marker of child %d (got %d messages)", i, len(out))
		}
	}
}

// ---- model ------------------------------------------------------------------------------------

type reqInstance struct {
	filters    []*mocrelay.ReqFilter
	eose       []bool // per child
	complete   bool   // merged EOSE expected/sent
	closed     bool
	lastTs     int64
	hasLast    bool
	seen       map[string]bool
	forwarded  int
	dropWorthy bool
	emitters   map[int]bool
	liveAfter  bool
}

type okSubmission struct {
	replies []*mocrelay.ServerOKMsg
	order   []int // child indexes in arrival order
}

type countSubmission struct {
	replies []*mocrelay.ServerCountMsg
}

type mstep struct {
	Op    string `json:"op"`
	Child int    `json:"child,omitempty"`
	Msg   any    `json:"msg,omitempty"`
	Out   any    `json:"forwarded,omitempty"`
}

func mergeFocus(p string) bool {
	f := os.Getenv("VERIF_FOCUS")
	return (f != "C08" && f != "C09") || f == p
}

func TestMergeC08C09(t *testing.T) {
	c08 := ev.For("C08").SetRule(c08Rule)
	c09 := ev.For("C09").SetRule(c09Rule)
	c08.Assume("children emit EVENT/EOSE for a subscription only after they received its REQ, one EOSE per REQ; a subscription id is re-issued only after its merged EOSE (the property's precondition)")
	c09.Assume("every child answers each EVENT with exactly one OK and each COUNT with exactly one COUNT, per id in request order")
	rapid.Check(t, func(t *rapid.T) {
		n := rapid.IntRange(2, 4).Draw(t, "children")
		rig := newMergeRig(n)
		defer rig.close()
		authors := gen.Pubkeys(2)
		// event pool for REQ answers
		var pool []*mocrelay.Event
		// timestamps around 100, or around 0 (0 and negative values are ordinary timestamps)
		tsBase := rapid.SampledFrom([]int64{100, 100, 100, -1}).Draw(t, "tsbase")
		for i := 0; i < 8; i++ {
			e := &mocrelay.Event{Pubkey: authors[i%2], Kind: []int64{1, 1, 1, 7}[i%4], CreatedAt: tsBase + int64(rapid.IntRange(0, 4).Draw(t, fmt.Sprintf("pool%d", i))), Content: fmt.Sprint(i)}
			gen.Seal(e)
			pool = append(pool, e)
		}
		// events submitted by the client (EVENT): ids from an alphabet of 3
		var submit []*mocrelay.Event
		for i := 0; i < 3; i++ {
			e := &mocrelay.Event{Pubkey: authors[0], Kind: 1, CreatedAt: 50, Content: "s" + fmt.Sprint(i)}
			gen.Seal(e)
			submit = append(submit, e)
		}
		var trace []mstep
		desc := func() any { return map[string]any{"children": n, "schedule": trace} }
		fail := func(prop, sig, clause, obs, exp string) {
			if mergeFocus(prop) {
				hx.Fail(t, ev.Failure{Property: prop, Signature: sig, Clause: clause, Case: desc(), Observed: obs, Expected: exp})
			}
			ev.For(os.Getenv("VERIF_FOCUS")).Label("other-property-violation:" + prop + ":" + sig)
		}
		stalled := func(err error) {
			hx.Fail(t, ev.Failure{Property: map[bool]string{true: "C09", false: "C08"}[os.Getenv("VERIF_FOCUS") == "C09"], Signature: "stalled", Clause: "the merged handler keeps moving messages", Case: desc(), Observed: err.Error()})
		}

		// broadcast bookkeeping
		var bcast mocrelay.ClientMsg
		nextChild := n // n = no broadcast in progress
		childGot := make([][]mocrelay.ClientMsg, n)
		// REQ model
		inst := map[string]*reqInstance{}
		var allInsts []*reqInstance
		owesEOSE := make([]map[string]bool, n) // child i received REQ s (current instance) and has not sent EOSE
		everReq := make([]map[string]bool, n)  // child i ever received a REQ for s
		owesOK := make([][]string, n)          // event ids child i still has to answer (in order received)
		owesCount := make([][]string, n)       // count sub ids
		for i := 0; i < n; i++ {
			owesEOSE[i], everReq[i] = map[string]bool{}, map[string]bool{}
		}
		okSubs := map[string][]*okSubmission{}
		countSubs := map[string][]*countSubmission{}
		submitted := map[string]int{}
		answered := map[string]int{}
		inflightMax, sawReject, interleaved := 0, false, false
		c08nontriv := false

		applyRecv := func(i int, m mocrelay.ClientMsg) {
			childGot[i] = append(childGot[i], m)
			switch x := m.(type) {
			case *mocrelay.ClientReqMsg:
				owesEOSE[i][x.SubscriptionID] = true
				everReq[i][x.SubscriptionID] = true
			case *mocrelay.ClientCloseMsg:
				delete(owesEOSE[i], x.SubscriptionID)
			case *mocrelay.ClientEventMsg:
				owesOK[i] = append(owesOK[i], x.Event.ID)
			case *mocrelay.ClientCountMsg:
				owesCount[i] = append(owesCount[i], x.SubscriptionID)
			}
		}
		doChildRecv := func(i int) {
			m, err := rig.childRecv(i)
			if err != nil {
				stalled(err)
			}
			if m != bcast {
				fail("C08", "broadcast-altered", "every child receives the client's message unchanged", fmt.Sprintf("child %d got %s", i, hx.JSON(briefClient(m))), hx.JSON(briefClient(bcast)))
			}
			applyRecv(i, m)
			nextChild++
			trace = append(trace, mstep{Op: "child_recv", Child: i})
		}
		doClientSend := func(m mocrelay.ClientMsg) {
			trace = append(trace, mstep{Op: "client_send", Msg: briefClient(m)})
			if err := rig.clientSend(m); err != nil {
				stalled(err)
			}
			bcast, nextChild = m, 0
			switch x := m.(type) {
			case *mocrelay.ClientReqMsg:
				ni := &reqInstance{filters: x.ReqFilters, eose: make([]bool, n), seen: map[string]bool{}, emitters: map[int]bool{}}
				inst[x.SubscriptionID] = ni
				allInsts = append(allInsts, ni)
			case *mocrelay.ClientCloseMsg:
				if in := inst[x.SubscriptionID]; in != nil {
					in.closed = true
				}
			case *mocrelay.ClientEventMsg:
				okSubs[x.Event.ID] = append(okSubs[x.Event.ID], &okSubmission{replies: make([]*mocrelay.ServerOKMsg, n)})
				submitted[x.Event.ID]++
			case *mocrelay.ClientCountMsg:
				countSubs[x.SubscriptionID] = append(countSubs[x.SubscriptionID], &countSubmission{replies: make([]*mocrelay.ServerCountMsg, n)})
			}
			doChildRecv(0) // synchronises with the merge session's state update
			open := 0
			for _, subs := range okSubs {
				open += len(subs)
			}
			if open > inflightMax {
				inflightMax = open
			}
		}

		checkEmit := func(i int, msg mocrelay.ServerMsg, out []mocrelay.ServerMsg) {
			obs := hx.JSON(briefServers(out))
			switch x := msg.(type) {
			case *mocrelay.ServerEventMsg:
				in := inst[x.SubscriptionID]
				switch {
				case in != nil && !in.closed && !in.complete:
					// before the merged EOSE: may be dropped; if forwarded it must be legitimate
					in.emitters[i] = true
					legit := gen.MatchAny(x.Event, in.filters) && !in.seen[x.Event.ID] && (!in.hasLast || x.Event.CreatedAt <= in.lastTs)
					if len(in.filters) == 1 && in.filters[0].Limit != nil && int64(in.forwarded) >= *in.filters[0].Limit {
						legit = false
					}
					if !legit {
						in.dropWorthy = true
					}
					if len(out) == 0 {
						c08.Label("pre-eose:dropped")
						return
					}
					if len(out) != 1 || out[0] != msg {
						fail("C08", "pre-eose-altered", "a forwarded event is the child's message with the child's subscription id", obs, "[] or [the message]")
						return
					}
					c08.Label("pre-eose:forwarded")
					switch {
					case !gen.MatchAny(x.Event, in.filters):
						fail("C08", "pre-eose-nonmatching", "before the merged EOSE the forwarded events all match the REQ's filters", obs, "dropped")
					case in.seen[x.Event.ID]:
						fail("C08", "pre-eose-duplicate", "before the merged EOSE the forwarded events are pairwise distinct", obs, "dropped")
					case in.hasLast && x.Event.CreatedAt > in.lastTs:
						fail("C08", "pre-eose-out-of-order", "before the merged EOSE the forwarded events arrive in non-increasing created_at order", obs, "dropped")
					case len(in.filters) == 1 && in.filters[0].Limit != nil && int64(in.forwarded) >= *in.filters[0].Limit:
						fail("C08", "pre-eose-over-limit", "for a single filter with limit n at most n events are forwarded before the merged EOSE", obs, "dropped")
					}
					in.seen[x.Event.ID] = true
					in.lastTs, in.hasLast = x.Event.CreatedAt, true
					in.forwarded++
				case in != nil && !in.closed && in.complete:
					in.liveAfter = true
					if len(out) != 1 || out[0] != msg {
						fail("C08", "post-eose-not-forwarded", "after the merged EOSE every event a child emits for the subscription is forwarded unchanged", obs, "[the message]")
					}
					c08.Label("post-eose:forwarded")
				default:
					// closed or unknown subscription: the statement claims nothing
					if len(out) > 1 || (len(out) == 1 && out[0] != msg) {
						fail("C08", "unexpected-output", "a child's event yields at most that event", obs, "[] or [the message]")
					}
				}
			case *mocrelay.ServerEOSEMsg:
				in := inst[x.SubscriptionID]
				expect := false
				if in != nil && !in.closed && !in.complete {
					in.eose[i] = true
					all := true
					for _, b := range in.eose {
						all = all && b
					}
					if all {
						in.complete = true
						expect = true
					}
				}
				if expect {
					ok := len(out) == 1
					if ok {
						e, is := out[0].(*mocrelay.ServerEOSEMsg)
						ok = is && e.SubscriptionID == x.SubscriptionID
					}
					if !ok {
						fail("C08", "merged-eose-missing", "the client receives one EOSE once every child has sent its own", obs, "[EOSE "+x.SubscriptionID+"]")
					}
					c08.Label("eose:merged")
					if in.dropWorthy && len(in.emitters) >= 2 {
						c08.Label("instance:overlapping-with-drop-worthy")
					}
				} else if len(out) != 0 {
					sig := "eose-early-or-repeated"
					if in != nil && in.closed {
						sig = "eose-after-close"
					}
					fail("C08", sig, "no EOSE before every child has sent its own, never a second one, none after the client closed the subscription", obs, "[]")
				} else {
					c08.Label("eose:absorbed")
				}
			case *mocrelay.ServerOKMsg:
				subs := okSubs[x.EventID]
				var target *okSubmission
				for _, s := range subs {
					if s.replies[i] == nil {
						target = s
						break
					}
				}
				if target == nil {
					// an OK nobody asked for: no request, no reply
					if len(subs) == 0 && len(out) != 0 {
						fail("C09", "ok-unsolicited", "exactly one aggregated OK per EVENT: a child's OK for an event the client has not submitted produces no reply", obs, "[]")
					}
					return
				}
				target.replies[i] = x
				target.order = append(target.order, i)
				if len(subs) > 1 || inflightMax >= 2 {
					interleaved = true
				}
				done := true
				for _, rp := range target.replies {
					done = done && rp != nil
				}
				oldest := subs[0] == target
				if done && oldest {
					okSubs[x.EventID] = subs[1:]
					answered[x.EventID]++
					if len(out) != 1 {
						fail("C09", "ok-missing", "every EVENT is answered by exactly one OK carrying its id (here: when the last child answered)", obs, "one OK")
						return
					}
					got, is := out[0].(*mocrelay.ServerOKMsg)
					if !is || got.EventID != x.EventID {
						fail("C09", "ok-wrong-id", "the aggregated OK carries the event's id", obs, "OK "+gen.Short(x.EventID))
						return
					}
					allAcc := true
					firstByIndex, firstByTime := -1, -1
					for ci, rp := range target.replies {
						if !rp.Accepted {
							allAcc = false
							if firstByIndex < 0 {
								firstByIndex = ci
							}
						}
					}
					for _, ci := range target.order {
						if !target.replies[ci].Accepted && firstByTime < 0 {
							firstByTime = ci
						}
					}
					if got.Accepted != allAcc {
						fail("C09", "ok-verdict", "the aggregated OK accepts iff every child accepted", obs, fmt.Sprint(allAcc))
						return
					}
					if !allAcc {
						sawReject = true
						a, b := target.replies[firstByIndex].Message(), target.replies[firstByTime].Message()
						if !strings.HasPrefix(got.Message(), a) && !strings.HasPrefix(got.Message(), b) {
							fail("C09", "ok-reason", "a rejection's text begins with the first rejecting child's reason", fmt.Sprintf("%q", got.Message()), fmt.Sprintf("prefix %q (or %q)", a, b))
						}
					}
					c09.Label("ok:aggregated")
				} else if done && !oldest {
					// a later submission completed before an earlier one of the same id: either
					// order of the two aggregated replies is fine, but exactly one reply per completion
					okSubs[x.EventID] = removeSub(subs, target)
					answered[x.EventID]++
					if len(out) != 1 {
						fail("C09", "ok-missing", "every EVENT is answered by exactly one OK", obs, "one OK")
					}
				} else if len(out) != 0 {
					fail("C09", "ok-early", "no OK before every child has answered the request", obs, "[]")
				}
			case *mocrelay.ServerCountMsg:
				subs := countSubs[x.SubscriptionID]
				var target *countSubmission
				for _, s := range subs {
					if s.replies[i] == nil {
						target = s
						break
					}
				}
				if target == nil {
					if len(subs) == 0 && len(out) != 0 {
						fail("C09", "count-unsolicited", "exactly one COUNT reply per COUNT request: a child's COUNT for a query the client has not sent produces no reply", obs, "[]")
					}
					return
				}
				target.replies[i] = x
				done := true
				var mx uint64
				for _, rp := range target.replies {
					if rp == nil {
						done = false
					} else if rp.Count > mx {
						mx = rp.Count
					}
				}
				if done {
					countSubs[x.SubscriptionID] = removeCount(subs, target)
					if len(out) != 1 {
						fail("C09", "count-missing", "every COUNT is answered by exactly one COUNT reply (when the last child answered)", obs, "one COUNT")
						return
					}
					got, is := out[0].(*mocrelay.ServerCountMsg)
					if !is || got.SubscriptionID != x.SubscriptionID || got.Count != mx {
						fail("C09", "count-value", "the COUNT reply carries the maximum of the children's counts", obs, fmt.Sprintf("COUNT %s %d", x.SubscriptionID, mx))
					}
					c09.Label("count:aggregated")
				} else if len(out) != 0 {
					fail("C09", "count-early", "no COUNT reply before every child has answered", obs, "[]")
				}
			default:
				if len(out) != 1 || out[0] != msg {
					fail("C08", "passthrough", "other server messages pass the merger unchanged", obs, "[the message]")
				}
			}
		}
		doEmit := func(i int, msg mocrelay.ServerMsg) {
			out, err := rig.childEmit(i, msg)
			trace = append(trace, mstep{Op: "child_emit", Child: i, Msg: briefServer(msg), Out: briefServers(out)})
			if err != nil {
				stalled(err)
			}
			checkEmit(i, msg, out)
		}

		subIDs := []string{"a", "b"}
		reqAllowed := func(s string) bool {
			in := inst[s]
			return in == nil || in.complete
		}
		steps := rapid.IntRange(6, 60).Draw(t, "steps")
		for k := 0; k < steps; k++ {
			lab := fmt.Sprintf("%d.", k)
			// enabled actions
			var acts []string
			rep := func(a string, k int) {
				for j := 0; j < k; j++ {
					acts = append(acts, a)
				}
			}
			// the focused property's traffic gets more weight
			wReq, wEv := 2, 2
			if os.Getenv("VERIF_FOCUS") == "C08" {
				wReq, wEv = 4, 1
			} else if os.Getenv("VERIF_FOCUS") == "C09" {
				wReq, wEv = 1, 4
			}
			if nextChild < n {
				rep("recv", 4)
			} else {
				rep("REQ", wReq)
				rep("CLOSE", 1)
				rep("EVENT", wEv)
				rep("COUNT", (wEv+1)/2)
			}
			for i := 0; i < n; i++ {
				if len(everReq[i]) > 0 {
					rep(fmt.Sprintf("ev%d", i), 1+wReq)
				}
				if len(owesEOSE[i]) > 0 {
					rep(fmt.Sprintf("eose%d", i), wReq)
				}
				if len(owesOK[i]) > 0 {
					rep(fmt.Sprintf("ok%d", i), wEv)
				}
				if len(owesCount[i]) > 0 {
					rep(fmt.Sprintf("cnt%d", i), (wEv+1)/2)
				}
			}
			acts = append(acts, "notice", "unsolicited")
			if nextChild == n && k > 3 {
				acts = append(acts, "restart")
			}
			for i := 0; i < n; i++ {
				if len(owesEOSE[i]) > 0 {
					acts = append(acts, fmt.Sprintf("closed%d", i))
				}
			}
			a := rapid.SampledFrom(acts).Draw(t, lab+"act")
			switch {
			case a == "recv":
				doChildRecv(nextChild)
			case a == "REQ":
				var cands []string
				for _, s := range subIDs {
					if reqAllowed(s) {
						cands = append(cands, s)
					}
				}
				if len(cands) == 0 {
					c08.Exclude("re-REQ-before-merged-EOSE")
					continue
				}
				s := rapid.SampledFrom(cands).Draw(t, lab+"sub")
				var fs []*mocrelay.ReqFilter
				nf := rapid.IntRange(1, 2).Draw(t, lab+"nf")
				for j := 0; j < nf; j++ {
					f := &mocrelay.ReqFilter{}
					if rapid.IntRange(0, 2).Draw(t, fmt.Sprintf("%sf%dk", lab, j)) != 0 {
						f.Kinds = []int64{1}
					}
					if rapid.IntRange(0, 1).Draw(t, fmt.Sprintf("%sf%dl?", lab, j)) == 0 {
						f.Limit = gen.Ptr(int64(rapid.IntRange(0, 3).Draw(t, fmt.Sprintf("%sf%dl", lab, j))))
					}
					if rapid.IntRange(0, 3).Draw(t, fmt.Sprintf("%sf%da", lab, j)) == 0 {
						f.Authors = []string{authors[0]}
					}
					fs = append(fs, f)
				}
				doClientSend(&mocrelay.ClientReqMsg{SubscriptionID: s, ReqFilters: fs})
			case a == "CLOSE":
				doClientSend(&mocrelay.ClientCloseMsg{SubscriptionID: rapid.SampledFrom(subIDs).Draw(t, lab+"sub")})
			case a == "EVENT":
				doClientSend(&mocrelay.ClientEventMsg{Event: rapid.SampledFrom(submit).Draw(t, lab+"ev")})
			case a == "COUNT":
				// COUNT ids overlap the REQ/CLOSE ids: a CLOSE must not disturb a COUNT in flight
				doClientSend(&mocrelay.ClientCountMsg{SubscriptionID: rapid.SampledFrom([]string{"x", "a", "b"}).Draw(t, lab+"sub"), ReqFilters: []*mocrelay.ReqFilter{{}}})
			case a == "restart":
				// the connection goes away with requests in flight; the next connection on the
				// same merged handler starts from a clean slate
				trace = append(trace, mstep{Op: "session ends, new session starts"})
				if err := rig.restart(); err != nil {
					stalled(err)
				}
				bcast, nextChild = nil, n
				inst = map[string]*reqInstance{}
				okSubs = map[string][]*okSubmission{}
				countSubs = map[string][]*countSubmission{}
				submitted, answered = map[string]int{}, map[string]int{}
				for i := 0; i < n; i++ {
					owesEOSE[i], everReq[i] = map[string]bool{}, map[string]bool{}
					owesOK[i], owesCount[i] = nil, nil
				}
				c09.Label("session-restart")
			case a == "unsolicited":
				// a child answers something nobody asked: an OK for an event that was never
				// submitted, a COUNT / EOSE for an id that was never used
				i := rapid.IntRange(0, n-1).Draw(t, lab+"child")
				switch rapid.IntRange(0, 2).Draw(t, lab+"what") {
				case 0:
					doEmit(i, mocrelay.NewServerOKMsg(gen.FakeID(7), rapid.Bool().Draw(t, lab+"acc"), "", "unsolicited"))
				case 1:
					doEmit(i, mocrelay.NewServerCountMsg("ghost", 5, nil))
				default:
					doEmit(i, mocrelay.NewServerEOSEMsg("ghost"))
				}
			case a == "notice":
				doEmit(rapid.IntRange(0, n-1).Draw(t, lab+"child"), mocrelay.NewServerNoticeMsg("hello"))
			case strings.HasPrefix(a, "closed"):
				// a child refuses the subscription: CLOSED instead of EOSE. The message passes
				// unchanged; the other children's pre-EOSE stream stays subject to the rules.
				i := int(a[6] - '0')
				s := rapid.SampledFrom(sortedKeys(owesEOSE[i])).Draw(t, lab+"sub")
				delete(owesEOSE[i], s)
				doEmit(i, mocrelay.NewServerClosedMsg(s, "", "refused by a child"))
			case strings.HasPrefix(a, "ev"):
				i := int(a[2] - '0')
				s := rapid.SampledFrom(sortedKeys(everReq[i])).Draw(t, lab+"sub")
				doEmit(i, mocrelay.NewServerEventMsg(s, rapid.SampledFrom(pool).Draw(t, lab+"event")))
			case strings.HasPrefix(a, "eose"):
				i := int(a[4] - '0')
				s := rapid.SampledFrom(sortedKeys(owesEOSE[i])).Draw(t, lab+"sub")
				delete(owesEOSE[i], s)
				doEmit(i, mocrelay.NewServerEOSEMsg(s))
			case strings.HasPrefix(a, "ok"):
				i := int(a[2] - '0')
				// a child may answer its pending EVENTs in any order across ids, in order per id
				ids := distinct(owesOK[i])
				id := rapid.SampledFrom(ids).Draw(t, lab+"id")
				owesOK[i] = removeFirst(owesOK[i], id)
				acc := rapid.IntRange(0, 2).Draw(t, lab+"acc") != 0
				prefix := rapid.SampledFrom([]string{"", mocrelay.MachineReadablePrefixDuplicate, mocrelay.MachineReadablePrefixBlocked}).Draw(t, lab+"prefix")
				doEmit(i, mocrelay.NewServerOKMsg(id, acc, prefix, fmt.Sprintf("child%d", i)))
			case strings.HasPrefix(a, "cnt"):
				i := int(a[3] - '0')
				id := rapid.SampledFrom(distinct(owesCount[i])).Draw(t, lab+"id")
				owesCount[i] = removeFirst(owesCount[i], id)
				cnt := rapid.OneOf(rapid.Uint64Range(0, 9), rapid.SampledFrom([]uint64{1<<63 - 1, 1 << 63, 1<<63 + 1000, 1<<64 - 1})).Draw(t, lab+"n")
				doEmit(i, mocrelay.NewServerCountMsg(id, cnt, nil))
			}
		}
		// drain to quiescence: finish the broadcast, then all owed replies in a generated order
		for nextChild < n {
			doChildRecv(nextChild)
		}
		for {
			var acts []string
			for i := 0; i < n; i++ {
				if len(owesOK[i]) > 0 {
					acts = append(acts, fmt.Sprintf("ok%d", i))
				}
				if len(owesCount[i]) > 0 {
					acts = append(acts, fmt.Sprintf("cnt%d", i))
				}
				if len(owesEOSE[i]) > 0 {
					acts = append(acts, fmt.Sprintf("eose%d", i))
				}
			}
			if len(acts) == 0 {
				break
			}
			a := rapid.SampledFrom(acts).Draw(t, "drain")
			switch {
			case strings.HasPrefix(a, "ok"):
				i := int(a[2] - '0')
				id := owesOK[i][0]
				owesOK[i] = owesOK[i][1:]
				doEmit(i, mocrelay.NewServerOKMsg(id, rapid.Bool().Draw(t, "drainacc"), "", fmt.Sprintf("child%d", i)))
			case strings.HasPrefix(a, "cnt"):
				i := int(a[3] - '0')
				id := owesCount[i][0]
				owesCount[i] = owesCount[i][1:]
				doEmit(i, mocrelay.NewServerCountMsg(id, uint64(rapid.IntRange(0, 9).Draw(t, "drainn")), nil))
			case strings.HasPrefix(a, "eose"):
				i := int(a[4] - '0')
				s := sortedKeys(owesEOSE[i])[0]
				delete(owesEOSE[i], s)
				doEmit(i, mocrelay.NewServerEOSEMsg(s))
			}
		}
		for id, nsub := range submitted {
			if answered[id] != nsub {
				fail("C09", "ok-count-at-quiescence", "at quiescence every submitted EVENT has been answered by exactly one OK", fmt.Sprintf("id %s: %d EVENTs, %d OKs", gen.Short(id), nsub, answered[id]), "equal")
			}
		}
		for s, subs := range countSubs {
			if len(subs) != 0 {
				fail("C09", "count-at-quiescence", "at quiescence every COUNT has been answered", fmt.Sprintf("sub %s: %d unanswered", s, len(subs)), "0")
			}
		}
		if err := rig.close(); err != nil {
			stalled(err)
		}
		for _, in := range allInsts {
			if in.complete && in.dropWorthy && len(in.emitters) >= 2 && in.liveAfter {
				c08nontriv = true
			}
		}
		key := hx.JSON(trace)
		if mergeFocus("C08") {
			c08.Case(c08nontriv, key, desc)
		}
		if mergeFocus("C09") {
			c09.Case(inflightMax >= 2 && interleaved && sawReject, key, desc)
		}
	})
}

func removeSub(s []*okSubmission, x *okSubmission) []*okSubmission {
	var out []*okSubmission
	for _, y := range s {
		if y != x {
			out = append(out, y)
		}
	}
	return out
}

func removeCount(s []*countSubmission, x *countSubmission) []*countSubmission {
	var out []*countSubmission
	for _, y := range s {
		if y != x {
			out = append(out, y)
		}
	}
	return out
}

func sortedKeys(m map[string]bool) []string {
	var out []string
	for _, k := range []string{"a", "b", "x", "y"} {
		if m[k] {
			out = append(out, k)
		}
	}
	return out
}

func distinct(s []string) []string {
	seen := map[string]bool{}
	var out []string
	for _, x := range s {
		if !seen[x] {
			seen[x] = true
			out = append(out, x)
		}
	}
	return out
}

func removeFirst(s []string, x string) []string {
	for i, y := range s {
		if y == x {
			return append(append([]string{}, s[:i]...), s[i+1:]...)
		}
	}
	return s
}

// TestMergeRegressSameIDInFlight: plain regression for the fixed C09 finding.
func TestMergeRegressSameIDInFlight(t *testing.T) {
	if !mergeFocus("C09") {
		return
	}
	rig := newMergeRig(2)
	defer rig.close()
	e := &mocrelay.Event{Pubkey: gen.Keys[0].Pub, Kind: 1, CreatedAt: 1}
	gen.Seal(e)
	oks := 0
	for r := 0; r < 2; r++ {
		if err := rig.clientSend(&mocrelay.ClientEventMsg{Event: e}); err != nil {
			t.Fatal(err)
		}
		for i := 0; i < 2; i++ {
			if _, err := rig.childRecv(i); err != nil {
				t.Fatal(err)
			}
		}
	}
	for _, i := range []int{0, 0, 1, 1} {
		out, err := rig.childEmit(i, mocrelay.NewServerOKMsg(e.ID, true, "", ""))
		if err != nil {
			t.Fatal(err)
		}
		oks += len(out)
	}
	if oks != 2 {
		hx.Fail(t, ev.Failure{Property: "C09", Signature: "ok-count-at-quiescence", Clause: "regression: two EVENTs with the same id in flight get two OKs", Observed: fmt.Sprint(oks), Expected: "2"})
	}
}

// ---- free-running mode --------------------------------------------------------------------------

type frChild struct {
	idx     int
	stored  map[string][]*mocrelay.Event // per sub id: events sent before EOSE
	live    map[string][]*mocrelay.Event // per sub id: events sent after EOSE
	verdict map[string]bool              // per event id
	counts  map[string]uint64            // per count sub id
}

func (c *frChild) ServeNostr(ctx context.Context, send chan<- mocrelay.ServerMsg, recv <-chan mocrelay.ClientMsg) error {
	out := func(m mocrelay.ServerMsg) bool {
		select {
		case send <- m:
			return true
		case <-ctx.Done():
			return false
		}
	}
	for {
		select {
		case <-ctx.Done():
			return ctx.Err()
		case m, ok := <-recv:
			if !ok {
				return mocrelay.ErrRecvClosed
			}
			switch x := m.(type) {
			case *mocrelay.ClientReqMsg:
				for _, e := range c.stored[x.SubscriptionID] {
					if !out(mocrelay.NewServerEventMsg(x.SubscriptionID, e)) {
						return ctx.Err()
					}
				}
				if !out(mocrelay.NewServerEOSEMsg(x.SubscriptionID)) {
					return ctx.Err()
				}
				for _, e := range c.live[x.SubscriptionID] {
					if !out(mocrelay.NewServerEventMsg(x.SubscriptionID, e)) {
						return ctx.Err()
					}
				}
			case *mocrelay.ClientEventMsg:
				acc := c.verdict[x.Event.ID]
				if !out(mocrelay.NewServerOKMsg(x.Event.ID, acc, "", fmt.Sprintf("child%d", c.idx))) {
					return ctx.Err()
				}
			case *mocrelay.ClientCountMsg:
				if !out(mocrelay.NewServerCountMsg(x.SubscriptionID, c.counts[x.SubscriptionID], nil)) {
					return ctx.Err()
				}
			}
		}
	}
}

// TestMergeFreeRunning: children and client run as goroutines with generated
// scripts; the invariants of C08 / C09 are checked on the recorded client-side stream.
func TestMergeFreeRunning(t *testing.T) {
	c08 := ev.For("C08").SetRule(c08Rule)
	c09 := ev.For("C09").SetRule(c09Rule)
	rapid.Check(t, func(t *rapid.T) {
		n := rapid.IntRange(2, 4).Draw(t, "children")
		authors := gen.Pubkeys(2)
		var pool []*mocrelay.Event
		for i := 0; i < 10; i++ {
			e := &mocrelay.Event{Pubkey: authors[i%2], Kind: []int64{1, 1, 1, 7}[i%4], CreatedAt: int64(100 + rapid.IntRange(0, 5).Draw(t, fmt.Sprintf("pool%d", i))), Content: fmt.Sprint(i)}
			gen.Seal(e)
			pool = append(pool, e)
		}
		var submit []*mocrelay.Event
		for i := 0; i < 3; i++ {
			e := &mocrelay.Event{Pubkey: authors[0], Kind: 1, CreatedAt: 50, Content: "s" + fmt.Sprint(i)}
			gen.Seal(e)
			submit = append(submit, e)
		}
		nsubs := rapid.IntRange(1, 4).Draw(t, "subs")
		subFilters := map[string][]*mocrelay.ReqFilter{}
		var subIDs []string
		for i := 0; i < nsubs; i++ {
			s := fmt.Sprintf("s%d", i)
			subIDs = append(subIDs, s)
			f := &mocrelay.ReqFilter{}
			if rapid.IntRange(0, 2).Draw(t, s+".kinds") != 0 {
				f.Kinds = []int64{1}
			}
			if rapid.Bool().Draw(t, s+".limit?") {
				f.Limit = gen.Ptr(int64(rapid.IntRange(0, 4).Draw(t, s+".limit")))
			}
			subFilters[s] = []*mocrelay.ReqFilter{f}
		}
		children := make([]*frChild, n)
		hs := make([]mocrelay.Handler, n)
		liveSet := map[string]map[*mocrelay.Event]bool{}
		for i := range children {
			c := &frChild{idx: i, stored: map[string][]*mocrelay.Event{}, live: map[string][]*mocrelay.Event{}, verdict: map[string]bool{}, counts: map[string]uint64{}}
			for _, s := range subIDs {
				k := rapid.IntRange(0, 6).Draw(t, fmt.Sprintf("c%d.%s.nstored", i, s))
				var evs []*mocrelay.Event
				for j := 0; j < k; j++ {
					evs = append(evs, rapid.SampledFrom(pool).Draw(t, fmt.Sprintf("c%d.%s.st%d", i, s, j)))
				}
				if rapid.IntRange(0, 3).Draw(t, fmt.Sprintf("c%d.%s.sorted", i, s)) != 0 {
					sortDesc(evs)
				}
				c.stored[s] = evs
				kl := rapid.IntRange(0, 3).Draw(t, fmt.Sprintf("c%d.%s.nlive", i, s))
				for j := 0; j < kl; j++ {
					e := &mocrelay.Event{Pubkey: authors[0], Kind: 1, CreatedAt: 200, Content: fmt.Sprintf("live-%d-%s-%d", i, s, j)}
					gen.Seal(e)
					c.live[s] = append(c.live[s], e)
					if liveSet[s] == nil {
						liveSet[s] = map[*mocrelay.Event]bool{}
					}
					liveSet[s][e] = true
				}
			}
			for _, e := range submit {
				c.verdict[e.ID] = rapid.IntRange(0, 3).Draw(t, fmt.Sprintf("c%d.v%s", i, e.Content)) != 0
			}
			for _, s := range []string{"x", "y"} {
				c.counts[s] = uint64(rapid.IntRange(0, 9).Draw(t, fmt.Sprintf("c%d.cnt%s", i, s)))
			}
			children[i] = c
			hs[i] = c
		}
		// occasionally: a bulk import - every child replays the same large set of events that
		// share one created_at (de-duplication must not depend on the volume)
		if rapid.IntRange(0, 39).Draw(t, "bulk") == 0 {
			nb := rapid.IntRange(300, 5000).Draw(t, "bulk_n")
			var bulk []*mocrelay.Event
			for j := 0; j < nb; j++ {
				e := &mocrelay.Event{Pubkey: authors[0], Kind: 1, CreatedAt: 150, Content: fmt.Sprint("bulk", j)}
				gen.Seal(e)
				bulk = append(bulk, e)
			}
			s0 := subIDs[0]
			subFilters[s0] = []*mocrelay.ReqFilter{{Kinds: []int64{1}}}
			for _, c := range children {
				c.stored[s0] = bulk
			}
			c08.Label("bulk-same-timestamp")
		}
		// client script
		var script []mocrelay.ClientMsg
		var briefs []any
		reqd := map[string]bool{}
		closed := map[string]bool{}
		nEvents := map[string]int{}
		nCounts := map[string]int{}
		steps := rapid.IntRange(2, 25).Draw(t, "steps")
		for k := 0; k < steps; k++ {
			lab := fmt.Sprintf("%d.", k)
			switch rapid.SampledFrom([]string{"REQ", "REQ", "EVENT", "EVENT", "EVENT", "COUNT", "CLOSE"}).Draw(t, lab+"op") {
			case "REQ":
				var cands []string
				for _, s := range subIDs {
					if !reqd[s] {
						cands = append(cands, s)
					}
				}
				if len(cands) == 0 {
					continue
				}
				s := rapid.SampledFrom(cands).Draw(t, lab+"sub")
				reqd[s] = true
				script = append(script, &mocrelay.ClientReqMsg{SubscriptionID: s, ReqFilters: subFilters[s]})
			case "EVENT":
				e := rapid.SampledFrom(submit).Draw(t, lab+"ev")
				nEvents[e.ID]++
				script = append(script, &mocrelay.ClientEventMsg{Event: e})
			case "COUNT":
				s := rapid.SampledFrom([]string{"x", "y"}).Draw(t, lab+"sub")
				nCounts[s]++
				script = append(script, &mocrelay.ClientCountMsg{SubscriptionID: s, ReqFilters: []*mocrelay.ReqFilter{{}}})
			case "CLOSE":
				var cands []string
				for _, s := range subIDs {
					if reqd[s] && !closed[s] {
						cands = append(cands, s)
					}
				}
				if len(cands) == 0 {
					continue
				}
				s := rapid.SampledFrom(cands).Draw(t, lab+"sub")
				closed[s] = true
				script = append(script, &mocrelay.ClientCloseMsg{SubscriptionID: s})
			}
		}
		for _, m := range script {
			briefs = append(briefs, briefClient(m))
		}
		desc := map[string]any{"children": n, "script": briefs, "mode": "free-running"}
		h := mocrelay.NewMergeHandler(hs...)
		ctx, cancel := context.WithCancel(context.Background())
		defer cancel()
		recv := make(chan mocrelay.ClientMsg)
		send := make(chan mocrelay.ServerMsg)
		ret := make(chan error, 1)
		go func() { ret <- h.ServeNostr(ctx, send, recv) }()
		var stream []mocrelay.ServerMsg
		expectOK, expectCount, expectEOSE := 0, 0, 0
		for _, k := range nEvents {
			expectOK += k
		}
		for _, k := range nCounts {
			expectCount += k
		}
		for s := range reqd {
			if !closed[s] {
				expectEOSE++
			}
		}
		gotOK, gotCount, gotEOSE := 0, 0, map[string]int{}
		i := 0
		deadline := time.After(stepTimeout)
		settle := (<-chan time.Time)(nil)
	loop:
		for {
			var in chan mocrelay.ClientMsg
			var next mocrelay.ClientMsg
			if i < len(script) {
				in, next = recv, script[i]
			}
			eoseOpen := 0
			for s := range reqd {
				if !closed[s] && gotEOSE[s] > 0 {
					eoseOpen++
				}
			}
			if i == len(script) && gotOK >= expectOK && gotCount >= expectCount && eoseOpen >= expectEOSE && settle == nil {
				settle = time.After(3 * time.Millisecond)
			}
			select {
			case in <- next:
				i++
			case m := <-send:
				stream = append(stream, m)
				switch x := m.(type) {
				case *mocrelay.ServerOKMsg:
					gotOK++
				case *mocrelay.ServerCountMsg:
					gotCount++
				case *mocrelay.ServerEOSEMsg:
					gotEOSE[x.SubscriptionID]++
				}
				if settle != nil {
					settle = time.After(3 * time.Millisecond)
				}
			case <-settle:
				break loop
			case <-deadline:
				break loop
			}
		}
		fail := func(prop, sig, clause, obs string) {
			if mergeFocus(prop) {
				shown := stream
				if len(shown) > 300 {
					shown = shown[:300]
				}
				hx.Fail(t, ev.Failure{Property: prop, Signature: sig, Clause: clause, Case: map[string]any{"case": desc, "stream_len": len(stream), "stream_head": briefServers(shown)}, Observed: obs})
			}
		}
		// C09
		okByID := map[string][]*mocrelay.ServerOKMsg{}
		cntBySub := map[string][]*mocrelay.ServerCountMsg{}
		for _, m := range stream {
			switch x := m.(type) {
			case *mocrelay.ServerOKMsg:
				okByID[x.EventID] = append(okByID[x.EventID], x)
			case *mocrelay.ServerCountMsg:
				cntBySub[x.SubscriptionID] = append(cntBySub[x.SubscriptionID], x)
			}
		}
		for _, e := range submit {
			if len(okByID[e.ID]) != nEvents[e.ID] {
				fail("C09", "ok-count-at-quiescence", "every EVENT is answered by exactly one OK carrying its id", fmt.Sprintf("id %s: %d EVENTs, %d OKs", gen.Short(e.ID), nEvents[e.ID], len(okByID[e.ID])))
			}
			all := true
			first := ""
			for _, c := range children {
				if !c.verdict[e.ID] {
					all = false
					if first == "" {
						first = fmt.Sprintf("child%d", c.idx)
					}
				}
			}
			for _, ok := range okByID[e.ID] {
				if ok.Accepted != all {
					fail("C09", "ok-verdict", "the aggregated OK accepts iff every child accepted", hx.JSON(briefServer(ok)))
				}
				if !all && !strings.HasPrefix(ok.Message(), "child") {
					fail("C09", "ok-reason", "a rejection's text begins with a rejecting child's reason", ok.Message())
				}
			}
		}
		for _, s := range []string{"x", "y"} {
			if len(cntBySub[s]) != nCounts[s] {
				fail("C09", "count-at-quiescence", "every COUNT is answered by exactly one COUNT reply", fmt.Sprintf("sub %s: %d COUNTs, %d replies", s, nCounts[s], len(cntBySub[s])))
			}
			var mx uint64
			for _, c := range children {
				if c.counts[s] > mx {
					mx = c.counts[s]
				}
			}
			for _, r := range cntBySub[s] {
				if r.Count != mx {
					fail("C09", "count-value", "the COUNT reply carries the maximum of the children's counts", fmt.Sprintf("%d, want %d", r.Count, mx))
				}
			}
		}
		// C08
		nontrivial := false
		for s := range reqd {
			fs := subFilters[s]
			eose := 0
			seen := map[string]bool{}
			var lastTs int64
			hasLast := false
			fwd := 0
			dropWorthy := false
			for _, m := range stream {
				switch x := m.(type) {
				case *mocrelay.ServerEOSEMsg:
					if x.SubscriptionID == s {
						eose++
					}
				case *mocrelay.ServerEventMsg:
					if x.SubscriptionID != s {
						continue
					}
					if eose > 0 {
						continue
					}
					if closed[s] && liveSet[s][x.Event] {
						continue // after the client's CLOSE nothing is claimed
					}
					switch {
					case !gen.MatchAny(x.Event, fs) && !closed[s]:
						fail("C08", "pre-eose-nonmatching", "before the merged EOSE the forwarded events all match the REQ's filters", hx.JSON(briefServer(m)))
					case seen[x.Event.ID] && !closed[s]:
						fail("C08", "pre-eose-duplicate", "before the merged EOSE the forwarded events are pairwise distinct", hx.JSON(briefServer(m)))
					case hasLast && x.Event.CreatedAt > lastTs && !closed[s]:
						fail("C08", "pre-eose-out-of-order", "before the merged EOSE the forwarded events arrive in non-increasing created_at order", hx.JSON(briefServer(m)))
					case fs[0].Limit != nil && int64(fwd) >= *fs[0].Limit && !closed[s]:
						fail("C08", "pre-eose-over-limit", "for a single filter with limit n at most n events are forwarded before the merged EOSE", hx.JSON(briefServer(m)))
					}
					seen[x.Event.ID] = true
					lastTs, hasLast = x.Event.CreatedAt, true
					fwd++
				}
			}
			if eose > 1 || (eose == 0 && !closed[s]) {
				fail("C08", "merged-eose-count", "the client receives exactly one EOSE per REQ (none or one if it closed the subscription meanwhile)", fmt.Sprintf("sub %s: %d EOSE", s, eose))
			}
			total := 0
			for _, c := range children {
				total += len(c.stored[s])
				for _, e := range c.stored[s] {
					if !gen.MatchAny(e, fs) {
						dropWorthy = true
					}
				}
			}
			if total > fwd {
				dropWorthy = true
			}
			if eose == 1 && dropWorthy && len(liveSet[s]) > 0 {
				nontrivial = true
			}
		}
		cancel()
		select {
		case <-ret:
		case <-time.After(stepTimeout):
			fail("C08", "stalled", "the merged handler returns after cancel", "ServeNostr did not return")
		}
		key := hx.JSON(desc)
		if mergeFocus("C08") {
			c08.Label("mode:free-running")
			c08.Case(nontrivial, key, func() any { return desc })
		}
		if mergeFocus("C09") {
			c09.Label("mode:free-running")
			c09.Case(expectOK >= 2, key, func() any { return desc })
		}
	})
}

func sortDesc(evs []*mocrelay.Event) {
	for i := 1; i < len(evs); i++ {
		for j := i; j > 0 && evs[j-1].CreatedAt < evs[j].CreatedAt; j-- {
			evs[j-1], evs[j] = evs[j], evs[j-1]
		}
	}
}

// TestMergeScale: the merge rules at sizes the step-by-step exploration does not reach.
// (a) 63-70 children: the merged EOSE waits for the very last child, whichever index it has;
// (b) one EVENT stays unanswered by a slow child while more than a thousand others are
// submitted and answered: its OK still arrives when the slow child answers;
// (c) 9-40 COUNT queries with one subscription id in flight, the children answering at
// different paces: every query gets the maximum of the two replies that belong to it.
func TestMergeScale(t *testing.T) {
	c08 := ev.For("C08").SetRule(c08Rule)
	c09 := ev.For("C09").SetRule(c09Rule)
	rapid.Check(t, func(t *rapid.T) {
		shape := rapid.SampledFrom([]string{"many-children", "slow-ok", "deep-count", "many-children-ok"}).Draw(t, "shape")
		if (shape == "many-children") != mergeFocus("C08") && os.Getenv("VERIF_FOCUS") != "" {
			// the other property's share of this test
			if mergeFocus("C08") {
				shape = "many-children"
			} else if shape == "many-children" {
				shape = "slow-ok"
			}
		}
		desc := map[string]any{"mode": "scale", "shape": shape}
		var rig *mergeRig
		fail := func(p, sig, clause, obs string) {
			if rig != nil {
				rig.close()
			}
			hx.Fail(t, ev.Failure{Property: p, Signature: sig, Clause: clause, Case: desc, Observed: obs})
		}
		must := func(err error) {
			if err != nil {
				fail(map[bool]string{true: "C08", false: "C09"}[shape == "many-children"], "stalled", "the merged handler keeps working", err.Error())
			}
		}
		authors := gen.Pubkeys(1)
		switch shape {
		case "many-children":
			n := rapid.SampledFrom([]int{63, 64, 65, 66, 70, 130}).Draw(t, "children")
			last := rapid.OneOf(rapid.IntRange(0, n-1), rapid.IntRange(n-7, n-1)).Draw(t, "last_child")
			desc["children"], desc["last_child_to_finish"] = n, last
			rig = newMergeRig(n)
			must(rig.clientSend(&mocrelay.ClientReqMsg{SubscriptionID: "a", ReqFilters: []*mocrelay.ReqFilter{{}}}))
			for i := 0; i < n; i++ {
				_, err := rig.childRecv(i)
				must(err)
			}
			order := rapid.Permutation(intRange(n)).Draw(t, "eose_order")
			for _, i := range order {
				if i == last {
					continue
				}
				out, err := rig.childEmit(i, mocrelay.NewServerEOSEMsg("a"))
				must(err)
				if len(out) != 0 {
					fail("C08", "eose-early-or-repeated", "no EOSE before every child has sent its own (child "+fmt.Sprint(last)+" of "+fmt.Sprint(n)+" has not)", hx.JSON(briefServers(out)))
				}
			}
			e := &mocrelay.Event{Pubkey: authors[0], Kind: 1, CreatedAt: 50, Tags: []mocrelay.Tag{}, Content: "held by the last child"}
			gen.Seal(e)
			out, err := rig.childEmit(last, mocrelay.NewServerEventMsg("a", e))
			must(err)
			if len(out) != 1 {
				fail("C08", "stored-event-dropped", "a matching stored event of a child that has not finished is forwarded before the merged EOSE", hx.JSON(briefServers(out)))
			} else if em, is := out[0].(*mocrelay.ServerEventMsg); !is || em.Event.ID != e.ID || em.SubscriptionID != "a" {
				fail("C08", "stored-event-dropped", "a matching stored event of a child that has not finished is forwarded before the merged EOSE", hx.JSON(briefServers(out)))
			}
			out, err = rig.childEmit(last, mocrelay.NewServerEOSEMsg("a"))
			must(err)
			if len(out) != 1 {
				fail("C08", "merged-eose-missing", "the client receives one EOSE once every child has sent its own", hx.JSON(briefServers(out)))
			} else if eo, is := out[0].(*mocrelay.ServerEOSEMsg); !is || eo.SubscriptionID != "a" {
				fail("C08", "merged-eose-missing", "the client receives one EOSE once every child has sent its own", hx.JSON(briefServers(out)))
			}
			must(rig.close())
			c08.Label("scale:many-children")
			c08.Case(n > 64, hx.JSON(desc), func() any { return desc })
		case "many-children-ok":
			// 12-70 children answer one EVENT in a generated order, several of them rejecting with
			// reasons of their own: the text begins with the reason of the first rejecting child
			// (lowest index, or earliest in time)
			n := rapid.SampledFrom([]int{12, 13, 14, 16, 20, 33, 65, 70}).Draw(t, "children")
			desc["children"] = n
			rig = newMergeRig(n)
			e := &mocrelay.Event{Pubkey: authors[0], Kind: 1, CreatedAt: 1000, Tags: []mocrelay.Tag{}, Content: "many children"}
			gen.Seal(e)
			must(rig.clientSend(&mocrelay.ClientEventMsg{Event: e}))
			for i := 0; i < n; i++ {
				_, err := rig.childRecv(i)
				must(err)
			}
			rejecting := map[int]bool{}
			for i := 0; i < n; i++ {
				if rapid.IntRange(0, 2).Draw(t, fmt.Sprint("rejects", i)) == 0 {
					rejecting[i] = true
				}
			}
			order := rapid.Permutation(intRange(n)).Draw(t, "answer_order")
			desc["answer_order"], desc["rejecting"] = order, sortedInts(rejecting)
			prefixes := []string{"invalid: ", "pow: ", "blocked: ", "rate-limited: ", "error: ", ""}
			reason := func(i int) (string, string) { return prefixes[i%len(prefixes)], fmt.Sprint("child", i, " says no") }
			firstByTime := -1
			for k, i := range order {
				acc := !rejecting[i]
				pfx, msg := "", ""
				if !acc {
					pfx, msg = reason(i)
					if firstByTime < 0 {
						firstByTime = i
					}
				}
				out, err := rig.childEmit(i, mocrelay.NewServerOKMsg(e.ID, acc, pfx, msg))
				must(err)
				if k < n-1 {
					if len(out) != 0 {
						fail("C09", "ok-early", "no OK before every child has answered the request", hx.JSON(briefServers(out)))
					}
					continue
				}
				if len(out) != 1 {
					fail("C09", "ok-missing", "every EVENT is answered by exactly one OK (when the last child answered)", hx.JSON(briefServers(out)))
				}
				o, is := out[0].(*mocrelay.ServerOKMsg)
				if !is || o.EventID != e.ID || o.Accepted != (len(rejecting) == 0) {
					fail("C09", "ok-verdict", "the aggregated OK carries the event's id and accepts iff every child accepted", hx.JSON(briefServers(out)))
				}
				if len(rejecting) > 0 {
					firstByIndex := sortedInts(rejecting)[0]
					pa, ma := reason(firstByIndex)
					pb, mb := reason(firstByTime)
					if !strings.HasPrefix(o.Message(), pa+ma) && !strings.HasPrefix(o.Message(), pb+mb) {
						fail("C09", "ok-reason", "a rejection's text begins with the first rejecting child's reason", fmt.Sprintf("%q; first rejecting child by index %d, by time %d", o.Message(), firstByIndex, firstByTime))
					}
				}
			}
			must(rig.close())
			c09.Label("scale:many-children-ok")
			c09.Case(n > 12, hx.JSON(desc), func() any { return desc })
		case "slow-ok":
			k := rapid.SampledFrom([]int{300, 1023, 1024, 1025, 1100, 2100}).Draw(t, "others")
			desc["events_while_one_waits"] = k
			rig = newMergeRig(2)
			mk := func(i int) *mocrelay.Event {
				e := &mocrelay.Event{Pubkey: authors[0], Kind: 1, CreatedAt: int64(1000 + i), Tags: []mocrelay.Tag{}, Content: fmt.Sprint("slow-ok ", i)}
				gen.Seal(e)
				return e
			}
			slow := mk(-1)
			must(rig.clientSend(&mocrelay.ClientEventMsg{Event: slow}))
			for i := 0; i < 2; i++ {
				_, err := rig.childRecv(i)
				must(err)
			}
			out, err := rig.childEmit(0, mocrelay.NewServerOKMsg(slow.ID, true, "", ""))
			must(err)
			if len(out) != 0 {
				fail("C09", "ok-early", "no OK before every child has answered the request", hx.JSON(briefServers(out)))
			}
			for i := 0; i < k; i++ {
				e := mk(i)
				must(rig.clientSend(&mocrelay.ClientEventMsg{Event: e}))
				for c := 0; c < 2; c++ {
					_, err := rig.childRecv(c)
					must(err)
				}
				first := i % 2
				out, err := rig.childEmit(first, mocrelay.NewServerOKMsg(e.ID, true, "", ""))
				must(err)
				if len(out) != 0 {
					fail("C09", "ok-early", "no OK before every child has answered the request", hx.JSON(briefServers(out)))
				}
				out, err = rig.childEmit(1-first, mocrelay.NewServerOKMsg(e.ID, i%5 != 0, "", "x"))
				must(err)
				if len(out) != 1 {
					fail("C09", "ok-missing", "every EVENT is answered by exactly one OK (when the last child answered)", fmt.Sprintf("event %d of %d: %s", i, k, hx.JSON(briefServers(out))))
				} else if o, is := out[0].(*mocrelay.ServerOKMsg); !is || o.EventID != e.ID || o.Accepted != (i%5 != 0) {
					fail("C09", "ok-verdict", "the aggregated OK carries the event's id and accepts iff every child accepted", fmt.Sprintf("event %d of %d: %s", i, k, hx.JSON(briefServers(out))))
				}
			}
			out, err = rig.childEmit(1, mocrelay.NewServerOKMsg(slow.ID, true, "", ""))
			must(err)
			if len(out) != 1 {
				fail("C09", "ok-missing", "every EVENT is answered by exactly one OK: the slow child's answer completes the oldest request, however many others were answered meanwhile", hx.JSON(briefServers(out)))
			} else if o, is := out[0].(*mocrelay.ServerOKMsg); !is || o.EventID != slow.ID || !o.Accepted {
				fail("C09", "ok-verdict", "the aggregated OK carries the event's id and accepts iff every child accepted", hx.JSON(briefServers(out)))
			}
			must(rig.close())
			c09.Label("scale:slow-ok")
			c09.Case(k > 1024, hx.JSON(desc), func() any { return desc })
		default:
			k := rapid.SampledFrom([]int{8, 9, 12, 17, 33, 40}).Draw(t, "counts_in_flight")
			desc["counts_in_flight"] = k
			rig = newMergeRig(2)
			sent, recvd := 0, [2]int{}
			answered := [2]int{}
			val := func(c, i int) uint64 { return uint64(100*(c+1) + (i*7)%50) }
			completed := 0
			var trace []string
			desc["schedule"] = &trace
			for completed < k {
				var acts []string
				if sent < k {
					acts = append(acts, "send", "send")
				}
				for c := 0; c < 2; c++ {
					if recvd[c] < sent && (c == 0 || recvd[0] > recvd[1]) {
						acts = append(acts, fmt.Sprint("recv", c))
					}
					if answered[c] < recvd[c] {
						acts = append(acts, fmt.Sprint("ans", c), fmt.Sprint("ans", c))
					}
				}
				a := rapid.SampledFrom(acts).Draw(t, fmt.Sprint("act", len(trace)))
				trace = append(trace, a)
				switch {
				case a == "send":
					// the broadcast is in order: child 0 takes a query before child 1 does, and the
					// merger hands out one message at a time
					for c := 0; c < 2; c++ {
						for recvd[c] < sent {
							_, err := rig.childRecv(c)
							must(err)
							recvd[c]++
						}
					}
					must(rig.clientSend(&mocrelay.ClientCountMsg{SubscriptionID: "q", ReqFilters: []*mocrelay.ReqFilter{{}}}))
					sent++
				case a[:4] == "recv":
					c := int(a[4] - '0')
					_, err := rig.childRecv(c)
					must(err)
					recvd[c]++
				default:
					c := int(a[3] - '0')
					i := answered[c]
					out, err := rig.childEmit(c, mocrelay.NewServerCountMsg("q", val(c, i), nil))
					must(err)
					answered[c]++
					if answered[0] > completed && answered[1] > completed {
						want := max(val(0, completed), val(1, completed))
						if len(out) != 1 {
							fail("C09", "count-missing", "every COUNT is answered by exactly one COUNT reply (when the last child answered)", fmt.Sprintf("query %d of %d: %s", completed, k, hx.JSON(briefServers(out))))
						} else if cm, is := out[0].(*mocrelay.ServerCountMsg); !is || cm.SubscriptionID != "q" || cm.Count != want {
							fail("C09", "count-value", "the COUNT reply carries the maximum of the children's counts for that query", fmt.Sprintf("query %d of %d: got %s, want %d", completed, k, hx.JSON(briefServers(out)), want))
						}
						completed++
					} else if len(out) != 0 {
						fail("C09", "count-early", "no COUNT reply before every child has answered", hx.JSON(briefServers(out)))
					}
				}
			}
			must(rig.close())
			c09.Label("scale:deep-count")
			c09.Case(k > 8, hx.JSON(desc), func() any { return desc })
		}
	})
}

func sortedInts(m map[int]bool) []int {
	out := make([]int, 0, len(m))
	for k := range m {
		out = append(out, k)
	}
	sort.Ints(out)
	return out
}

func intRange(n int) []int {
	out := make([]int, n)
	for i := range out {
		out[i] = i
	}
	return out
}

// storeChild answers like a small store: REQ -> its stored events (newest first), EOSE;
// EVENT -> OK with a reason that names the child and the event; COUNT -> its count.
type storeChild struct {
	idx    int
	stored []*mocrelay.Event
	reject func(id string) bool
	reason func(idx int, id string) string
}

func (c *storeChild) ServeNostr(ctx context.Context, send chan<- mocrelay.ServerMsg, recv <-chan mocrelay.ClientMsg) error {
	out := func(m mocrelay.ServerMsg) bool {
		select {
		case send <- m:
			return true
		case <-ctx.Done():
			return false
		}
	}
	for {
		select {
		case <-ctx.Done():
			return ctx.Err()
		case m, ok := <-recv:
			if !ok {
				return mocrelay.ErrRecvClosed
			}
			switch x := m.(type) {
			case *mocrelay.ClientReqMsg:
				for _, e := range c.stored {
					if !out(mocrelay.NewServerEventMsg(x.SubscriptionID, e)) {
						return ctx.Err()
					}
				}
				if !out(mocrelay.NewServerEOSEMsg(x.SubscriptionID)) {
					return ctx.Err()
				}
			case *mocrelay.ClientEventMsg:
				acc := c.reject == nil || !c.reject(x.Event.ID)
				msg := ""
				if !acc && c.reason != nil {
					msg = c.reason(c.idx, x.Event.ID)
				}
				if !out(mocrelay.NewServerOKMsg(x.Event.ID, acc, "", msg)) {
					return ctx.Err()
				}
			case *mocrelay.ClientCountMsg:
				if !out(mocrelay.NewServerCountMsg(x.SubscriptionID, uint64(len(c.stored)), nil)) {
					return ctx.Err()
				}
			}
		}
	}
}

// TestMergeReissueAfterEOSE: a client that re-issues a subscription id the moment it has
// received its merged EOSE (legal: the id is free again), round after round, free-running.
// Every round obeys the REQ rules: the stored events once each, newest first, then one EOSE.
func TestMergeReissueAfterEOSE(t *testing.T) {
	c08 := ev.For("C08").SetRule(c08Rule)
	rapid.Check(t, func(t *rapid.T) {
		n := rapid.IntRange(2, 4).Draw(t, "children")
		rounds := rapid.IntRange(50, 300).Draw(t, "rounds")
		k := rapid.IntRange(1, 5).Draw(t, "stored")
		buffered := rapid.Bool().Draw(t, "client_channel_buffered")
		authors := gen.Pubkeys(1)
		var pool []*mocrelay.Event
		for i := 0; i < k; i++ {
			e := &mocrelay.Event{Pubkey: authors[0], Kind: 1, CreatedAt: int64(100 - i), Tags: []mocrelay.Tag{}, Content: fmt.Sprint("stored", i)}
			gen.Seal(e)
			pool = append(pool, e)
		}
		hs := make([]mocrelay.Handler, n)
		for i := range hs {
			hs[i] = &storeChild{idx: i, stored: pool}
		}
		desc := map[string]any{"mode": "free-running: REQ a, EOSE, REQ a again at once", "children": n, "rounds": rounds, "stored_per_child": k, "client_channel_buffered": buffered}
		h := mocrelay.NewMergeHandler(hs...)
		ctx, cancel := context.WithCancel(context.Background())
		defer cancel()
		recv := make(chan mocrelay.ClientMsg)
		nbuf := 0
		if buffered {
			nbuf = 8
		}
		send := make(chan mocrelay.ServerMsg, nbuf)
		go h.ServeNostr(ctx, send, recv)
		req := &mocrelay.ClientReqMsg{SubscriptionID: "a", ReqFilters: []*mocrelay.ReqFilter{{}}}
		for r := 0; r < rounds; r++ {
			select {
			case recv <- req:
			case <-time.After(stepTimeout):
				hx.Fail(t, ev.Failure{Property: "C08", Signature: "stalled", Clause: "the merged handler takes a REQ", Case: desc, Observed: fmt.Sprintf("round %d", r)})
			}
			var got []string
			for {
				var m mocrelay.ServerMsg
				select {
				case m = <-send:
				case <-time.After(5 * time.Second):
					hx.Fail(t, ev.Failure{Property: "C08", Signature: "merged-eose-missing", Clause: "the client receives one EOSE once every child has sent its own (a subscription id re-issued right after its EOSE)", Case: desc,
						Observed: fmt.Sprintf("round %d: no EOSE after %d events", r, len(got))})
				}
				if em, is := m.(*mocrelay.ServerEventMsg); is {
					got = append(got, em.Event.ID)
					if len(got) > k {
						hx.Fail(t, ev.Failure{Property: "C08", Signature: "pre-eose-duplicate", Clause: "before EOSE no event id appears twice (a subscription id re-issued right after its EOSE)", Case: desc,
							Observed: fmt.Sprintf("round %d: %s", r, hx.JSON(gen.ShortAll(got)))})
					}
					continue
				}
				if _, is := m.(*mocrelay.ServerEOSEMsg); is {
					break
				}
			}
			want := make([]string, len(pool))
			for i, e := range pool {
				want[i] = e.ID
			}
			if hx.JSON(got) != hx.JSON(want) {
				hx.Fail(t, ev.Failure{Property: "C08", Signature: "pre-eose-stream", Clause: "before EOSE the client receives the children's matching events once each, newest first", Case: desc,
					Observed: fmt.Sprintf("round %d: %s", r, hx.JSON(gen.ShortAll(got))), Expected: hx.JSON(gen.ShortAll(want))})
			}
		}
		c08.Label("mode:reissue-after-eose")
		c08.Case(true, hx.JSON(desc), func() any { return desc })
	})
}

// TestMergeConcurrentSessions: several sessions of ONE merged handler publish at the same
// time. Each EVENT gets one OK with its own id; a rejection's text begins with the reason of
// the first rejecting child for that very event (the reasons name child and event).
func TestMergeConcurrentSessions(t *testing.T) {
	c09 := ev.For("C09").SetRule(c09Rule)
	rapid.Check(t, func(t *rapid.T) {
		n := rapid.IntRange(2, 3).Draw(t, "children")
		ns := rapid.IntRange(2, 8).Draw(t, "sessions")
		per := rapid.IntRange(50, 400).Draw(t, "events_per_session")
		rlen := rapid.SampledFrom([]int{10, 200, 4000}).Draw(t, "reason_length")
		desc := map[string]any{"mode": "concurrent sessions of one merged handler", "children": n, "sessions": ns, "events_per_session": per, "reason_length": rlen}
		reason := func(idx int, id string) string {
			return fmt.Sprintf("child%d refuses %s %s", idx, id[:12], strings.Repeat(string(rune('a'+idx)), rlen))
		}
		// child i rejects ids whose first hex digit is below a threshold that depends on i
		rejects := func(idx int, id string) bool { return int(id[idx%8]%4) == 0 }
		hs := make([]mocrelay.Handler, n)
		for i := range hs {
			i := i
			hs[i] = &storeChild{idx: i, reject: func(id string) bool { return rejects(i, id) }, reason: reason}
		}
		h := mocrelay.NewMergeHandler(hs...)
		authors := gen.Pubkeys(2)
		fails := make([]string, ns)
		var wg sync.WaitGroup
		for s := 0; s < ns; s++ {
			wg.Add(1)
			go func(s int) {
				defer wg.Done()
				ctx, cancel := context.WithCancel(context.Background())
				defer cancel()
				recv := make(chan mocrelay.ClientMsg)
				send := make(chan mocrelay.ServerMsg)
				go h.ServeNostr(ctx, send, recv)
				for j := 0; j < per; j++ {
					e := &mocrelay.Event{Pubkey: authors[s%2], Kind: 1, CreatedAt: int64(j), Tags: []mocrelay.Tag{}, Content: fmt.Sprint("s", s, "e", j)}
					gen.Seal(e)
					select {
					case recv <- &mocrelay.ClientEventMsg{Event: e}:
					case <-time.After(stepTimeout):
						fails[s] = "EVENT not taken"
						return
					}
					var m mocrelay.ServerMsg
					select {
					case m = <-send:
					case <-time.After(stepTimeout):
						fails[s] = fmt.Sprintf("no OK for event %d", j)
						return
					}
					o, is := m.(*mocrelay.ServerOKMsg)
					if !is || o.EventID != e.ID {
						fails[s] = fmt.Sprintf("event %d answered by %s", j, hx.JSON(briefServer(m)))
						return
					}
					first := -1
					for c := 0; c < n; c++ {
						if rejects(c, e.ID) {
							first = c
							break
						}
					}
					if o.Accepted != (first < 0) {
						fails[s] = fmt.Sprintf("event %d: accepted=%v, first rejecting child %d", j, o.Accepted, first)
						return
					}
					if first >= 0 {
						ok := false
						for c := 0; c < n; c++ { // lowest index or earliest in time
							if rejects(c, e.ID) && strings.HasPrefix(o.Message(), reason(c, e.ID)) {
								ok = true
							}
						}
						if !ok {
							msg := o.Message()
							if len(msg) > 120 {
								msg = msg[:120] + "..."
							}
							fails[s] = fmt.Sprintf("event %d (%s): rejection text %q does not begin with a rejecting child's reason for it", j, e.ID[:12], msg)
							return
						}
					}
				}
			}(s)
		}
		wg.Wait()
		for s, f := range fails {
			if f != "" {
				hx.Fail(t, ev.Failure{Property: "C09", Signature: "ok-concurrent-sessions", Clause: "every EVENT is answered by exactly one OK carrying its id, accepting iff every child accepted, a rejection's text beginning with the first rejecting child's reason (several sessions of one merged handler at once)",
					Case: desc, Observed: fmt.Sprintf("session %d: %s", s, f)})
			}
		}
		c09.Label("mode:concurrent-sessions")
		c09.Case(true, hx.JSON(desc), func() any { return desc })
	})
}
