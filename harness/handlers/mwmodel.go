package handlers

import (
	"fmt"
	"time"

	"github.com/high-moctane/mocrelay"
	"pgregory.net/rapid"

	"verifharness/gen"
)

// Specification-side models of the provided middlewares (own re-statement of
// each limit, written from the property text).

type mwSpec struct {
	Kind    string                `json:"kind"`
	N       int                   `json:"n,omitempty"`
	From    int64                 `json:"from,omitempty"` // seconds (window) / limit seconds (lower, upper)
	To      int64                 `json:"to,omitempty"`
	Filters []*mocrelay.ReqFilter `json:"-"`
	FDesc   any                   `json:"filters,omitempty"`
}

func (s mwSpec) build() mocrelay.Middleware {
	switch s.Kind {
	case "maxfilters":
		return mocrelay.Middleware(mocrelay.NewMaxReqFiltersMiddleware(s.N))
	case "maxlimit":
		return mocrelay.Middleware(mocrelay.NewMaxLimitMiddleware(s.N))
	case "maxsubid":
		return mocrelay.Middleware(mocrelay.NewMaxSubIDLengthMiddleware(s.N))
	case "maxtags":
		return mocrelay.Middleware(mocrelay.NewMaxEventTagsMiddleware(s.N))
	case "maxcontent":
		return mocrelay.Middleware(mocrelay.NewMaxContentLengthMiddleware(s.N))
	case "lower":
		return mocrelay.Middleware(mocrelay.NewCreatedAtLowerLimitMiddleware(s.From))
	case "upper":
		return mocrelay.Middleware(mocrelay.NewCreatedAtUpperLimitMiddleware(s.From))
	case "window":
		return mocrelay.Middleware(mocrelay.NewEventCreatedAtMiddleware(time.Duration(s.From)*time.Second, time.Duration(s.To)*time.Second))
	case "allow":
		return mocrelay.Middleware(mocrelay.NewRecvEventAllowFilterMiddleware(mocrelay.NewReqFiltersEventLimitMatcher(s.Filters)))
	case "deny":
		return mocrelay.Middleware(mocrelay.NewRecvEventDenyFilterMiddleware(mocrelay.NewReqFiltersEventLimitMatcher(s.Filters)))
	case "maxsubs":
		return mocrelay.Middleware(mocrelay.NewMaxSubscriptionsMiddleware(s.N))
	}
	panic("unknown middleware kind " + s.Kind)
}

// mwState is the per-session model state of one middleware.
type mwState struct {
	spec mwSpec
	open map[string]bool // maxsubs
}

func newMwState(s mwSpec) *mwState { return &mwState{spec: s, open: map[string]bool{}} }

// client decides whether the middleware forwards msg (true) or rejects it.
// now is the wall clock in seconds at the time the message was generated.
func (m *mwState) client(msg mocrelay.ClientMsg, now int64) bool {
	s := m.spec
	filters := func() ([]*mocrelay.ReqFilter, string, bool) {
		switch x := msg.(type) {
		case *mocrelay.ClientReqMsg:
			return x.ReqFilters, x.SubscriptionID, true
		case *mocrelay.ClientCountMsg:
			return x.ReqFilters, x.SubscriptionID, true
		}
		return nil, "", false
	}
	event := func() *mocrelay.Event {
		if x, ok := msg.(*mocrelay.ClientEventMsg); ok {
			return x.Event
		}
		return nil
	}
	switch s.Kind {
	case "maxfilters":
		if fs, _, ok := filters(); ok {
			return len(fs) <= s.N
		}
	case "maxlimit":
		if fs, _, ok := filters(); ok {
			for _, f := range fs {
				if f.Limit != nil && *f.Limit > int64(s.N) {
					return false
				}
			}
		}
	case "maxsubid":
		if _, id, ok := filters(); ok {
			return len(id) <= s.N
		}
	case "maxtags":
		if e := event(); e != nil {
			return len(e.Tags) <= s.N
		}
	case "maxcontent":
		if e := event(); e != nil {
			return len(e.Content) <= s.N
		}
	case "lower":
		if e := event(); e != nil {
			return now-e.CreatedAt <= s.From
		}
	case "upper":
		if e := event(); e != nil {
			return e.CreatedAt-now <= s.From
		}
	case "window":
		if e := event(); e != nil {
			d := e.CreatedAt - now
			return s.From <= d && d <= s.To
		}
	case "allow":
		if e := event(); e != nil {
			return gen.MatchAny(e, s.Filters)
		}
	case "deny":
		if e := event(); e != nil {
			return !gen.MatchAny(e, s.Filters)
		}
	case "maxsubs":
		switch x := msg.(type) {
		case *mocrelay.ClientReqMsg:
			if m.open[x.SubscriptionID] {
				return true
			}
			if len(m.open) < s.N {
				m.open[x.SubscriptionID] = true
				return true
			}
			return false
		case *mocrelay.ClientCloseMsg:
			delete(m.open, x.SubscriptionID)
		}
	}
	return true
}

// margin reports whether the decision of a time-based middleware for this
// event is at least 5 seconds away from its moving boundary.
func (s mwSpec) timeSafe(e *mocrelay.Event, now int64) bool {
	far := func(a, b int64) bool {
		d := a - b
		if d < 0 {
			d = -d
		}
		return d >= 5
	}
	switch s.Kind {
	case "lower":
		return far(now-e.CreatedAt, s.From)
	case "upper":
		return far(e.CreatedAt-now, s.From)
	case "window":
		return far(e.CreatedAt-now, s.From) && far(e.CreatedAt-now, s.To)
	}
	return true
}

// drawSpec draws one limit middleware configuration.
func drawSpec(t *rapid.T, label string, kinds []string, authors []string) mwSpec {
	k := rapid.SampledFrom(kinds).Draw(t, label+"kind")
	s := mwSpec{Kind: k}
	switch k {
	case "maxfilters", "maxlimit", "maxsubid", "maxtags", "maxcontent", "maxsubs":
		s.N = rapid.IntRange(1, 8).Draw(t, label+"n")
		if k == "maxsubs" {
			s.N = rapid.IntRange(1, 4).Draw(t, label+"n")
		} else if rapid.IntRange(0, 5).Draw(t, label+"large") == 0 {
			// limits far from the small ones: every configured value is enforced as it is
			s.N = rapid.SampledFrom(map[string][]int{
				"maxsubid": {63, 64, 65, 100, 1000}, "maxcontent": {255, 256, 1024, 65536}, "maxtags": {64, 100, 256},
				"maxfilters": {64, 100}, "maxlimit": {500, 5000, 65536, 1 << 31},
			}[k]).Draw(t, label+"nlarge")
		}
	case "lower", "upper":
		// also the legal extremes: 0 ("nothing older than now" / "nothing from the future") and a negative limit
		s.From = rapid.OneOf(rapid.Int64Range(10, 100000), rapid.Int64Range(10, 100), rapid.Just(int64(1000000000)), rapid.SampledFrom([]int64{0, 0, -30})).Draw(t, label+"secs")
	case "window":
		s.From = -rapid.Int64Range(10, 100000).Draw(t, label+"from")
		s.To = rapid.Int64Range(10, 100000).Draw(t, label+"to")
	case "allow", "deny":
		n := rapid.IntRange(1, 2).Draw(t, label+"nf")
		for i := 0; i < n; i++ {
			f := &mocrelay.ReqFilter{}
			switch rapid.IntRange(0, 3).Draw(t, fmt.Sprintf("%sf%dshape", label, i)) {
			case 0:
				f.Kinds = []int64{rapid.SampledFrom([]int64{1, 7}).Draw(t, fmt.Sprintf("%sf%dk", label, i))}
			case 1:
				f.Authors = []string{rapid.SampledFrom(authors).Draw(t, fmt.Sprintf("%sf%da", label, i))}
			case 2:
				f.Kinds = []int64{rapid.SampledFrom([]int64{1, 7}).Draw(t, fmt.Sprintf("%sf%dk", label, i))}
				f.Authors = []string{rapid.SampledFrom(authors).Draw(t, fmt.Sprintf("%sf%da", label, i))}
			case 3:
				// an operator's filter may name any tag (the generated events carry t = 0, 1, 2, ...)
				f.Tags = map[string][]string{rapid.SampledFrom([]string{"t", "t", "client"}).Draw(t, fmt.Sprintf("%sf%dtn", label, i)): {rapid.SampledFrom([]string{"0", "1", "verif"}).Draw(t, fmt.Sprintf("%sf%dtv", label, i))}}
			}
			s.Filters = append(s.Filters, f)
		}
		s.FDesc = gen.BriefFilters(s.Filters)
	}
	return s
}

var limitKinds = []string{"maxfilters", "maxlimit", "maxsubid", "maxtags", "maxcontent", "lower", "upper", "window", "allow", "deny"}

// around draws a size below / at / above a limit.
func around(t *rapid.T, label string, limit int) int {
	v := limit + rapid.SampledFrom([]int{-1, 0, 0, 1, 1, 2, -limit, 5}).Draw(t, label)
	if v < 0 {
		v = 0
	}
	return v
}

type msgTargets struct {
	maxfilters, maxlimit, maxsubid, maxtags, maxcontent []int
	lower, upper                                        []int64
	window                                              [][2]int64
	quota                                               bool
}

func targetsOf(stack []mwSpec) msgTargets {
	var tg msgTargets
	for _, s := range stack {
		switch s.Kind {
		case "maxfilters":
			tg.maxfilters = append(tg.maxfilters, s.N)
		case "maxlimit":
			tg.maxlimit = append(tg.maxlimit, s.N)
		case "maxsubid":
			tg.maxsubid = append(tg.maxsubid, s.N)
		case "maxtags":
			tg.maxtags = append(tg.maxtags, s.N)
		case "maxcontent":
			tg.maxcontent = append(tg.maxcontent, s.N)
		case "lower":
			tg.lower = append(tg.lower, s.From)
		case "upper":
			tg.upper = append(tg.upper, s.From)
		case "window":
			tg.window = append(tg.window, [2]int64{s.From, s.To})
		case "maxsubs":
			tg.quota = true
		}
	}
	return tg
}

func pick(t *rapid.T, label string, limits []int, def int) int {
	if len(limits) == 0 || rapid.IntRange(0, 4).Draw(t, label+"free") == 0 {
		return rapid.IntRange(0, def).Draw(t, label+"v")
	}
	return around(t, label+"a", rapid.SampledFrom(limits).Draw(t, label+"l"))
}

// drawClientMsg draws a client message whose sizes sit below/at/above the limits of the stack.
func drawClientMsg(t *rapid.T, label string, tg msgTargets, authors []string, now int64) mocrelay.ClientMsg {
	drawEvent := func(small bool) *mocrelay.Event {
		e := &mocrelay.Event{}
		e.Pubkey = rapid.SampledFrom(authors).Draw(t, label+"pk")
		e.Kind = rapid.SampledFrom([]int64{1, 7, 0, 30000}).Draw(t, label+"kind")
		nt, nc := 1, 1
		var off int64
		if !small {
			nt = pick(t, label+"ntags", tg.maxtags, 3)
			nc = pick(t, label+"ncontent", tg.maxcontent, 6)
			// created_at offset relative to now, at least 5 s away from every boundary
			switch rapid.IntRange(0, 4).Draw(t, label+"tsmode") {
			case 4:
				// far away from every boundary: centuries ahead, the epoch, milliseconds mistaken for seconds
				off = rapid.SampledFrom([]int64{9223372037, 18446744074, 1<<40 - now, 1<<62 - now, -now, now * 999, -(1 << 40)}).Draw(t, label+"far")
			case 0:
				off = 0
			case 1:
				if len(tg.lower) > 0 {
					l := rapid.SampledFrom(tg.lower).Draw(t, label+"lowerl")
					off = -(l + rapid.SampledFrom([]int64{-7, -5, 5, 7, 60}).Draw(t, label+"lowerd"))
				}
			case 2:
				if len(tg.upper) > 0 {
					l := rapid.SampledFrom(tg.upper).Draw(t, label+"upperl")
					off = l + rapid.SampledFrom([]int64{-7, -5, 5, 7, 60}).Draw(t, label+"upperd")
				}
			case 3:
				if len(tg.window) > 0 {
					w := rapid.SampledFrom(tg.window).Draw(t, label+"windoww")
					b := w[rapid.IntRange(0, 1).Draw(t, label+"windowside")]
					off = b + rapid.SampledFrom([]int64{-7, -5, 5, 7, 60}).Draw(t, label+"windowd")
				}
			}
		}
		e.CreatedAt = now + off
		e.Tags = []mocrelay.Tag{}
		for i := 0; i < nt; i++ {
			if i == 1 && nt >= 2 && e.Kind == 7 {
				e.Tags = append(e.Tags, mocrelay.Tag{"client", "verif"})
				continue
			}
			e.Tags = append(e.Tags, mocrelay.Tag{"t", fmt.Sprint(i)})
		}
		b := make([]byte, nc)
		for i := range b {
			b[i] = 'a' + byte(i%26)
		}
		e.Content = string(b)
		gen.Seal(e)
		return e
	}
	drawSub := func() string {
		n := pick(t, label+"subidlen", tg.maxsubid, 4)
		if n == 0 {
			n = 1
		}
		c := rapid.SampledFrom([]byte("abcde")).Draw(t, label+"subidch")
		b := make([]byte, n)
		for i := range b {
			b[i] = c
		}
		return string(b)
	}
	drawFilters := func() []*mocrelay.ReqFilter {
		n := pick(t, label+"nfilters", tg.maxfilters, 3)
		if n == 0 {
			n = 1
		}
		fs := make([]*mocrelay.ReqFilter, n)
		for i := range fs {
			fs[i] = &mocrelay.ReqFilter{}
			if rapid.Bool().Draw(t, fmt.Sprintf("%sf%dlim?", label, i)) {
				fs[i].Limit = gen.Ptr(int64(pick(t, fmt.Sprintf("%sf%dlim", label, i), tg.maxlimit, 10)))
			}
			if rapid.IntRange(0, 2).Draw(t, fmt.Sprintf("%sf%dk?", label, i)) == 0 {
				fs[i].Kinds = []int64{1}
			}
		}
		return fs
	}
	switch rapid.IntRange(0, 9).Draw(t, label+"type") {
	case 0, 1, 2, 3:
		return &mocrelay.ClientEventMsg{Event: drawEvent(false)}
	case 4, 5, 6:
		return &mocrelay.ClientReqMsg{SubscriptionID: drawSub(), ReqFilters: drawFilters()}
	case 7:
		return &mocrelay.ClientCountMsg{SubscriptionID: drawSub(), ReqFilters: drawFilters()}
	case 8:
		return &mocrelay.ClientCloseMsg{SubscriptionID: drawSub()}
	default:
		return &mocrelay.ClientAuthMsg{Event: drawEvent(true)}
	}
}

// drawServerMsg draws a downstream server message of any of the 7 types.
func drawServerMsg(t *rapid.T, label string, authors []string) mocrelay.ServerMsg {
	sub := rapid.SampledFrom([]string{"a", "b", "c", "zz"}).Draw(t, label+"sub")
	switch rapid.IntRange(0, 6).Draw(t, label+"type") {
	case 0:
		return mocrelay.NewServerEOSEMsg(sub)
	case 1:
		e := &mocrelay.Event{Pubkey: rapid.SampledFrom(authors).Draw(t, label+"pk"), Kind: 1, CreatedAt: rapid.Int64Range(1, 5).Draw(t, label+"ts"),
			Content: rapid.SampledFrom([]string{"x", "y", "z"}).Draw(t, label+"c")}
		gen.Seal(e)
		return mocrelay.NewServerEventMsg(sub, e)
	case 2:
		return mocrelay.NewServerNoticeMsg("notice " + sub)
	case 3:
		return mocrelay.NewServerOKMsg(gen.FakeID(rapid.IntRange(0, 3).Draw(t, label+"id")), rapid.Bool().Draw(t, label+"acc"), "", "m")
	case 4:
		return &mocrelay.ServerAuthMsg{Challenge: "ch" + sub}
	case 5:
		return mocrelay.NewServerCountMsg(sub, uint64(rapid.IntRange(0, 9).Draw(t, label+"cnt")), nil)
	default:
		return mocrelay.NewServerClosedMsg(sub, "", "closed")
	}
}

func briefClient(m mocrelay.ClientMsg) any {
	switch x := m.(type) {
	case *mocrelay.ClientEventMsg:
		return map[string]any{"EVENT": gen.Short(x.Event.ID), "kind": x.Event.Kind, "ntags": len(x.Event.Tags), "content_len": len(x.Event.Content), "created_at": x.Event.CreatedAt, "pk": gen.Short(x.Event.Pubkey)}
	case *mocrelay.ClientAuthMsg:
		return map[string]any{"AUTH": gen.Short(x.Event.ID)}
	case *mocrelay.ClientReqMsg:
		return map[string]any{"REQ": x.SubscriptionID, "filters": gen.BriefFilters(x.ReqFilters)}
	case *mocrelay.ClientCountMsg:
		return map[string]any{"COUNT": x.SubscriptionID, "filters": gen.BriefFilters(x.ReqFilters)}
	case *mocrelay.ClientCloseMsg:
		return map[string]any{"CLOSE": x.SubscriptionID}
	}
	return fmt.Sprintf("%T", m)
}

func briefServer(m mocrelay.ServerMsg) any {
	switch x := m.(type) {
	case *mocrelay.ServerEOSEMsg:
		return []any{"EOSE", x.SubscriptionID}
	case *mocrelay.ServerEventMsg:
		return []any{"EVENT", x.SubscriptionID, gen.Short(x.Event.ID), x.Event.CreatedAt}
	case *mocrelay.ServerNoticeMsg:
		return []any{"NOTICE", x.Message}
	case *mocrelay.ServerOKMsg:
		return []any{"OK", gen.Short(x.EventID), x.Accepted, x.Message()}
	case *mocrelay.ServerAuthMsg:
		return []any{"AUTH", x.Challenge}
	case *mocrelay.ServerCountMsg:
		return []any{"COUNT", x.SubscriptionID, x.Count}
	case *mocrelay.ServerClosedMsg:
		return []any{"CLOSED", x.SubscriptionID, x.Message()}
	case nil:
		return nil
	}
	return fmt.Sprintf("%T", m)
}

func briefServers(ms []mocrelay.ServerMsg) []any {
	out := make([]any, len(ms))
	for i, m := range ms {
		out[i] = briefServer(m)
	}
	return out
}

func briefClients(ms []mocrelay.ClientMsg) []any {
	out := make([]any, len(ms))
	for i, m := range ms {
		out[i] = briefClient(m)
	}
	return out
}

// rejectionFor checks that reply is the protocol's rejection of msg.
func rejectionFor(msg mocrelay.ClientMsg, reply mocrelay.ServerMsg) bool {
	switch x := msg.(type) {
	case *mocrelay.ClientEventMsg:
		ok, is := reply.(*mocrelay.ServerOKMsg)
		return is && !ok.Accepted && ok.EventID == x.Event.ID
	case *mocrelay.ClientReqMsg:
		c, is := reply.(*mocrelay.ServerClosedMsg)
		return is && c.SubscriptionID == x.SubscriptionID
	case *mocrelay.ClientCountMsg:
		c, is := reply.(*mocrelay.ServerClosedMsg)
		return is && c.SubscriptionID == x.SubscriptionID
	}
	return false
}
