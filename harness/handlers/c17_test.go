package handlers

import (
	"fmt"
	"os"
	"testing"
	"time"

	"github.com/high-moctane/mocrelay"
	"pgregory.net/rapid"

	"verifharness/ev"
	"verifharness/gen"
	"verifharness/hx"
)

func TestMain(m *testing.M) {
	code := m.Run()
	ev.Flush()
	os.Exit(code)
}

const c17Rule = "cases = a generated stack of 1-4 limit middlewares (max filters / max limit / max sub-id length / max event tags / max content length / created_at lower, upper, window / allow / deny filter; limits 1-8, time limits 10..1e9 s) in generated order, or the chain built from a generated NIP-11 limitation block (any subset of the 7 limits, nil Limitation, nil document), around a recording handler; 4-14 generated client messages of all 5 types with sizes below/at/above each limit (timestamps >= 5 s from the moving boundary) and 0-6 downstream server messages of all 7 types, pushed through the real NewSimpleMiddleware plumbing with a barrier after each message; oracle: own re-statement of each limit; non-trivial = the sequence contains for one middleware of a stack of >= 2 both a message exactly at its limit (passes) and one just above (rejected); distinct by hash of stack+messages"

type c17Case struct {
	Stack    []mwSpec `json:"stack"`
	NIP11    any      `json:"nip11,omitempty"`
	Messages []any    `json:"messages"`
}

// runStack drives one session through the stack and checks every message.
func runStack(t *rapid.T, col *ev.Collector, prop string, specs []mwSpec, stack func(mocrelay.Handler) mocrelay.Handler, desc *c17Case) (atLimit, aboveLimit map[int]bool) {
	authors := gen.Pubkeys(3)
	rig := NewRig(stack)
	s, err := rig.Start()
	if err != nil {
		hx.Fail(t, ev.Failure{Property: prop, Signature: "session-start", Clause: "the middleware stack starts a session", Case: desc, Observed: err.Error()})
	}
	defer func() { s.End() }()
	states := make([]*mwState, len(specs))
	for i, sp := range specs {
		states[i] = newMwState(sp)
	}
	tg := targetsOf(specs)
	atLimit, aboveLimit = map[int]bool{}, map[int]bool{}
	n := rapid.IntRange(4, 14).Draw(t, "nmsgs")
	// with a stateful (quota) middleware in the stack the connection may be replaced by a
	// new one half way: the new connection starts from a clean slate
	reconnectAt := -1
	if tg.quota && rapid.Bool().Draw(t, "reconnect") {
		reconnectAt = rapid.IntRange(1, n-1).Draw(t, "reconnect_at")
	}
	for i := 0; i < n; i++ {
		if i == reconnectAt {
			desc.Messages = append(desc.Messages, "connection ends (subscriptions left open), a new connection starts")
			if err := s.End(); err != nil {
				hx.Fail(t, ev.Failure{Property: prop, Signature: "session-end", Clause: "the session ends after cancel", Case: desc, Observed: err.Error()})
			}
			s, err = rig.Start()
			if err != nil {
				hx.Fail(t, ev.Failure{Property: prop, Signature: "session-start", Clause: "the middleware stack starts a second session", Case: desc, Observed: err.Error()})
			}
			for j, sp := range specs {
				states[j] = newMwState(sp)
			}
		}
		if rapid.IntRange(0, 3).Draw(t, fmt.Sprintf("m%d.dir", i)) == 0 {
			// downstream server messages
			k := rapid.IntRange(1, 3).Draw(t, fmt.Sprintf("m%d.nsrv", i))
			var msgs []mocrelay.ServerMsg
			for j := 0; j < k; j++ {
				msgs = append(msgs, drawServerMsg(t, fmt.Sprintf("m%d.s%d.", i, j), authors))
			}
			// now and then the handler emits its "nothing to say" value: it is dropped on the
			// way and everything else goes on as before
			expect := msgs
			if rapid.IntRange(0, 9).Draw(t, fmt.Sprintf("m%d.nil", i)) == 0 {
				pos := rapid.IntRange(0, len(msgs)).Draw(t, fmt.Sprintf("m%d.nilpos", i))
				withNil := append(append(append([]mocrelay.ServerMsg{}, msgs[:pos]...), nil), msgs[pos:]...)
				desc.Messages = append(desc.Messages, map[string]any{"server_nil_at": pos})
				msgs = withNil
			}
			desc.Messages = append(desc.Messages, map[string]any{"server": briefServers(expect)})
			got, err := s.Emit(msgs...)
			msgs = expect
			// (an identity chain hands the nil on as it is; the relay's writer drops it)
			nn := got[:0:0]
			for _, g := range got {
				if g != nil {
					nn = append(nn, g)
				}
			}
			got = nn
			if err != nil {
				hx.Fail(t, ev.Failure{Property: prop, Signature: "server-msg-stalled", Clause: "server messages pass the stack", Case: desc, Observed: err.Error()})
			}
			same := len(got) == len(msgs)
			for j := 0; same && j < len(msgs); j++ {
				same = got[j] == msgs[j]
			}
			if !same {
				hx.Fail(t, ev.Failure{Property: prop, Signature: "server-msg-altered", Clause: "all server messages pass unchanged and in order",
					Case: desc, Observed: hx.JSON(briefServers(got)), Expected: hx.JSON(briefServers(msgs))})
			}
			col.Label("server-batch")
			continue
		}
		now := time.Now().Unix()
		msg := drawClientMsg(t, fmt.Sprintf("m%d.", i), tg, authors, now)
		// keep time-based decisions away from the moving boundary
		if e, ok := msg.(*mocrelay.ClientEventMsg); ok {
			safe := true
			for _, sp := range specs {
				if !sp.timeSafe(e.Event, now) {
					safe = false
				}
			}
			if !safe {
				col.Exclude("event-within-5s-of-a-time-boundary")
				continue
			}
		}
		// the model: outermost first, the first middleware that objects rejects
		pass := true
		rejectedBy := -1
		for j, st := range states {
			if !st.client(msg, now) {
				pass = false
				rejectedBy = j
				break
			}
		}
		desc.Messages = append(desc.Messages, map[string]any{"client": briefClient(msg), "expect_forward": pass})
		fwd, replies, err := s.Step(msg)
		if err != nil {
			hx.Fail(t, ev.Failure{Property: prop, Signature: "client-msg-stalled", Clause: "the stack keeps processing messages", Case: desc, Observed: err.Error()})
		}
		if pass {
			col.Label("client:" + msg.ClientMsgLabel() + ":forwarded")
			if len(fwd) != 1 || fwd[0] != msg || len(replies) != 0 {
				hx.Fail(t, ev.Failure{Property: prop, Signature: "conforming-not-forwarded", Clause: "a client message that respects every limit is forwarded unchanged and answered by nothing",
					Case: desc, Observed: fmt.Sprintf("forwarded=%s replies=%s", hx.JSON(briefClients(fwd)), hx.JSON(briefServers(replies))), Expected: "forwarded=[the message] replies=[]"})
			}
		} else {
			col.Label("client:" + msg.ClientMsgLabel() + ":rejected-by-" + specs[rejectedBy].Kind)
			if len(fwd) != 0 || len(replies) != 1 || !rejectionFor(msg, replies[0]) {
				hx.Fail(t, ev.Failure{Property: prop, Signature: "offending-not-rejected", Clause: "a client message beyond a limit (" + specs[rejectedBy].Kind + ") is answered by exactly one rejection of its type and not forwarded",
					Case: desc, Observed: fmt.Sprintf("forwarded=%s replies=%s", hx.JSON(briefClients(fwd)), hx.JSON(briefServers(replies))), Expected: "forwarded=[] replies=[one OK-false with the event id / CLOSED with the subscription id]"})
			}
		}
		// boundary bookkeeping for the non-triviality rule
		for j, sp := range specs {
			size, lim, has := sizeFor(sp, msg)
			if !has {
				continue
			}
			if size == lim {
				atLimit[j] = true
			}
			if size == lim+1 {
				aboveLimit[j] = true
			}
		}
	}
	if why := s.Altered(); why != "" {
		hx.Fail(t, ev.Failure{Property: prop, Signature: "reply-altered-after-delivery", Clause: "the offending message is answered by a rejection that names it: a reply the client has received keeps its wording when later messages are rejected", Case: desc, Observed: why})
	}
	if err := s.End(); err != nil {
		hx.Fail(t, ev.Failure{Property: prop, Signature: "session-end", Clause: "the session ends after cancel", Case: desc, Observed: err.Error()})
	}
	return
}

// sizeFor returns the size of msg measured by a count-type middleware.
func sizeFor(sp mwSpec, msg mocrelay.ClientMsg) (size, limit int, ok bool) {
	switch sp.Kind {
	case "maxfilters":
		switch x := msg.(type) {
		case *mocrelay.ClientReqMsg:
			return len(x.ReqFilters), sp.N, true
		case *mocrelay.ClientCountMsg:
			return len(x.ReqFilters), sp.N, true
		}
	case "maxlimit":
		var fs []*mocrelay.ReqFilter
		switch x := msg.(type) {
		case *mocrelay.ClientReqMsg:
			fs = x.ReqFilters
		case *mocrelay.ClientCountMsg:
			fs = x.ReqFilters
		default:
			return 0, 0, false
		}
		mx := -1
		for _, f := range fs {
			if f.Limit != nil && int(*f.Limit) > mx {
				mx = int(*f.Limit)
			}
		}
		return mx, sp.N, mx >= 0
	case "maxsubid":
		switch x := msg.(type) {
		case *mocrelay.ClientReqMsg:
			return len(x.SubscriptionID), sp.N, true
		case *mocrelay.ClientCountMsg:
			return len(x.SubscriptionID), sp.N, true
		}
	case "maxtags":
		if x, ok := msg.(*mocrelay.ClientEventMsg); ok {
			return len(x.Event.Tags), sp.N, true
		}
	case "maxcontent":
		if x, ok := msg.(*mocrelay.ClientEventMsg); ok {
			return len(x.Event.Content), sp.N, true
		}
	}
	return 0, 0, false
}

func TestC17Stacks(t *testing.T) {
	col := ev.For("C17").SetRule(c17Rule)
	col.Assume("created_at limits are compared against the real clock; generated timestamps keep >= 5 s from every boundary")
	col.Assume("content / sub-id lengths are ASCII (bytes == characters); AUTH events are kept within all limits")
	rapid.Check(t, func(t *rapid.T) {
		authors := gen.Pubkeys(3)
		n := rapid.IntRange(1, 4).Draw(t, "nmw")
		specs := make([]mwSpec, n)
		for i := range specs {
			specs[i] = drawSpec(t, fmt.Sprintf("mw%d.", i), append(append([]string{}, limitKinds...), "maxsubs"), authors)
		}
		stack := func(h mocrelay.Handler) mocrelay.Handler {
			for i := len(specs) - 1; i >= 0; i-- {
				h = specs[i].build()(h)
			}
			return h
		}
		desc := &c17Case{Stack: specs}
		at, above := runStack(t, col, "C17", specs, stack, desc)
		nontrivial := false
		if n >= 2 {
			for j := range specs {
				if at[j] && above[j] {
					nontrivial = true
				}
			}
		}
		col.Case(nontrivial, hx.JSON(desc), func() any { return desc })
	})
}

func TestC17NIP11(t *testing.T) {
	col := ev.For("C17").SetRule(c17Rule)
	rapid.Check(t, func(t *rapid.T) {
		var doc *mocrelay.NIP11
		var specs []mwSpec
		mode := rapid.IntRange(0, 9).Draw(t, "docmode")
		switch {
		case mode == 0:
			doc = nil
		case mode == 1:
			doc = &mocrelay.NIP11{Name: "no limitation block"}
		default:
			l := &mocrelay.NIP11Limitation{}
			set := func(name string) bool { return rapid.IntRange(0, 2).Draw(t, name+"?") != 0 }
			// the chain applies max_subscriptions innermost ... created_at_upper_limit outermost
			if set("upper") {
				l.CreatedAtUpperLimit = rapid.Int64Range(10, 100000).Draw(t, "upper")
			}
			if set("lower") {
				l.CreatedAtLowerLimit = rapid.Int64Range(10, 100000).Draw(t, "lower")
			}
			if set("content") {
				l.MaxContentLength = rapid.IntRange(1, 8).Draw(t, "content")
			}
			if set("tags") {
				l.MaxEventTags = rapid.IntRange(1, 8).Draw(t, "tags")
			}
			if set("limit") {
				l.MaxLimit = rapid.IntRange(1, 8).Draw(t, "limit")
			}
			if set("filters") {
				l.MaxFilters = rapid.IntRange(1, 8).Draw(t, "filters")
			}
			if set("subs") {
				l.MaxSubscriptions = rapid.IntRange(1, 4).Draw(t, "subs")
			}
			// members the chain does not enforce: must not matter
			l.MaxSubIDLength = rapid.SampledFrom([]int{0, 1, 100}).Draw(t, "subidlen")
			l.MaxMessageLength = rapid.SampledFrom([]int{0, 1}).Draw(t, "msglen")
			doc = &mocrelay.NIP11{Limitation: l}
			// the model treats the chain as the stack of the individual middlewares; all of
			// them reject independently, only max_subscriptions is stateful, and it is
			// innermost, so it only sees what every other limit let through
			if l.CreatedAtUpperLimit != 0 {
				specs = append(specs, mwSpec{Kind: "upper", From: l.CreatedAtUpperLimit})
			}
			if l.CreatedAtLowerLimit != 0 {
				specs = append(specs, mwSpec{Kind: "lower", From: l.CreatedAtLowerLimit})
			}
			if l.MaxContentLength != 0 {
				specs = append(specs, mwSpec{Kind: "maxcontent", N: l.MaxContentLength})
			}
			if l.MaxEventTags != 0 {
				specs = append(specs, mwSpec{Kind: "maxtags", N: l.MaxEventTags})
			}
			if l.MaxLimit != 0 {
				specs = append(specs, mwSpec{Kind: "maxlimit", N: l.MaxLimit})
			}
			if l.MaxFilters != 0 {
				specs = append(specs, mwSpec{Kind: "maxfilters", N: l.MaxFilters})
			}
			if l.MaxSubscriptions != 0 {
				specs = append(specs, mwSpec{Kind: "maxsubs", N: l.MaxSubscriptions})
			}
		}
		desc := &c17Case{Stack: specs, NIP11: doc}
		var mw mocrelay.Middleware
		func() {
			defer func() {
				if r := recover(); r != nil {
					hx.Fail(t, ev.Failure{Property: "C17", Signature: "nip11-build-panic", Clause: "the chain built from a NIP-11 document without limitation block is the identity",
						Case: desc, Observed: fmt.Sprintf("panic: %v", r), Expected: "a middleware"})
				}
			}()
			mw = mocrelay.BuildMiddlewareFromNIP11(doc)
			// the chain is assembled when the middleware is applied
			_ = mw(mocrelay.NewDefaultHandler())
		}()
		if len(specs) == 0 {
			col.Label("nip11:identity")
		} else {
			col.Label(fmt.Sprintf("nip11:%d-limits", len(specs)))
		}
		stack := func(h mocrelay.Handler) mocrelay.Handler { return mw(h) }
		at, above := runStack(t, col, "C17", specs, stack, desc)
		nontrivial := false
		if len(specs) >= 2 {
			for j := range specs {
				if at[j] && above[j] {
					nontrivial = true
				}
			}
		}
		col.Case(nontrivial, hx.JSON(desc), func() any { return desc })
	})
}

// TestC17ClockAcrossSessions: the created_at limits are judged against the clock at the time
// of the message, also on a handler that has been in service for a while and has already
// seen connections come and go. One first session per middleware, a pause of a few seconds,
// then events two seconds inside and two seconds outside each limit.
func TestC17ClockAcrossSessions(t *testing.T) {
	col := ev.For("C17").SetRule(c17Rule)
	const L, U = 100, 100
	type variant struct {
		name string
		mw   mocrelay.Middleware
		rig  *Rig
	}
	vs := []*variant{
		{name: "lower", mw: mocrelay.Middleware(mocrelay.NewCreatedAtLowerLimitMiddleware(L))},
		{name: "upper", mw: mocrelay.Middleware(mocrelay.NewCreatedAtUpperLimitMiddleware(U))},
		{name: "window", mw: mocrelay.Middleware(mocrelay.NewEventCreatedAtMiddleware(-L*time.Second, U*time.Second))},
		{name: "nip11", mw: mocrelay.BuildMiddlewareFromNIP11(&mocrelay.NIP11{Limitation: &mocrelay.NIP11Limitation{CreatedAtLowerLimit: L, CreatedAtUpperLimit: U}})},
	}
	mk := func(off int64) *mocrelay.ClientEventMsg {
		e := &mocrelay.Event{Pubkey: gen.Keys[0].Pub, Kind: 1, CreatedAt: time.Now().Unix() + off, Tags: []mocrelay.Tag{}, Content: fmt.Sprint("clock ", off)}
		gen.Seal(e)
		return &mocrelay.ClientEventMsg{Event: e}
	}
	for _, v := range vs {
		mw := v.mw
		v.rig = NewRig(func(h mocrelay.Handler) mocrelay.Handler { return mw(h) })
		s, err := v.rig.Start()
		if err != nil {
			t.Fatalf("%s: %v", v.name, err)
		}
		if fwd, _, err := s.Step(mk(0)); err != nil || len(fwd) != 1 {
			hx.Fail(t, ev.Failure{Property: "C17", Signature: "conforming-not-forwarded", Clause: "an event created now respects every created_at limit", Case: v.name, Observed: fmt.Sprint(err, len(fwd))})
		}
		s.End()
	}
	time.Sleep(3300 * time.Millisecond)
	for _, v := range vs {
		s, err := v.rig.Start()
		if err != nil {
			t.Fatalf("%s: %v", v.name, err)
		}
		for _, c := range []struct {
			off  int64
			pass bool
			side string
		}{{-L + 2, true, "lower"}, {-L - 2, false, "lower"}, {U - 2, true, "upper"}, {U + 2, false, "upper"}} {
			if v.name != "window" && v.name != "nip11" && v.name != c.side {
				continue
			}
			msg := mk(c.off)
			fwd, replies, err := s.Step(msg)
			desc := map[string]any{"middleware": v.name, "limit_seconds": L, "created_at_offset_from_now": c.off, "handler_in_service_for": "3.3 s, one earlier session"}
			if err != nil {
				hx.Fail(t, ev.Failure{Property: "C17", Signature: "client-msg-stalled", Clause: "the stack keeps processing messages", Case: desc, Observed: err.Error()})
			}
			if c.pass && (len(fwd) != 1 || fwd[0] != msg || len(replies) != 0) {
				hx.Fail(t, ev.Failure{Property: "C17", Signature: "conforming-not-forwarded", Clause: "a client message that respects the created_at limit is forwarded unchanged (judged against the current time, two seconds inside the limit)",
					Case: desc, Observed: fmt.Sprintf("forwarded=%s replies=%s", hx.JSON(briefClients(fwd)), hx.JSON(briefServers(replies)))})
			}
			if !c.pass && (len(fwd) != 0 || len(replies) != 1 || !rejectionFor(msg, replies[0])) {
				hx.Fail(t, ev.Failure{Property: "C17", Signature: "offending-not-rejected", Clause: "a client message beyond the created_at limit is answered by one rejection and not forwarded (judged against the current time, two seconds outside the limit)",
					Case: desc, Observed: fmt.Sprintf("forwarded=%s replies=%s", hx.JSON(briefClients(fwd)), hx.JSON(briefServers(replies)))})
			}
			col.Label("clock:second-session-" + v.name)
			col.Case(true, fmt.Sprint(v.name, c.off), func() any { return desc })
		}
		s.End()
	}
}
