// Package hx has small helpers shared by the test packages.
package hx

import (
	"encoding/json"
	"os"
	"strconv"

	"verifharness/ev"
)

type fataler interface {
	Fatalf(format string, args ...any)
}

// Fail records the failing case as a replay file and fails the test.
func Fail(t fataler, f ev.Failure) {
	if len(f.Observed) > 1500 {
		f.Observed = f.Observed[:700] + " ... " + f.Observed[len(f.Observed)-700:]
	}
	path := ev.WriteReplay(f)
	t.Fatalf("%s violated [%s]: %s\nobserved: %s\nexpected: %s\nreplay: %s", f.Property, f.Signature, f.Clause, f.Observed, f.Expected, path)
}

// Thorough reports whether the run is the thorough tier.
func Thorough() bool { return os.Getenv("VERIF_TIER") == "thorough" }

// EnvInt reads an integer environment variable with a default.
func EnvInt(name string, def int) int {
	if v := os.Getenv(name); v != "" {
		if n, err := strconv.Atoi(v); err == nil {
			return n
		}
	}
	return def
}

// JSON renders v compactly (for case keys and messages).
func JSON(v any) string {
	b, err := json.Marshal(v)
	if err != nil {
		return "unencodable: " + err.Error()
	}
	return string(b)
}

// RepoDir is the directory of the code under test (the harness module's replace
// target): /repo unless VERIF_REPO points the driver at a scratch copy.
func RepoDir() string {
	if d := os.Getenv("VERIF_REPO"); d != "" {
		return d
	}
	return "/repo"
}
