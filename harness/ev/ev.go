// Package ev collects, inside the test process, what a check actually covered
// (cases, non-trivial cases by the stated rule, labels, samples) and writes a
// partial evidence file the driver merges. It also writes replay files.
package ev

import (
	"crypto/sha1"
	"encoding/hex"
	"encoding/json"
	"fmt"
	"hash/fnv"
	"os"
	"path/filepath"
	"sort"
	"sync"
)

type Collector struct {
	mu          sync.Mutex
	Property    string
	Rule        string
	Assumptions []string
	evals       int64
	nontriv     map[uint64]struct{}
	labels      map[string]int64
	excluded    map[string]int64
	samples     []any
	extra       map[string]int64
	maxSamples  int
}

var (
	regMu sync.Mutex
	reg   = map[string]*Collector{}
)

// For returns the collector of a property (one per process).
func For(property string) *Collector {
	regMu.Lock()
	defer regMu.Unlock()
	c := reg[property]
	if c == nil {
		c = &Collector{Property: property, nontriv: map[uint64]struct{}{}, labels: map[string]int64{},
			excluded: map[string]int64{}, extra: map[string]int64{}, maxSamples: 6}
		reg[property] = c
	}
	return c
}

func (c *Collector) SetRule(rule string) *Collector {
	c.mu.Lock()
	defer c.mu.Unlock()
	c.Rule = rule
	return c
}

func (c *Collector) Assume(a string) *Collector {
	c.mu.Lock()
	defer c.mu.Unlock()
	for _, x := range c.Assumptions {
		if x == a {
			return c
		}
	}
	c.Assumptions = append(c.Assumptions, a)
	return c
}

// Case records one generated case. key identifies the case (distinctness is by
// hash of key); sample is rendered lazily and kept for the first few
// non-trivial cases.
func (c *Collector) Case(nontrivial bool, key string, sample func() any) {
	c.mu.Lock()
	defer c.mu.Unlock()
	c.evals++
	if !nontrivial {
		return
	}
	h := fnv.New64a()
	h.Write([]byte(key))
	k := h.Sum64()
	if _, ok := c.nontriv[k]; ok {
		return
	}
	c.nontriv[k] = struct{}{}
	if len(c.samples) < c.maxSamples && sample != nil {
		c.samples = append(c.samples, compact(sample()))
	}
}

// Evals adds evaluations that are not whole cases (e.g. per-step checks).
func (c *Collector) Add(name string, n int64) {
	c.mu.Lock()
	defer c.mu.Unlock()
	c.extra[name] += n
}

func (c *Collector) Label(name string) {
	c.mu.Lock()
	defer c.mu.Unlock()
	c.labels[name]++
}

func (c *Collector) Exclude(class string) {
	c.mu.Lock()
	defer c.mu.Unlock()
	c.excluded[class]++
}

type Partial struct {
	Property       string           `json:"property"`
	Rule           string           `json:"rule"`
	Assumptions    []string         `json:"assumptions"`
	Evaluations    int64            `json:"evaluations"`
	NontrivialKeys []uint64         `json:"nontrivial_keys"`
	Labels         map[string]int64 `json:"labels"`
	Excluded       map[string]int64 `json:"excluded"`
	Extra          map[string]int64 `json:"extra"`
	Samples        []any            `json:"samples"`
}

// Flush writes one partial evidence file per property into $VERIF_EVIDENCE_DIR.
func Flush() {
	dir := os.Getenv("VERIF_EVIDENCE_DIR")
	if dir == "" {
		return
	}
	regMu.Lock()
	defer regMu.Unlock()
	for _, c := range reg {
		c.mu.Lock()
		p := Partial{Property: c.Property, Rule: c.Rule, Assumptions: c.Assumptions, Evaluations: c.evals,
			Labels: c.labels, Excluded: c.excluded, Extra: c.extra, Samples: c.samples}
		for k := range c.nontriv {
			p.NontrivialKeys = append(p.NontrivialKeys, k)
		}
		sort.Slice(p.NontrivialKeys, func(i, j int) bool { return p.NontrivialKeys[i] < p.NontrivialKeys[j] })
		c.mu.Unlock()
		b, err := json.Marshal(p)
		if err != nil {
			// samples must always be JSON-encodable; fall back to dropping them
			p.Samples = []any{fmt.Sprintf("unencodable samples: %v", err)}
			b, _ = json.Marshal(p)
		}
		name := filepath.Join(dir, fmt.Sprintf("%s.%d.json", c.Property, os.Getpid()))
		_ = os.WriteFile(name, b, 0o644)
	}
}

// Failure describes a property violation found by a check.
type Failure struct {
	Property  string `json:"property"`
	Signature string `json:"signature"` // stable class of the failure (matched against known_findings.json)
	Clause    string `json:"clause"`    // which clause of the property is broken
	Case      any    `json:"case"`      // the (shrunk) failing case
	Observed  string `json:"observed,omitempty"`
	Expected  string `json:"expected,omitempty"`
	Test      string `json:"test,omitempty"`
	Seed      string `json:"seed,omitempty"`
}

// WriteReplay stores the failure under $VERIF_REPLAY_DIR/<property>/<sha1>.json
// and prints the marker line the driver turns into a VIOLATION line. rapid
// calls the property many times while shrinking; the driver keeps the last
// marker of a test (the minimal case).
func WriteReplay(f Failure) string {
	dir := os.Getenv("VERIF_REPLAY_DIR")
	if dir == "" {
		dir = os.TempDir()
	}
	f.Seed = os.Getenv("VERIF_SEED")
	b, err := json.MarshalIndent(f, "", " ")
	if err != nil {
		b = []byte(fmt.Sprintf(`{"property":%q,"signature":%q,"clause":%q,"case":"unencodable"}`, f.Property, f.Signature, f.Clause))
	}
	sum := sha1.Sum(b)
	pdir := filepath.Join(dir, f.Property)
	_ = os.MkdirAll(pdir, 0o755)
	path := filepath.Join(pdir, hex.EncodeToString(sum[:8])+".json")
	_ = os.WriteFile(path, b, 0o644)
	fmt.Printf("\nVERIF-FAIL property=%s signature=%s replay=%s\n", f.Property, f.Signature, path)
	return path
}

// compact keeps a sample readable and the evidence file small: long strings are cut to
// their first 300 bytes (with their length), long lists to their first 40 elements. Replay
// files keep the complete case; samples only illustrate what was generated.
func compact(v any) any {
	b, err := json.Marshal(v)
	if err != nil {
		return fmt.Sprintf("unencodable sample: %v", err)
	}
	if len(b) <= 2000 {
		return v
	}
	var g any
	if err := json.Unmarshal(b, &g); err != nil {
		return fmt.Sprintf("sample of %d bytes", len(b))
	}
	return compactValue(g, 0)
}

func compactValue(v any, depth int) any {
	switch x := v.(type) {
	case string:
		if len(x) > 300 {
			cut := 300
			for cut > 0 && cut < len(x) && (x[cut]&0xc0) == 0x80 {
				cut--
			}
			return fmt.Sprintf("%s... (%d bytes)", x[:cut], len(x))
		}
		return x
	case []any:
		n := len(x)
		lim := 40
		if depth > 1 {
			lim = 12
		}
		out := make([]any, 0, lim+1)
		for i, e := range x {
			if i >= lim {
				out = append(out, fmt.Sprintf("... (%d elements in all)", n))
				break
			}
			out = append(out, compactValue(e, depth+1))
		}
		return out
	case map[string]any:
		out := make(map[string]any, len(x))
		for k, e := range x {
			out[k] = compactValue(e, depth+1)
		}
		return out
	default:
		return v
	}
}
