package core

import (
	"reflect"
	"bufio"
	"encoding/json"
	"fmt"
	"os"
	"path/filepath"
	"strings"
	"testing"

	"github.com/high-moctane/mocrelay"
	"pgregory.net/rapid"

	"verifharness/ev"
	"verifharness/gen"
	"verifharness/hx"
)

// decoders of the 14 exported types + ParseClientMsg -----------------------------------------

type decoder struct {
	name string
	dec  func(b []byte) (any, error)
}

func unm[T any](name string) decoder {
	return decoder{name, func(b []byte) (any, error) {
		v := new(T)
		if err := json.Unmarshal(b, v); err != nil {
			return nil, err
		}
		return v, nil
	}}
}

var c10Decoders = []decoder{
	{"ParseClientMsg", func(b []byte) (any, error) {
		m, err := mocrelay.ParseClientMsg(b)
		if err != nil {
			return nil, err
		}
		return m, nil
	}},
	unm[mocrelay.Event]("Event"), unm[mocrelay.ReqFilter]("ReqFilter"),
	unm[mocrelay.ClientEventMsg]("ClientEventMsg"), unm[mocrelay.ClientReqMsg]("ClientReqMsg"), unm[mocrelay.ClientCloseMsg]("ClientCloseMsg"),
	unm[mocrelay.ClientAuthMsg]("ClientAuthMsg"), unm[mocrelay.ClientCountMsg]("ClientCountMsg"),
	unm[mocrelay.ServerEOSEMsg]("ServerEOSEMsg"), unm[mocrelay.ServerEventMsg]("ServerEventMsg"), unm[mocrelay.ServerNoticeMsg]("ServerNoticeMsg"),
	unm[mocrelay.ServerOKMsg]("ServerOKMsg"), unm[mocrelay.ServerAuthMsg]("ServerAuthMsg"), unm[mocrelay.ServerCountMsg]("ServerCountMsg"),
	unm[mocrelay.ServerClosedMsg]("ServerClosedMsg"),
}

func safeDecode(d decoder, b []byte) (v any, err error, panicked any) {
	defer func() {
		if r := recover(); r != nil {
			panicked = r
		}
	}()
	v, err = d.dec(b)
	return
}

func eventComplete(e *mocrelay.Event) string {
	if e == nil {
		return "nil *Event"
	}
	if e.Tags == nil {
		return "Event.Tags is nil"
	}
	for _, tg := range e.Tags {
		if tg == nil {
			return "nil inner tag"
		}
	}
	return ""
}

// complete reports why a successfully decoded value is not completely filled ("" = complete).
func complete(v any, label string) string {
	filters := func(fs []*mocrelay.ReqFilter) string {
		if len(fs) == 0 {
			return "no filters"
		}
		for _, f := range fs {
			if f == nil {
				return "nil *ReqFilter"
			}
			for _, vs := range f.Tags {
				if vs == nil {
					return "nil tag value list"
				}
			}
		}
		return ""
	}
	switch x := v.(type) {
	case *mocrelay.Event:
		return eventComplete(x)
	case *mocrelay.ReqFilter:
		if x == nil {
			return "nil *ReqFilter"
		}
	case *mocrelay.ClientEventMsg:
		if label != "" && label != "EVENT" {
			return "type ClientEventMsg for label " + label
		}
		return eventComplete(x.Event)
	case *mocrelay.ClientAuthMsg:
		if label != "" && label != "AUTH" {
			return "type ClientAuthMsg for label " + label
		}
		return eventComplete(x.Event)
	case *mocrelay.ClientReqMsg:
		if label != "" && label != "REQ" {
			return "type ClientReqMsg for label " + label
		}
		return filters(x.ReqFilters)
	case *mocrelay.ClientCountMsg:
		if label != "" && label != "COUNT" {
			return "type ClientCountMsg for label " + label
		}
		return filters(x.ReqFilters)
	case *mocrelay.ClientCloseMsg:
		if label != "" && label != "CLOSE" {
			return "type ClientCloseMsg for label " + label
		}
	case *mocrelay.ServerEventMsg:
		return eventComplete(x.Event)
	case nil:
		return "nil value"
	}
	return ""
}

// textLabel extracts the label of a JSON array text with Go's generic decoder.
func textLabel(b []byte) string {
	var a []any
	if json.Unmarshal(b, &a) != nil || len(a) == 0 {
		return ""
	}
	s, _ := a[0].(string)
	return s
}

func isTopLevelNull(b []byte) bool { return strings.TrimSpace(string(b)) == "null" }

// checkText runs every decoder on a text: no panic; accepted => complete and
// decode(encode(decode(t))) == decode(t). Returns how many decoders accepted.
func checkText(t interface {
	Fatalf(string, ...any)
}, b []byte) (accepted int) {
	if isTopLevelNull(b) {
		return 0
	}
	label := textLabel(b)
	for _, d := range c10Decoders {
		v, err, p := safeDecode(d, b)
		if p != nil {
			hx.Fail(t, ev.Failure{Property: "C10", Signature: "decode-panic", Clause: "decoding any byte string never panics (" + d.name + ")",
				Case: map[string]any{"text": string(b), "decoder": d.name}, Observed: fmt.Sprintf("panic: %v", p), Expected: "error or value"})
		}
		if err != nil {
			continue
		}
		accepted++
		lab := ""
		if d.name == "ParseClientMsg" {
			lab = label
		}
		if why := complete(v, lab); why != "" {
			hx.Fail(t, ev.Failure{Property: "C10", Signature: "incomplete-value", Clause: "a successful decode yields a completely filled value of the type its label names (" + d.name + ")",
				Case: map[string]any{"text": string(b), "decoder": d.name}, Observed: why + ": " + hx.JSON(gen.Norm(v)), Expected: "complete value"})
		}
		// decode-encode-decode
		enc, err := json.Marshal(v)
		if err != nil {
			hx.Fail(t, ev.Failure{Property: "C10", Signature: "reencode-error", Clause: "an accepted value can be encoded again (" + d.name + ")",
				Case: map[string]any{"text": string(b), "decoder": d.name}, Observed: err.Error(), Expected: "encodes"})
		}
		v2, err2, p2 := safeDecode(d, enc)
		if p2 != nil || err2 != nil {
			hx.Fail(t, ev.Failure{Property: "C10", Signature: "redecode-fails", Clause: "decode-encode-decode yields the same value as decode (" + d.name + ")",
				Case: map[string]any{"text": string(b), "decoder": d.name, "reencoded": string(enc)}, Observed: fmt.Sprintf("err=%v panic=%v", err2, p2), Expected: "same value"})
		}
		if a, c := hx.JSON(gen.Norm(v)), hx.JSON(gen.Norm(v2)); a != c {
			hx.Fail(t, ev.Failure{Property: "C10", Signature: "redecode-differs", Clause: "decode-encode-decode yields the same value as decode (" + d.name + ")",
				Case: map[string]any{"text": string(b), "decoder": d.name, "reencoded": string(enc)}, Observed: c, Expected: a})
		}
	}
	return accepted
}

const c10Rule = "cases = (i) near-miss texts: generated well-formed client/server messages, events and filters written by the harness's own JSON writer, then 0-3 token/byte mutations (deletion, duplication, hostile tokens such as 1e400, -0, null, lone surrogates, invalid UTF-8, deep nesting, truncation), each fed to ParseClientMsg and json.Unmarshal of all 14 exported types: no panic, accepted => completely filled value and decode(encode(decode(t)))==decode(t); (ii) generated well-formed values of each type: decode(encode(v))==v; (iii) every line of the repository's testdata/*.jsonl; non-trivial = text accepted by at least one decoder after >=1 mutation, or a round-tripped value; distinct by text"

func serverDoc(t *rapid.T, m mocrelay.ServerMsg) gen.JArr {
	switch x := m.(type) {
	case *mocrelay.ServerEOSEMsg:
		return gen.JArr{gen.JStr("EOSE"), gen.JStr(x.SubscriptionID)}
	case *mocrelay.ServerEventMsg:
		return gen.JArr{gen.JStr("EVENT"), gen.JStr(x.SubscriptionID), gen.WireEventDoc(t, x.Event, "sev.")}
	case *mocrelay.ServerNoticeMsg:
		return gen.JArr{gen.JStr("NOTICE"), gen.JStr(x.Message)}
	case *mocrelay.ServerOKMsg:
		return gen.JArr{gen.JStr("OK"), gen.JStr(x.EventID), gen.JRaw(fmt.Sprint(x.Accepted)), gen.JStr(x.Message())}
	case *mocrelay.ServerAuthMsg:
		return gen.JArr{gen.JStr("AUTH"), gen.JStr(x.Challenge)}
	case *mocrelay.ServerCountMsg:
		o := gen.JObj{{K: "count", V: gen.JRaw(fmt.Sprint(x.Count))}}
		if x.Approximate != nil {
			o = append(o, gen.JField{K: "approximate", V: gen.JRaw(fmt.Sprint(*x.Approximate))})
		}
		return gen.JArr{gen.JStr("COUNT"), gen.JStr(x.SubscriptionID), o}
	case *mocrelay.ServerClosedMsg:
		return gen.JArr{gen.JStr("CLOSED"), gen.JStr(x.SubscriptionID), gen.JStr(x.Message())}
	}
	panic("unknown server msg")
}

// c10Oddities rewrites a document in ways that stay syntactically JSON but are
// unusual: empty tags, empty member names, duplicate members, nested nulls.
func c10Oddities(t *rapid.T, doc gen.J) gen.J {
	if rapid.IntRange(0, 3).Draw(t, "odd?") != 0 {
		return doc
	}
	var walk func(v gen.J) gen.J
	walk = func(v gen.J) gen.J {
		switch x := v.(type) {
		case gen.JArr:
			out := gen.JArr{}
			for _, e := range x {
				out = append(out, walk(e))
			}
			return out
		case gen.JObj:
			out := gen.JObj{}
			for _, f := range x {
				nv := walk(f.V)
				if f.K == "tags" {
					if a, ok := nv.(gen.JArr); ok && rapid.IntRange(0, 1).Draw(t, "emptytag") == 0 {
						pos := rapid.IntRange(0, len(a)).Draw(t, "emptytagpos")
						a = append(a[:pos:pos], append(gen.JArr{gen.JArr{}}, a[pos:]...)...)
						nv = a
					}
				}
				out = append(out, gen.JField{K: f.K, V: nv})
			}
			switch rapid.IntRange(0, 6).Draw(t, "objodd") {
			case 6:
				// one member dropped and another one written twice
				if len(out) >= 2 {
					d := rapid.IntRange(0, len(out)-1).Draw(t, "dropm")
					out = append(out[:d:d], out[d+1:]...)
					out = append(out, out[rapid.IntRange(0, len(out)-1).Draw(t, "dupm")])
				}
			case 0:
				out = append(out, gen.JField{K: "", V: gen.JArr{}})
			case 1:
				if len(out) > 0 {
					out = append(out, out[rapid.IntRange(0, len(out)-1).Draw(t, "dup")])
				}
			case 2:
				out = append(out, gen.JField{K: rapid.SampledFrom([]string{"#", "#e", "#ee", "\u0000", "ID"}).Draw(t, "oddkey"), V: gen.JArr{}})
			}
			return out
		}
		return v
	}
	return walk(doc)
}

func TestC10Texts(t *testing.T) {
	col := ev.For("C10").SetRule(c10Rule)
	col.Assume("a top-level JSON null handed directly to json.Unmarshal is a no-op by Go convention and is not counted as an accepted text")
	rapid.Check(t, func(t *rapid.T) {
		var doc gen.J
		switch rapid.IntRange(0, 4).Draw(t, "family") {
		case 0, 1:
			doc = gen.WireClientMsg(t, "", false).Doc
		case 2:
			doc = serverDoc(t, gen.ServerMsgValue(t, "s."))
		case 3:
			doc = gen.WireEventDoc(t, gen.WireEvent(t, "e.", false), "e.")
		case 4:
			_, d, _ := gen.WireFilter(t, "f.")
			doc = d
		}
		doc = c10Oddities(t, doc)
		text := gen.Render(doc, &gen.RenderOpts{T: t, Whitespace: rapid.IntRange(0, 2).Draw(t, "ws") == 0, EscapeVar: rapid.IntRange(0, 3).Draw(t, "esc") == 0})
		nmut := rapid.IntRange(0, 2).Draw(t, "mutrounds")
		for i := 0; i < nmut; i++ {
			text = gen.MutateText(t, text)
		}
		acc := checkText(t, []byte(text))
		if acc > 0 {
			col.Label("text:accepted")
		} else {
			col.Label("text:rejected-by-all")
		}
		col.Case(acc > 0 && nmut > 0, text, func() any { return map[string]any{"mutated_text_accepted_by": acc, "text": text} })
	})
}

// aliasProbes: one value of every exported message type, different from anything generated.
func aliasProbes() []any {
	e := &mocrelay.Event{Pubkey: gen.Keys[3].Pub, Kind: 1, CreatedAt: 77, Tags: []mocrelay.Tag{{"alias", "probe"}}, Content: strings.Repeat("alias probe ", 8)}
	gen.Seal(e)
	f := &mocrelay.ReqFilter{IDs: []string{e.ID}, Kinds: []int64{77}}
	return []any{e, f, &mocrelay.ClientEventMsg{Event: e}, &mocrelay.ClientAuthMsg{Event: e}, &mocrelay.ClientReqMsg{SubscriptionID: "alias-probe", ReqFilters: []*mocrelay.ReqFilter{f}},
		&mocrelay.ClientCountMsg{SubscriptionID: "alias-probe", ReqFilters: []*mocrelay.ReqFilter{f}}, &mocrelay.ClientCloseMsg{SubscriptionID: "alias-probe"},
		mocrelay.NewServerEOSEMsg("alias-probe"), mocrelay.NewServerEventMsg("alias-probe", e), mocrelay.NewServerNoticeMsg("alias probe"), mocrelay.NewServerOKMsg(e.ID, false, "", "alias probe"),
		&mocrelay.ServerAuthMsg{Challenge: "alias probe"}, mocrelay.NewServerCountMsg("alias-probe", 77, nil), mocrelay.NewServerClosedMsg("alias-probe", "", "alias probe")}
}

// c10Sibling returns a copy of v whose event keeps id and sig but differs in one other
// field (nil when v carries no event).
func c10Sibling(t *rapid.T, v any) any {
	var e *mocrelay.Event
	switch x := v.(type) {
	case *mocrelay.Event:
		e = x
	case *mocrelay.ClientEventMsg:
		e = x.Event
	case *mocrelay.ClientAuthMsg:
		e = x.Event
	case *mocrelay.ServerEventMsg:
		e = x.Event
	}
	if e == nil {
		return nil
	}
	s := gen.CloneEvent(e)
	switch rapid.SampledFrom([]string{"content", "created_at", "kind", "tags", "pubkey"}).Draw(t, "sibling") {
	case "content":
		s.Content += "~"
	case "created_at":
		s.CreatedAt++
	case "kind":
		s.Kind ^= 1
	case "tags":
		s.Tags = append(s.Tags, mocrelay.Tag{"sibling"})
	case "pubkey":
		s.Pubkey = strings.Repeat("ab", 32)
		if e.Pubkey == s.Pubkey {
			s.Pubkey = strings.Repeat("cd", 32)
		}
	}
	switch x := v.(type) {
	case *mocrelay.Event:
		return s
	case *mocrelay.ClientEventMsg:
		return &mocrelay.ClientEventMsg{Event: s}
	case *mocrelay.ClientAuthMsg:
		return &mocrelay.ClientAuthMsg{Event: s}
	case *mocrelay.ServerEventMsg:
		return mocrelay.NewServerEventMsg(x.SubscriptionID, s)
	}
	return nil
}

func TestC10RoundTripValues(t *testing.T) {
	col := ev.For("C10").SetRule(c10Rule)
	rapid.Check(t, func(t *rapid.T) {
		var v any
		switch rapid.IntRange(0, 4).Draw(t, "family") {
		case 0, 1:
			m := gen.WireClientMsg(t, "", false)
			switch m.Label {
			case "EVENT":
				v = &mocrelay.ClientEventMsg{Event: m.Event}
			case "AUTH":
				v = &mocrelay.ClientAuthMsg{Event: m.Event}
			case "REQ":
				v = &mocrelay.ClientReqMsg{SubscriptionID: m.SubID, ReqFilters: m.Fs}
			case "COUNT":
				v = &mocrelay.ClientCountMsg{SubscriptionID: m.SubID, ReqFilters: m.Fs}
			case "CLOSE":
				v = &mocrelay.ClientCloseMsg{SubscriptionID: m.SubID}
			}
		case 2:
			v = gen.ServerMsgValue(t, "s.")
		case 3:
			v = gen.WireEvent(t, "e.", false)
		case 4:
			f, _, _ := gen.WireFilter(t, "f.")
			v = f
		}
		typ := fmt.Sprintf("%T", v)
		col.Label("value:" + typ)
		enc, err := json.Marshal(v)
		if err != nil {
			hx.Fail(t, ev.Failure{Property: "C10", Signature: "encode-error", Clause: "every well-formed value encodes", Case: map[string]any{"value": gen.Norm(v), "type": typ}, Observed: err.Error()})
		}
		want := hx.JSON(gen.Norm(v))
		var got any
		decoded := false
		for _, d := range c10Decoders {
			if "*mocrelay."+d.name != typ {
				continue
			}
			g, err, p := safeDecode(d, enc)
			if err != nil || p != nil {
				hx.Fail(t, ev.Failure{Property: "C10", Signature: "roundtrip-decode-fails", Clause: "encoding and decoding again yields an equal value (" + typ + ")",
					Case: map[string]any{"value": gen.Norm(v), "encoded": string(enc)}, Observed: fmt.Sprintf("err=%v panic=%v", err, p), Expected: want})
			}
			got, decoded = g, true
		}
		if !decoded {
			t.Fatalf("no decoder for %s", typ)
		}
		if g := hx.JSON(gen.Norm(got)); g != want {
			hx.Fail(t, ev.Failure{Property: "C10", Signature: "roundtrip-differs", Clause: "encoding and decoding again yields an equal value (" + typ + ")",
				Case: map[string]any{"value": gen.Norm(v), "encoded": string(enc)}, Observed: g, Expected: want})
		}
		if _, isClient := v.(mocrelay.ClientMsg); isClient {
			g, err := mocrelay.ParseClientMsg(enc)
			if err != nil || hx.JSON(gen.Norm(g)) != want {
				hx.Fail(t, ev.Failure{Property: "C10", Signature: "roundtrip-parseclientmsg", Clause: "ParseClientMsg(encode(v)) == v (" + typ + ")",
					Case: map[string]any{"value": gen.Norm(v), "encoded": string(enc)}, Observed: fmt.Sprintf("%s err=%v", hx.JSON(gen.Norm(g)), err), Expected: want})
			}
		}
		// MarshalJSON called directly: the returned bytes belong to the caller and must not
		// change when further values are encoded
		if m1, ok := v.(json.Marshaler); ok {
			b1, err1 := m1.MarshalJSON()
			keep := append([]byte(nil), b1...)
			for _, o := range aliasProbes() {
				if m2, ok := o.(json.Marshaler); ok {
					m2.MarshalJSON()
				}
				json.Marshal(o)
			}
			if err1 == nil && string(b1) != string(keep) {
				hx.Fail(t, ev.Failure{Property: "C10", Signature: "encode-aliasing", Clause: "an encoded text stays what it was when further values are encoded (" + typ + ")",
					Case: map[string]any{"value": gen.Norm(v)}, Observed: string(b1), Expected: string(keep)})
			}
		}
		// a value is encoded from its own fields, not from what an earlier value with the same
		// id and signature looked like (the codec handles unverified values: two events may
		// share id and sig and differ elsewhere)
		if sib := c10Sibling(t, v); sib != nil {
			enc2, err := json.Marshal(sib)
			want2 := hx.JSON(gen.Norm(sib))
			ok2 := err == nil
			if ok2 {
				ok2 = false
				for _, d := range c10Decoders {
					if "*mocrelay."+d.name == typ {
						g, derr, p := safeDecode(d, enc2)
						ok2 = derr == nil && p == nil && hx.JSON(gen.Norm(g)) == want2
					}
				}
			}
			if !ok2 {
				hx.Fail(t, ev.Failure{Property: "C10", Signature: "roundtrip-sibling", Clause: "encoding and decoding again yields an equal value, also right after a value that shares its event's id and signature was encoded (" + typ + ")",
					Case: map[string]any{"first": gen.Norm(v), "second": gen.Norm(sib)}, Observed: fmt.Sprintf("%s err=%v", enc2, err), Expected: want2})
			}
			col.Label("roundtrip:sibling-event")
		}
		// decoding into a value that held something else before: what the text says, nothing of
		// what was there (a decoder that fills only the members present in the text leaves the
		// rest of the previous message behind)
		for _, probe := range aliasProbes() {
			if fmt.Sprintf("%T", probe) != typ {
				continue
			}
			pb, err := json.Marshal(probe)
			if err != nil {
				continue
			}
			dirty := reflect.New(reflect.TypeOf(probe).Elem()).Interface()
			if json.Unmarshal(pb, dirty) != nil {
				continue
			}
			if err := json.Unmarshal(enc, dirty); err != nil {
				hx.Fail(t, ev.Failure{Property: "C10", Signature: "roundtrip-reused-value", Clause: "encoding and decoding again yields an equal value, also when the target held another message before (" + typ + ")",
					Case: map[string]any{"value": gen.Norm(v), "previous": gen.Norm(probe)}, Observed: err.Error(), Expected: want})
			}
			if g := hx.JSON(gen.Norm(dirty)); g != want {
				hx.Fail(t, ev.Failure{Property: "C10", Signature: "roundtrip-reused-value", Clause: "encoding and decoding again yields an equal value, also when the target held another message before (" + typ + ")",
					Case: map[string]any{"value": gen.Norm(v), "previous": gen.Norm(probe)}, Observed: g, Expected: want})
			}
			col.Label("roundtrip:reused-target")
		}
		// the encoding must be plain JSON an independent decoder understands
		var generic any
		if err := json.Unmarshal(enc, &generic); err != nil {
			hx.Fail(t, ev.Failure{Property: "C10", Signature: "encode-not-json", Clause: "encode yields JSON", Case: map[string]any{"encoded": string(enc)}, Observed: err.Error()})
		}
		col.Case(true, string(enc), func() any { return map[string]any{"type": typ, "encoded": string(enc)} })
	})
}

// TestC10Testdata feeds every line of the repository's own corpus through the same oracle.
func TestC10Testdata(t *testing.T) {
	col := ev.For("C10").SetRule(c10Rule)
	files, _ := filepath.Glob(hx.RepoDir() + "/testdata/*.jsonl")
	n := 0
	for _, f := range files {
		fh, err := os.Open(f)
		if err != nil {
			continue
		}
		sc := bufio.NewScanner(fh)
		sc.Buffer(make([]byte, 1<<20), 1<<24)
		for sc.Scan() {
			line := append([]byte(nil), sc.Bytes()...)
			acc := checkText(t, line)
			col.Case(acc > 0, string(line), nil)
			n++
		}
		fh.Close()
	}
	col.Add("testdata_lines", int64(n))
}

// hostile constants shared with the fuzz targets
var c10Hostile = []string{
	`[`, `[]`, `{}`, `""`, `0`, `[null]`, `["EVENT"]`, `["EVENT",null]`, `["EVENT",{}]`, `["REQ","a",null]`, `["REQ","a",{}]`, `["REQ","a",{"":[]}]`,
	`["REQ","a",{"#":[]}]`, `["REQ","a",{"#e":null}]`, `["REQ","a",{"ids":null}]`, `["REQ","a",{"kinds":[1e400]}]`, `["REQ","a",{"limit":-0}]`,
	`["COUNT","a",{"since":1.0}]`, `["CLOSE",null]`, `["CLOSE","\ud800"]`, `["AUTH",{"tags":[[]]}]`, `["OK","x",true,"duplicate: "]`, `["COUNT","s",{"count":18446744073709551616}]`,
	`["COUNT","s",{"count":1,"approximate":null}]`, `["COUNT","s",{"Count":1}]`, `["EVENT","s",{"id":"","pubkey":"","created_at":0,"kind":0,"tags":[[]],"content":"","sig":""}]`,
	`{"id":"","pubkey":"","created_at":0,"kind":0,"tags":[null],"content":"","sig":""}`, `{"id":"","pubkey":"","created_at":0,"kind":0,"tags":null,"content":"","sig":""}`,
	`{"id":"","pubkey":"","created_at":0,"kind":0,"tags":[],"content":"","sig":"","sig":""}`, strings.Repeat("[", 10000), strings.Repeat(`{"a":`, 5000),
	" [\"CLOSE\" , \"a\" ] ", "[\"\\u0045VENT\",{}]", "\xff\xfe", `["NOTICE","\u0000"]`,
}

func TestC10Hostile(t *testing.T) {
	col := ev.For("C10").SetRule(c10Rule)
	for _, s := range c10Hostile {
		acc := checkText(t, []byte(s))
		col.Case(acc > 0, s, nil)
	}
}

func FuzzC10Decode(f *testing.F) {
	for _, s := range c10Hostile {
		f.Add([]byte(s))
	}
	files, _ := filepath.Glob(hx.RepoDir() + "/testdata/*.jsonl")
	for _, fn := range files {
		b, err := os.ReadFile(fn)
		if err != nil {
			continue
		}
		for i, line := range strings.Split(string(b), "\n") {
			if line != "" && i < 12 {
				f.Add([]byte(line))
			}
		}
	}
	f.Fuzz(func(t *testing.T, b []byte) {
		checkText(t, b)
	})
}
