package core

import (
	"context"
	"encoding/json"
	"fmt"
	"io"
	"log/slog"
	"net/http"
	"net/http/httptest"
	"reflect"
	"strings"
	"sync"
	"testing"
	"time"

	"github.com/coder/websocket"
	"github.com/high-moctane/mocrelay"
	"pgregory.net/rapid"

	"verifharness/ev"
	"verifharness/gen"
	"verifharness/hx"
)

const c20Rule = "cases = (i) generated HTTP requests (method, path, Upgrade in {absent, websocket, h2c, other}, Accept in {absent, exact application/nostr+json, other media types, near-miss spellings}, both together) against ServeMux in 4 configurations (with/without NIP-11 document, with/without default handler): Upgrade => relay (real WebSocket dial reaches the handler; non-WebSocket Upgrade values get the relay's refusal), exact Accept => 200 + document equal to the configuration (own expectation built from the struct, generic JSON decode) + Content-Type + CORS header, everything else => default handler marker or greeting; near-miss Accept values may go either to the document or to the default, never elsewhere; (ii) generated NIP-11 documents (all members, retention/fees kind ranges with From==To and From!=To incl. 0 bounds): Unmarshal(Marshal(doc)) deep-equals doc (nil = empty), and hand-written 5 / [5,5] / [1,9] decode to the expected ranges; non-trivial = request with both Upgrade and the nostr Accept, or a document with >=1 kind range of each written form; distinct by hash of request/document"

func drawKinds(t *rapid.T, label string) ([]*mocrelay.Nip11Kind, []any, bool, bool) {
	n := rapid.IntRange(0, 3).Draw(t, label+"n")
	var ks []*mocrelay.Nip11Kind
	var exp []any
	single, pair := false, false
	for i := 0; i < n; i++ {
		from := rapid.SampledFrom([]int{0, 1, 5, 4, 30000, 65535, 1<<53 + 1, 1<<62 + 3, -1}).Draw(t, fmt.Sprintf("%s%dfrom", label, i))
		to := from
		if rapid.Bool().Draw(t, fmt.Sprintf("%s%dpair", label, i)) {
			to = rapid.SampledFrom([]int{0, 1, 9, 40000, 65535, 7, 1<<53 + 3, 1<<63 - 1}).Draw(t, fmt.Sprintf("%s%dto", label, i))
		}
		ks = append(ks, &mocrelay.Nip11Kind{From: from, To: to})
		if from == to {
			exp = append(exp, json.Number(fmt.Sprint(from)))
			single = true
		} else {
			exp = append(exp, []any{json.Number(fmt.Sprint(from)), json.Number(fmt.Sprint(to))})
			pair = true
		}
	}
	return ks, exp, single, pair
}

// drawNIP11 draws a document together with the generic JSON value it must be served as.
func drawNIP11(t *rapid.T) (*mocrelay.NIP11, map[string]any, bool) {
	d := &mocrelay.NIP11{}
	exp := map[string]any{}
	// the legal extreme: a configured document with nothing in it
	if rapid.IntRange(0, 19).Draw(t, "empty_document") == 0 {
		if rapid.Bool().Draw(t, "empty_slices") {
			d.SupportedNIPs, d.Tags = []int{}, []string{}
		}
		return d, exp, false
	}
	str := func(name string, dst *string) {
		if rapid.Bool().Draw(t, name+"?") {
			v := gen.UnicodeString(8).Draw(t, name)
			if rapid.IntRange(0, 11).Draw(t, name+"long?") == 0 {
				// a description of several kilobytes (the document then exceeds any 4 KiB buffer)
				v = strings.Repeat(rapid.SampledFrom([]string{"relay ", "é", "x"}).Draw(t, name+"unit"), rapid.IntRange(700, 9000).Draw(t, name+"longn"))
			}
			*dst = v
			if v != "" {
				exp[name] = v
			}
		}
	}
	str("name", &d.Name)
	str("description", &d.Description)
	str("pubkey", &d.Pubkey)
	str("contact", &d.Contact)
	str("software", &d.Software)
	str("version", &d.Version)
	str("posting_policy", &d.PostingPolicy)
	str("payments_url", &d.PaymentsURL)
	str("icon", &d.Icon)
	if rapid.Bool().Draw(t, "nips?") {
		d.SupportedNIPs = rapid.SliceOfN(rapid.IntRange(1, 99), 0, 4).Draw(t, "nips")
		if len(d.SupportedNIPs) > 0 {
			var a []any
			for _, n := range d.SupportedNIPs {
				a = append(a, json.Number(fmt.Sprint(n)))
			}
			exp["supported_nips"] = a
		}
	}
	strs := func(name string, dst *[]string) {
		if rapid.Bool().Draw(t, name+"?") {
			*dst = rapid.SliceOfN(rapid.SampledFrom([]string{"JP", "en", "x", "é"}), 0, 3).Draw(t, name)
			if len(*dst) > 0 {
				var a []any
				for _, s := range *dst {
					a = append(a, s)
				}
				exp[name] = a
			}
		}
	}
	strs("relay_countries", &d.RelayContries)
	strs("language_tags", &d.LanguageTags)
	strs("tags", &d.Tags)
	single, pair := false, false
	if rapid.Bool().Draw(t, "limitation?") {
		l := &mocrelay.NIP11Limitation{}
		le := map[string]any{}
		num := func(name string, dst *int) {
			if rapid.Bool().Draw(t, "lim."+name+"?") {
				*dst = rapid.IntRange(0, 100000).Draw(t, "lim."+name)
				if *dst != 0 {
					le[name] = json.Number(fmt.Sprint(*dst))
				}
			}
		}
		num("max_message_length", &l.MaxMessageLength)
		num("max_subscriptions", &l.MaxSubscriptions)
		num("max_filters", &l.MaxFilters)
		num("max_limit", &l.MaxLimit)
		num("max_subid_length", &l.MaxSubIDLength)
		num("max_event_tags", &l.MaxEventTags)
		num("max_content_length", &l.MaxContentLength)
		num("min_pow_difficulty", &l.MinPoWDifficulty)
		if rapid.Bool().Draw(t, "lim.auth") {
			l.AuthRequired = true
			le["auth_required"] = true
		}
		if rapid.Bool().Draw(t, "lim.pay") {
			l.PaymentRequired = true
			le["payment_required"] = true
		}
		if rapid.Bool().Draw(t, "lim.lower?") {
			l.CreatedAtLowerLimit = rapid.Int64Range(0, 1<<40).Draw(t, "lim.lower")
			if l.CreatedAtLowerLimit != 0 {
				le["created_at_lower_limit"] = json.Number(fmt.Sprint(l.CreatedAtLowerLimit))
			}
		}
		if rapid.Bool().Draw(t, "lim.upper?") {
			l.CreatedAtUpperLimit = rapid.Int64Range(0, 1<<40).Draw(t, "lim.upper")
			if l.CreatedAtUpperLimit != 0 {
				le["created_at_upper_limit"] = json.Number(fmt.Sprint(l.CreatedAtUpperLimit))
			}
		}
		d.Limitation = l
		exp["limitation"] = le
	}
	if rapid.Bool().Draw(t, "retention?") {
		r := &mocrelay.NIP11Retention{}
		re := map[string]any{}
		ks, ke, s, p := drawKinds(t, "ret.kinds.")
		single, pair = single || s, pair || p
		r.Kinds = ks
		if len(ke) > 0 {
			re["kinds"] = ke
		}
		if rapid.Bool().Draw(t, "ret.time?") {
			v := rapid.IntRange(0, 99999).Draw(t, "ret.time")
			r.Time = &v
			re["time"] = json.Number(fmt.Sprint(v))
		}
		if rapid.Bool().Draw(t, "ret.count?") {
			v := rapid.IntRange(0, 99999).Draw(t, "ret.count")
			r.Count = &v
			re["count"] = json.Number(fmt.Sprint(v))
		}
		d.Retention = r
		exp["retention"] = re
	}
	if rapid.Bool().Draw(t, "fees?") {
		f := &mocrelay.NIP11Fees{}
		fe := map[string]any{}
		fees := func(name string, dst *[]*mocrelay.Nip11Fee) {
			n := rapid.IntRange(0, 2).Draw(t, "fees."+name+".n")
			var a []any
			for i := 0; i < n; i++ {
				lab := fmt.Sprintf("fees.%s.%d.", name, i)
				fee := &mocrelay.Nip11Fee{Amount: rapid.IntRange(0, 1000).Draw(t, lab+"amount"), Unit: rapid.SampledFrom([]string{"", "msats", "sats"}).Draw(t, lab+"unit")}
				e := map[string]any{"amount": json.Number(fmt.Sprint(fee.Amount))}
				if fee.Unit != "" {
					e["unit"] = fee.Unit
				}
				ks, ke, s, p := drawKinds(t, lab+"kinds.")
				single, pair = single || s, pair || p
				fee.Kinds = ks
				if len(ke) > 0 {
					e["kinds"] = ke
				}
				if rapid.Bool().Draw(t, lab+"period?") {
					v := rapid.IntRange(0, 99999).Draw(t, lab+"period")
					fee.Period = &v
					e["period"] = json.Number(fmt.Sprint(v))
				}
				*dst = append(*dst, fee)
				a = append(a, e)
			}
			if len(a) > 0 {
				fe[name] = a
			}
		}
		fees("admission", &f.Admission)
		fees("subscription", &f.Subscription)
		fees("publication", &f.Publication)
		d.Fees = f
		exp["fees"] = fe
	}
	return d, exp, single && pair
}

// normalize makes nil and empty slices equal for DeepEqual.
func normalizeEmpty(v reflect.Value) {
	switch v.Kind() {
	case reflect.Ptr:
		if !v.IsNil() {
			normalizeEmpty(v.Elem())
		}
	case reflect.Struct:
		for i := 0; i < v.NumField(); i++ {
			normalizeEmpty(v.Field(i))
		}
	case reflect.Slice:
		if v.Len() == 0 && v.CanSet() {
			v.Set(reflect.Zero(v.Type()))
			return
		}
		for i := 0; i < v.Len(); i++ {
			normalizeEmpty(v.Index(i))
		}
	}
}

func decodeGeneric(b []byte) (any, error) {
	dec := json.NewDecoder(strings.NewReader(string(b)))
	dec.UseNumber()
	var v any
	if err := dec.Decode(&v); err != nil {
		return nil, err
	}
	if dec.More() {
		return nil, fmt.Errorf("trailing data")
	}
	return v, nil
}

func TestC20NIP11RoundTrip(t *testing.T) {
	col := ev.For("C20").SetRule(c20Rule)
	rapid.Check(t, func(t *rapid.T) {
		doc, _, both := drawNIP11(t)
		enc, err := json.Marshal(doc)
		if err != nil {
			hx.Fail(t, ev.Failure{Property: "C20", Signature: "nip11-marshal", Clause: "the information document encodes", Case: doc, Observed: err.Error()})
		}
		var back mocrelay.NIP11
		if err := json.Unmarshal(enc, &back); err != nil {
			hx.Fail(t, ev.Failure{Property: "C20", Signature: "nip11-unmarshal", Clause: "the encoded information document decodes", Case: map[string]any{"encoded": string(enc)}, Observed: err.Error()})
		}
		a, b := reflect.ValueOf(doc), reflect.ValueOf(&back)
		// work on copies via re-decoding is not independent; normalise in place instead
		normalizeEmpty(a)
		normalizeEmpty(b)
		if !reflect.DeepEqual(doc, &back) {
			hx.Fail(t, ev.Failure{Property: "C20", Signature: "nip11-roundtrip", Clause: "the information document round-trips through JSON for every configuration, including kind ranges written as single numbers or pairs",
				Case: map[string]any{"encoded": string(enc)}, Observed: hx.JSON(&back), Expected: hx.JSON(doc)})
		}
		col.Label("nip11:roundtrip")
		col.Case(both, string(enc), func() any { return map[string]any{"document": string(enc)} })
	})
}

func TestC20HandWrittenKinds(t *testing.T) {
	col := ev.For("C20").SetRule(c20Rule)
	text := `{"retention":{"kinds":[5,[5,5],[1,9],0,[0,3]]},"fees":{"admission":[{"kinds":[[4,4],40000],"amount":1}]}}`
	var d mocrelay.NIP11
	if err := json.Unmarshal([]byte(text), &d); err != nil {
		hx.Fail(t, ev.Failure{Property: "C20", Signature: "nip11-handwritten", Clause: "documents with kinds written as numbers or pairs decode", Case: text, Observed: err.Error()})
	}
	want := [][2]int{{5, 5}, {5, 5}, {1, 9}, {0, 0}, {0, 3}}
	okk := d.Retention != nil && len(d.Retention.Kinds) == len(want)
	for i := 0; okk && i < len(want); i++ {
		k := d.Retention.Kinds[i]
		okk = k != nil && k.From == want[i][0] && k.To == want[i][1]
	}
	okk = okk && d.Fees != nil && len(d.Fees.Admission) == 1 && len(d.Fees.Admission[0].Kinds) == 2 &&
		*d.Fees.Admission[0].Kinds[0] == (mocrelay.Nip11Kind{From: 4, To: 4}) && *d.Fees.Admission[0].Kinds[1] == (mocrelay.Nip11Kind{From: 40000, To: 40000})
	if !okk {
		hx.Fail(t, ev.Failure{Property: "C20", Signature: "nip11-handwritten", Clause: "5, [5,5] and [1,9] decode to the ranges 5-5, 5-5, 1-9", Case: text, Observed: hx.JSON(d)})
	}
	col.Case(true, text, func() any { return text })
}

const defaultMarker = "verif-default-handler-marker"

type c20Rec struct {
	got chan string
}

func (h *c20Rec) ServeNostr(ctx context.Context, send chan<- mocrelay.ServerMsg, recv <-chan mocrelay.ClientMsg) error {
	for {
		select {
		case <-ctx.Done():
			return ctx.Err()
		case m, ok := <-recv:
			if !ok {
				return mocrelay.ErrRecvClosed
			}
			if c, is := m.(*mocrelay.ClientCloseMsg); is {
				select {
				case h.got <- c.SubscriptionID:
				default:
				}
			}
		}
	}
}

func TestC20Routing(t *testing.T) {
	col := ev.For("C20").SetRule(c20Rule)
	rapid.Check(t, func(t *rapid.T) {
		rec := &c20Rec{got: make(chan string, 4)}
		mux := &mocrelay.ServeMux{Relay: mocrelay.NewRelay(rec, nil)}
		var doc *mocrelay.NIP11
		var exp map[string]any
		if rapid.Bool().Draw(t, "with_doc") {
			doc, exp, _ = drawNIP11(t)
			mux.NIP11 = doc
		}
		// every optional logger the mux (and relay) offers, set or unset: routing must not depend on it
		withLoggers := rapid.Bool().Draw(t, "with_loggers")
		if withLoggers {
			lg := slog.New(slog.NewTextHandler(io.Discard, nil))
			ropt := mocrelay.NewDefaultRelayOption()
			ropt.Logger = lg
			mux.Relay = mocrelay.NewRelay(rec, ropt)
			mv := reflect.ValueOf(mux).Elem()
			for i := 0; i < mv.NumField(); i++ {
				if f := mv.Field(i); f.CanSet() && f.Type() == reflect.TypeOf(lg) {
					f.Set(reflect.ValueOf(lg))
				}
			}
		}
		withDefault := rapid.Bool().Draw(t, "with_default")
		if withDefault {
			mux.Default = http.HandlerFunc(func(w http.ResponseWriter, r *http.Request) {
				w.Header().Set("X-Verif", "default")
				w.WriteHeader(http.StatusTeapot)
				io.WriteString(w, defaultMarker)
			})
		}
		method := rapid.SampledFrom([]string{"GET", "GET", "POST", "HEAD", "OPTIONS"}).Draw(t, "method")
		path := rapid.SampledFrom([]string{"/", "/x", "/.well-known/nostr.json", "/?a=b"}).Draw(t, "path")
		upgrade := rapid.SampledFrom([]string{"", "", "", "websocket", "websocket", "h2c", "WebSocket", "foo"}).Draw(t, "upgrade")
		accept := rapid.SampledFrom([]string{"", "application/nostr+json", "application/nostr+json", "application/nostr+json", "text/html", "application/json", "*/*",
			"application/nostr+json; q=0.9", "Application/Nostr+JSON", " application/nostr+json", "application/nostr+json, text/html", "application/nostr+jsonx"}).Draw(t, "accept")
		origin := rapid.SampledFrom([]string{"", "", "https://client.example", "null"}).Draw(t, "origin")
		conn := rapid.SampledFrom([]string{"Upgrade", "Upgrade", "keep-alive", ""}).Draw(t, "connection")
		desc := map[string]any{"method": method, "path": path, "upgrade": upgrade, "connection": conn, "accept": accept, "origin": origin, "with_doc": doc != nil, "with_default": withDefault, "with_loggers": withLoggers}
		exactAccept := accept == "application/nostr+json"
		nearMiss := !exactAccept && strings.Contains(strings.ToLower(accept), "application/nostr+json") && accept != "application/nostr+jsonx"

		checkDoc := func(status int, hdr http.Header, body []byte) string {
			if status != 200 {
				return fmt.Sprintf("status %d", status)
			}
			v, err := decodeGeneric(body)
			if err != nil {
				return "body is not valid JSON: " + err.Error()
			}
			if doc == nil {
				if m, ok := v.(map[string]any); !ok || len(m) != 0 {
					return "without a configured document the answer must be an empty JSON document, got " + string(body)
				}
				return ""
			}
			if hx.JSON(v) != hx.JSON(exp) {
				return "document differs from the configuration: got " + hx.JSON(v) + " want " + hx.JSON(exp)
			}
			if ct := hdr.Get("Content-Type"); ct != "application/nostr+json" {
				return "Content-Type " + ct
			}
			if ao := hdr.Get("Access-Control-Allow-Origin"); ao != "*" {
				return "Access-Control-Allow-Origin " + ao
			}
			return ""
		}
		checkDefault := func(status int, hdr http.Header, body []byte) string {
			if withDefault {
				if status != http.StatusTeapot || string(body) != defaultMarker && method != "HEAD" || hdr.Get("X-Verif") != "default" {
					return fmt.Sprintf("not the default handler's response: status %d body %q", status, body)
				}
				return ""
			}
			if status != 200 {
				return fmt.Sprintf("greeting expected, status %d", status)
			}
			if hdr.Get("Content-Type") == "application/nostr+json" {
				return "greeting expected, got the nostr content type"
			}
			if _, err := decodeGeneric(body); err == nil && method != "HEAD" {
				return "greeting expected, got a JSON document: " + string(body)
			}
			return ""
		}

		if upgrade != "" && strings.EqualFold(upgrade, "websocket") && method == "GET" && conn == "Upgrade" {
			// real WebSocket dial through the mux
			srv := httptest.NewServer(mux)
			defer srv.Close()
			ctx, cancel := context.WithTimeout(context.Background(), 10*time.Second)
			defer cancel()
			hdr := http.Header{}
			if accept != "" {
				hdr.Set("Accept", accept)
			}
			c, _, err := websocket.Dial(ctx, "ws"+strings.TrimPrefix(srv.URL, "http")+path, &websocket.DialOptions{HTTPHeader: hdr})
			if err != nil {
				hx.Fail(t, ev.Failure{Property: "C20", Signature: "upgrade-not-relay", Clause: "a request with an Upgrade header is handed to the relay", Case: desc, Observed: "dial: " + err.Error()})
			}
			defer c.CloseNow()
			if err := c.Write(ctx, websocket.MessageText, []byte(`["CLOSE","c20"]`)); err != nil {
				hx.Fail(t, ev.Failure{Property: "C20", Signature: "upgrade-not-relay", Clause: "a request with an Upgrade header is handed to the relay", Case: desc, Observed: "write: " + err.Error()})
			}
			select {
			case id := <-rec.got:
				if id != "c20" {
					hx.Fail(t, ev.Failure{Property: "C20", Signature: "upgrade-not-relay", Clause: "the relay's handler receives the message", Case: desc, Observed: id})
				}
			case <-time.After(10 * time.Second):
				hx.Fail(t, ev.Failure{Property: "C20", Signature: "upgrade-not-relay", Clause: "a WebSocket request reaches the handler behind the relay", Case: desc, Observed: "nothing received"})
			}
			col.Label("route:relay-websocket")
			col.Case(exactAccept, hx.JSON(desc), func() any { return desc })
			return
		}
		req := httptest.NewRequest(method, path, nil)
		if upgrade != "" {
			req.Header.Set("Upgrade", upgrade)
			if conn != "" {
				req.Header.Set("Connection", conn)
			}
		}
		if accept != "" {
			req.Header.Set("Accept", accept)
		}
		if origin != "" {
			req.Header.Set("Origin", origin)
		}
		// headers of caches and download managers: the document is served whole all the same
		extra := rapid.SampledFrom([]string{"", "", "", "Range: bytes=0-3", "If-None-Match: *", "If-Match: \"x\"", "If-Modified-Since: Mon, 02 Jan 2006 15:04:05 GMT", "If-Range: \"x\""}).Draw(t, "extra_header")
		if extra != "" {
			kv := strings.SplitN(extra, ": ", 2)
			req.Header.Set(kv[0], kv[1])
			desc["extra_header"] = extra
		}
		w := httptest.NewRecorder()
		mux.ServeHTTP(w, req)
		res := w.Result()
		body, _ := io.ReadAll(res.Body)
		switch {
		case upgrade != "":
			// relay's refusal of a non-WebSocket upgrade: neither the document nor the default handler
			if res.StatusCode < 400 || strings.Contains(string(body), defaultMarker) || res.Header.Get("Content-Type") == "application/nostr+json" {
				hx.Fail(t, ev.Failure{Property: "C20", Signature: "upgrade-not-relay", Clause: "a request with an Upgrade header is handed to the relay (which refuses a non-WebSocket upgrade)", Case: desc,
					Observed: fmt.Sprintf("status %d body %q", res.StatusCode, body)})
			}
			col.Label("route:relay-refusal")
		case exactAccept:
			if why := checkDoc(res.StatusCode, res.Header, body); why != "" && method != "HEAD" {
				hx.Fail(t, ev.Failure{Property: "C20", Signature: "nip11-response", Clause: "Accept: application/nostr+json is answered with the configured relay information document", Case: desc, Observed: why})
			}
			col.Label("route:nip11")
			if doc != nil && method != "HEAD" {
				// the configured document, not an earlier answer: reconfigure between two requests, in
				// place or by deriving a new document from the served one
				newName := rapid.SampledFrom([]string{"renamed relay", "", "r2"}).Draw(t, "rename")
				how := rapid.SampledFrom([]string{"in-place", "derived-copy"}).Draw(t, "rename_how")
				if how == "derived-copy" {
					derived := reflect.New(reflect.TypeOf(*doc))
					derived.Elem().Set(reflect.ValueOf(doc).Elem())
					doc = derived.Interface().(*mocrelay.NIP11)
					mux.NIP11 = doc
				}
				doc.Name = newName
				delete(exp, "name")
				if newName != "" {
					exp["name"] = newName
				}
				w2 := httptest.NewRecorder()
				mux.ServeHTTP(w2, req.Clone(context.Background()))
				res2 := w2.Result()
				body2, _ := io.ReadAll(res2.Body)
				if why := checkDoc(res2.StatusCode, res2.Header, body2); why != "" {
					desc["reconfigured"] = how
					hx.Fail(t, ev.Failure{Property: "C20", Signature: "nip11-reconfigured", Clause: "Accept: application/nostr+json is answered with the configured relay information document, also after the configuration changed between two requests", Case: desc, Observed: why})
				}
				col.Label("route:nip11-reconfigured-" + how)
			}
		case nearMiss:
			d1, d2 := checkDoc(res.StatusCode, res.Header, body), checkDefault(res.StatusCode, res.Header, body)
			if d1 != "" && d2 != "" && method != "HEAD" {
				hx.Fail(t, ev.Failure{Property: "C20", Signature: "near-miss-accept", Clause: "a request whose Accept header merely resembles application/nostr+json gets the document or the default handler, nothing else", Case: desc,
					Observed: fmt.Sprintf("status %d body %q (as document: %s; as default: %s)", res.StatusCode, body, d1, d2)})
			}
			col.Label("route:near-miss")
		default:
			if why := checkDefault(res.StatusCode, res.Header, body); why != "" {
				hx.Fail(t, ev.Failure{Property: "C20", Signature: "default-route", Clause: "every other request goes to the default handler or greeting", Case: desc, Observed: why})
			}
			col.Label("route:default")
		}
		col.Case(upgrade != "" && exactAccept, hx.JSON(desc), func() any { return desc })
	})
}

// TestNIP11ConcurrentDocuments: several muxes with documents of their own (one process may
// serve several relays), asked at the same time from many goroutines. Every answer is the
// document of the mux that was asked, whole. Sequential requests cannot tell a per-request
// encoding from one that shares scratch state between requests.
func TestNIP11ConcurrentDocuments(t *testing.T) {
	col := ev.For("C20").SetRule(c20Rule)
	rapid.Check(t, func(t *rapid.T) {
		nd := rapid.IntRange(2, 4).Draw(t, "documents")
		muxes := make([]*mocrelay.ServeMux, nd)
		exps := make([]string, nd)
		for i := range muxes {
			doc, exp, _ := drawNIP11(t)
			// documents of different lengths: a name that grows with i
			doc.Name = strings.Repeat(fmt.Sprintf("relay-%d-", i), 1+i*rapid.IntRange(1, 40).Draw(t, "namelen"))
			exp["name"] = doc.Name
			muxes[i] = &mocrelay.ServeMux{NIP11: doc}
			exps[i] = hx.JSON(exp)
		}
		workers := rapid.IntRange(4, 24).Draw(t, "workers")
		rounds := rapid.IntRange(500, 4000).Draw(t, "rounds")
		desc := map[string]any{"mode": "concurrent-documents", "documents": nd, "workers": workers, "rounds": rounds}
		var mu sync.Mutex
		bad := ""
		var wg sync.WaitGroup
		for g := 0; g < workers; g++ {
			wg.Add(1)
			go func(g int) {
				defer wg.Done()
				for i := 0; i < rounds; i++ {
					k := (g + i) % nd
					req := httptest.NewRequest("GET", "/", nil)
					req.Header.Set("Accept", "application/nostr+json")
					w := httptest.NewRecorder()
					muxes[k].ServeHTTP(w, req)
					why := ""
					if w.Code != 200 {
						why = fmt.Sprintf("status %d", w.Code)
					} else if v, err := decodeGeneric(w.Body.Bytes()); err != nil {
						why = "body is not valid JSON: " + err.Error() + ": " + gen.Short(w.Body.String())
					} else if got := hx.JSON(v); got != exps[k] {
						why = "document differs from the configuration of the mux that was asked: got " + got + " want " + exps[k]
					}
					if why != "" {
						mu.Lock()
						if bad == "" {
							bad = fmt.Sprintf("worker %d round %d mux %d: %s", g, i, k, why)
						}
						mu.Unlock()
						return
					}
				}
			}(g)
		}
		wg.Wait()
		if bad != "" {
			hx.Fail(t, ev.Failure{Property: "C20", Signature: "nip11-concurrent", Clause: "Accept: application/nostr+json is answered with the configured relay information document (valid JSON equal to the configuration), also while other requests are served", Case: desc, Observed: bad})
		}
		col.Label("mode:concurrent-documents")
		col.Case(true, hx.JSON(desc)+exps[0], func() any { return desc })
	})
}
