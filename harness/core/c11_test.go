package core

import (
	"fmt"
	"strings"
	"testing"

	"github.com/high-moctane/mocrelay"
	"pgregory.net/rapid"

	"verifharness/ev"
	"verifharness/gen"
	"verifharness/hx"
)

// admitted runs the admission gate: parse + validity.
func admitted(text string) (msg mocrelay.ClientMsg, ok bool, why string) {
	msg, err := mocrelay.ParseClientMsg([]byte(text))
	if err != nil {
		return nil, false, "parse error: " + err.Error()
	}
	if !mocrelay.ValidClientMsg(msg) {
		return msg, false, "judged invalid"
	}
	return msg, true, ""
}

func c11SameValue(m *gen.WireMsg, got mocrelay.ClientMsg) (bool, string) {
	switch x := got.(type) {
	case *mocrelay.ClientEventMsg:
		if m.Label != "EVENT" || !gen.EventEqual(x.Event, m.Event) {
			return false, "decoded EVENT differs from the written one"
		}
	case *mocrelay.ClientAuthMsg:
		if m.Label != "AUTH" || !gen.EventEqual(x.Event, m.Event) {
			return false, "decoded AUTH differs from the written one"
		}
	case *mocrelay.ClientReqMsg:
		if m.Label != "REQ" || x.SubscriptionID != m.SubID || !gen.FiltersEqual(x.ReqFilters, m.Fs) {
			return false, "decoded REQ differs from the written one"
		}
	case *mocrelay.ClientCountMsg:
		if m.Label != "COUNT" || x.SubscriptionID != m.SubID || !gen.FiltersEqual(x.ReqFilters, m.Fs) {
			return false, "decoded COUNT differs from the written one"
		}
	case *mocrelay.ClientCloseMsg:
		if m.Label != "CLOSE" || x.SubscriptionID != m.SubID {
			return false, "decoded CLOSE differs from the written one"
		}
	default:
		return false, fmt.Sprintf("unexpected type %T", got)
	}
	return true, ""
}

const c11Rule = "cases = generated NIP-01 client messages written as JSON text by the harness's own writer (all 5 types, every optional filter member present/absent, member order permuted, random insignificant whitespace around every structural token incl. before/after the outer array, \\uXXXX escape variants of string characters); completeness: each must parse, be judged valid and decode to the written value; corruption: one constructed single-point corruption (wrong type/length/case/range/arity/unknown member, ~60 classes) must be rejected; soundness: every accepted text (well-formed, corrupted or token-mutated) must satisfy the strict NIP-01 predicate; non-trivial = corruption inside an event/filter, or well-formed message with >=2 optional parts and some whitespace; distinct by text"

func TestC11Completeness(t *testing.T) {
	col := ev.For("C11").SetRule(c11Rule)
	col.Assume("filters with since > until, JSON null in place of an object, and non-canonical numerals (1e2, 1.0) are not generated: the statement is silent on them")
	rapid.Check(t, func(t *rapid.T) {
		m := gen.WireClientMsg(t, "", false)
		ws := rapid.IntRange(0, 3).Draw(t, "wsmode") != 0
		escv := rapid.IntRange(0, 3).Draw(t, "escmode") == 0
		text := gen.Render(m.Doc, &gen.RenderOpts{T: t, Whitespace: ws, EscapeVar: escv})
		col.Label("wellformed:" + m.Label)
		hasWS := ws && text != strings.TrimSpace(text)
		if hasWS {
			col.Label("outer-whitespace")
		}
		got, ok, why := admitted(text)
		if !ok {
			sig := "wellformed-rejected"
			hx.Fail(t, ev.Failure{Property: "C11", Signature: sig, Clause: "every well-formed client message is parsed and judged valid",
				Case: map[string]any{"text": text}, Observed: why, Expected: "accepted"})
		}
		if same, why := c11SameValue(m, got); !same {
			hx.Fail(t, ev.Failure{Property: "C11", Signature: "wellformed-misdecoded", Clause: "an accepted well-formed message decodes to the written value",
				Case: map[string]any{"text": text}, Observed: why + ": " + hx.JSON(got), Expected: "the written value"})
		}
		if okS, whyS := gen.StrictClientMsg(got); !okS {
			hx.Fail(t, ev.Failure{Property: "C11", Signature: "accepted-unsound", Clause: "no message judged valid breaks the NIP-01 constraints",
				Case: map[string]any{"text": text}, Observed: whyS, Expected: "sound"})
		}
		col.Case(m.Optional >= 2 && ws && len(text) > len(gen.Render(m.Doc, nil)), text, func() any { return text })
	})
}

// fix-ups: a corruption that sets since/until on a filter must not be masked by
// the since<=until rule: drop the sibling bound so that only the intended
// corruption can be the reason for rejection.
func c11Apply(t *rapid.T, c gen.Corruption, m *gen.WireMsg) gen.JArr {
	return c.Apply(t, m)
}

func TestC11Corruptions(t *testing.T) {
	col := ev.For("C11").SetRule(c11Rule)
	rapid.Check(t, func(t *rapid.T) {
		m := gen.WireClientMsg(t, "", false)
		var app []gen.Corruption
		for _, c := range gen.Corruptions {
			if c.Applies(m) {
				app = append(app, c)
			}
		}
		ci := rapid.IntRange(0, len(app)-1).Draw(t, "corruption")
		c := app[ci]
		doc := c11Apply(t, c, m)
		ws := rapid.IntRange(0, 3).Draw(t, "wsmode") == 0
		text := gen.Render(doc, &gen.RenderOpts{T: t, Whitespace: ws})
		col.Label("corruption:" + c.Name)
		got, ok, _ := admitted(text)
		if ok && !gen.MustReject(c.Name) {
			// structural corruption (label, arity, sub id type, null, extra member): the
			// statement only demands that whatever is accepted is sound
			col.Label("structural-accepted:" + c.Name)
			if okS, whyS := gen.StrictClientMsg(got); !okS {
				hx.Fail(t, ev.Failure{Property: "C11", Signature: "accepted-unsound", Clause: "no message judged valid breaks the NIP-01 constraints",
					Case: map[string]any{"text": text, "corruption": c.Name}, Observed: whyS + ": " + hx.JSON(got), Expected: "sound"})
			}
		} else if ok {
			sig := "corruption-accepted:" + corruptionFamily(c.Name)
			hx.Fail(t, ev.Failure{Property: "C11", Signature: sig, Clause: "a single-point corruption (" + c.Name + ") must be rejected by parse or validity",
				Case: map[string]any{"text": text, "corruption": c.Name}, Observed: "accepted as " + hx.JSON(got), Expected: "parse error or judged invalid"})
		}
		inside := strings.HasPrefix(c.Name, "event-") || strings.HasPrefix(c.Name, "filter-")
		col.Case(inside, text, func() any { return map[string]any{"corruption": c.Name, "text": text} })
	})
}

func corruptionFamily(name string) string {
	switch {
	case strings.Contains(name, "kind"):
		return "kind-range"
	}
	return "other"
}

// TestC11Soundness: whatever is accepted must be sound, over a mixed stream of
// well-formed, corrupted and token-mutated texts.
func TestC11Soundness(t *testing.T) {
	col := ev.For("C11").SetRule(c11Rule)
	rapid.Check(t, func(t *rapid.T) {
		m := gen.WireClientMsg(t, "", false)
		doc := m.Doc
		mode := rapid.IntRange(0, 3).Draw(t, "mode")
		if mode >= 1 {
			var app []gen.Corruption
			for _, c := range gen.Corruptions {
				if c.Applies(m) {
					app = append(app, c)
				}
			}
			doc = app[rapid.IntRange(0, len(app)-1).Draw(t, "corruption")].Apply(t, m)
		}
		text := gen.Render(doc, &gen.RenderOpts{T: t, Whitespace: rapid.Bool().Draw(t, "ws")})
		if mode >= 2 {
			text = gen.MutateText(t, text)
		}
		got, ok, _ := admitted(text)
		if ok {
			col.Label("soundness:accepted")
			if okS, whyS := gen.StrictClientMsg(got); !okS {
				hx.Fail(t, ev.Failure{Property: "C11", Signature: "accepted-unsound", Clause: "no message judged valid breaks the NIP-01 constraints",
					Case: map[string]any{"text": text}, Observed: whyS + ": " + hx.JSON(got), Expected: "sound"})
			}
		} else {
			col.Label("soundness:rejected")
		}
		col.Case(ok && mode >= 1, text, func() any { return map[string]any{"accepted_after_mutation": text} })
	})
}

// FuzzC11Admission: coverage-guided bytes with the soundness oracle inside.
func FuzzC11Admission(f *testing.F) {
	for _, s := range c10Hostile {
		f.Add([]byte(s))
	}
	f.Add([]byte(`["REQ","a",{"kinds":[1],"#a":["30000:` + strings.Repeat("0", 64) + `:x:y"],"since":1,"until":2,"limit":0}]`))
	f.Add([]byte(`["EVENT",{"id":"` + strings.Repeat("0", 64) + `","pubkey":"` + strings.Repeat("a", 64) + `","created_at":1,"kind":1,"tags":[["e","x"]],"content":"","sig":"` + strings.Repeat("b", 128) + `"}]`))
	f.Fuzz(func(t *testing.T, b []byte) {
		got, ok, _ := admitted(string(b))
		if !ok {
			return
		}
		if okS, why := gen.StrictClientMsg(got); !okS {
			t.Fatalf("C11 accepted-unsound: %s for %q", why, b)
		}
	})
}
