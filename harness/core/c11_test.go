package core

import (
	"fmt"
	"strings"
	"testing"

	"github.com/high-moctane/mocrelay"
	"pgregory.net/rapid"

	"verifharness/ev"
	"verifharness/gen"
	"verifharness/hx"
)

// admitted runs the admission gate: parse + validity.
func admitted(text string) (msg mocrelay.ClientMsg, ok bool, why string) {
	msg, err := mocrelay.ParseClientMsg([]byte(text))
	if err != nil {
		return nil, false, "parse error: " + err.Error()
	}
	if !mocrelay.ValidClientMsg(msg) {
		return msg, false, "judged invalid"
	}
	return msg, true, ""
}

func c11SameValue(m *gen.WireMsg, got mocrelay.ClientMsg) (bool, string) {
	switch x := got.(type) {
	case *mocrelay.ClientEventMsg:
		if m.Label != "EVENT" || !gen.EventEqual(x.Event, m.Event) {
			return false, "decoded EVENT differs from the written one"
		}
	case *mocrelay.ClientAuthMsg:
		if m.Label != "AUTH" || !gen.EventEqual(x.Event, m.Event) {
			return false, "decoded AUTH differs from the written one"
		}
	case *mocrelay.ClientReqMsg:
		if m.Label != "REQ" || x.SubscriptionID != m.SubID || !gen.FiltersEqual(x.ReqFilters, m.Fs) {
			return false, "decoded REQ differs from the written one"
		}
	case *mocrelay.ClientCountMsg:
		if m.Label != "COUNT" || x.SubscriptionID != m.SubID || !gen.FiltersEqual(x.ReqFilters, m.Fs) {
			return false, "decoded COUNT differs from the written one"
		}
	case *mocrelay.ClientCloseMsg:
		if m.Label != "CLOSE" || x.SubscriptionID != m.SubID {
			return false, "decoded CLOSE differs from the written one"
		}
	default:
		return false, fmt.Sprintf("unexpected type %T", got)
	}
	return true, ""
}

const c11Rule = "cases = generated NIP-01 client messages written as JSON text by the harness's own writer (all 5 types, every optional filter member present/absent, member order permuted, random insignificant whitespace around every structural token incl. before/after the outer array, \\uXXXX escape variants of string characters); completeness: each must parse, be judged valid and decode to the written value; corruption: one constructed single-point corruption (wrong type/length/case/range/arity/unknown member, ~60 classes) must be rejected; soundness: every accepted text (well-formed, corrupted or token-mutated) must satisfy the strict NIP-01 predicate; non-trivial = corruption inside an event/filter, or well-formed message with >=2 optional parts and some whitespace; distinct by text"

func TestC11Completeness(t *testing.T) {
	col := ev.For("C11").SetRule(c11Rule)
	col.Assume("filters with since > until, JSON null in place of an object, and non-canonical numerals (1e2, 1.0) are not generated: the statement is silent on them")
	rapid.Check(t, func(t *rapid.T) {
		m := gen.WireClientMsg(t, "", false)
		ws := rapid.IntRange(0, 3).Draw(t, "wsmode") != 0
		escv := rapid.IntRange(0, 3).Draw(t, "escmode") == 0
		text := gen.Render(m.Doc, &gen.RenderOpts{T: t, Whitespace: ws, EscapeVar: escv})
		col.Label("wellformed:" + m.Label)
		hasWS := ws && text != strings.TrimSpace(text)
		if hasWS {
			col.Label("outer-whitespace")
		}
		got, ok, why := admitted(text)
		if !ok {
			sig := "wellformed-rejected"
			hx.Fail(t, ev.Failure{Property: "C11", Signature: sig, Clause: "every well-formed client message is parsed and judged valid",
				Case: map[string]any{"text": text}, Observed: why, Expected: "accepted"})
		}
		if same, why := c11SameValue(m, got); !same {
			hx.Fail(t, ev.Failure{Property: "C11", Signature: "wellformed-misdecoded", Clause: "an accepted well-formed message decodes to the written value",
				Case: map[string]any{"text": text}, Observed: why + ": " + hx.JSON(got), Expected: "the written value"})
		}
		if okS, whyS := gen.StrictClientMsg(got); !okS {
			hx.Fail(t, ev.Failure{Property: "C11", Signature: "accepted-unsound", Clause: "no message judged valid breaks the NIP-01 constraints",
				Case: map[string]any{"text": text}, Observed: whyS, Expected: "sound"})
		}
		col.Case(m.Optional >= 2 && ws && len(text) > len(gen.Render(m.Doc, nil)), text, func() any { return text })
	})
}

// corruption classes ------------------------------------------------------------------------

type corruption struct {
	name    string
	applies func(m *gen.WireMsg) bool
	apply   func(t *rapid.T, m *gen.WireMsg) gen.JArr
}

func upperOneHex(t *rapid.T, s string) string {
	var pos []int
	for i := 0; i < len(s); i++ {
		if s[i] >= 'a' && s[i] <= 'f' {
			pos = append(pos, i)
		}
	}
	if len(pos) == 0 {
		return "A" + s[1:]
	}
	p := rapid.SampledFrom(pos).Draw(t, "uppos")
	return s[:p] + strings.ToUpper(s[p:p+1]) + s[p+1:]
}

func isEv(m *gen.WireMsg) bool  { return m.Label == "EVENT" || m.Label == "AUTH" }
func isFil(m *gen.WireMsg) bool { return m.Label == "REQ" || m.Label == "COUNT" }
func anyMsg(*gen.WireMsg) bool  { return true }

func withEvent(m *gen.WireMsg, f func(o gen.JObj) gen.J) gen.JArr {
	doc := append(gen.JArr(nil), m.Doc...)
	doc[m.EventIdx] = f(doc[m.EventIdx].(gen.JObj))
	return doc
}

func withFilter(t *rapid.T, m *gen.WireMsg, f func(o gen.JObj) gen.J) gen.JArr {
	doc := append(gen.JArr(nil), m.Doc...)
	i := rapid.SampledFrom(m.FilterIdxs).Draw(t, "whichfilter")
	doc[i] = f(doc[i].(gen.JObj))
	return doc
}

func evField(name string, v func(t *rapid.T, old gen.J) gen.J) func(t *rapid.T, m *gen.WireMsg) gen.JArr {
	return func(t *rapid.T, m *gen.WireMsg) gen.JArr {
		return withEvent(m, func(o gen.JObj) gen.J {
			i := gen.ObjGet(o, name)
			return gen.ObjSet(o, name, v(t, o[i].V))
		})
	}
}

func filField(name string, v func(t *rapid.T) gen.J) func(t *rapid.T, m *gen.WireMsg) gen.JArr {
	return func(t *rapid.T, m *gen.WireMsg) gen.JArr {
		return withFilter(t, m, func(o gen.JObj) gen.J { return gen.ObjSet(o, name, v(t)) })
	}
}

func constJ(v gen.J) func(t *rapid.T, old gen.J) gen.J {
	return func(*rapid.T, gen.J) gen.J { return v }
}

func badHexList(kind string) func(t *rapid.T) gen.J {
	return func(t *rapid.T) gen.J {
		good := rapid.StringMatching("[0-9a-f]{64}").Draw(t, "goodhex")
		var bad gen.J
		switch kind {
		case "short":
			bad = gen.JStr(good[:63])
		case "long":
			bad = gen.JStr(good + "0")
		case "upper":
			bad = gen.JStr(upperOneHex(t, good))
		case "nonhex":
			bad = gen.JStr("g" + good[1:])
		case "number":
			bad = gen.JRaw("5")
		case "empty":
			bad = gen.JStr("")
		}
		if rapid.Bool().Draw(t, "badfirst") {
			return gen.JArr{bad, gen.JStr(good)}
		}
		return gen.JArr{gen.JStr(good), bad}
	}
}

var c11Corruptions = func() []corruption {
	cs := []corruption{
		{"label-unknown", anyMsg, func(t *rapid.T, m *gen.WireMsg) gen.JArr {
			doc := append(gen.JArr(nil), m.Doc...)
			doc[0] = gen.JStr(rapid.SampledFrom([]string{"EVENTS", "event", "", "NOTICE", "OK", "EOSE", "REQ ", " REQ", "CLOSED"}).Draw(t, "badlabel"))
			return doc
		}},
		{"label-not-string", anyMsg, func(t *rapid.T, m *gen.WireMsg) gen.JArr {
			doc := append(gen.JArr(nil), m.Doc...)
			doc[0] = rapid.SampledFrom([]gen.J{gen.JRaw("1"), gen.JRaw("null"), gen.JArr{gen.JStr(m.Label)}, gen.JRaw("true")}).Draw(t, "badlabel")
			return doc
		}},
		{"arity-extra", anyMsg, func(t *rapid.T, m *gen.WireMsg) gen.JArr {
			return append(append(gen.JArr(nil), m.Doc...), gen.JStr("extra"))
		}},
		{"arity-missing", anyMsg, func(t *rapid.T, m *gen.WireMsg) gen.JArr {
			if isFil(m) {
				return append(gen.JArr(nil), m.Doc[:2]...)
			}
			return append(gen.JArr(nil), m.Doc[:len(m.Doc)-1]...)
		}},
		{"arity-label-only", anyMsg, func(t *rapid.T, m *gen.WireMsg) gen.JArr { return gen.JArr{m.Doc[0]} }},
		{"subid-not-string", func(m *gen.WireMsg) bool { return isFil(m) || m.Label == "CLOSE" }, func(t *rapid.T, m *gen.WireMsg) gen.JArr {
			doc := append(gen.JArr(nil), m.Doc...)
			doc[1] = rapid.SampledFrom([]gen.J{gen.JRaw("1"), gen.JRaw("null"), gen.JArr{}, gen.JObj{}}).Draw(t, "badsub")
			return doc
		}},
		// events
		{"event-not-object", isEv, func(t *rapid.T, m *gen.WireMsg) gen.JArr {
			doc := append(gen.JArr(nil), m.Doc...)
			doc[m.EventIdx] = rapid.SampledFrom([]gen.J{gen.JStr("x"), gen.JArr{}, gen.JRaw("1"), gen.JRaw("true")}).Draw(t, "badev")
			return doc
		}},
		{"event-member-missing", isEv, func(t *rapid.T, m *gen.WireMsg) gen.JArr {
			k := rapid.SampledFrom([]string{"id", "pubkey", "created_at", "kind", "tags", "content", "sig"}).Draw(t, "drop")
			return withEvent(m, func(o gen.JObj) gen.J { return gen.ObjDel(o, k) })
		}},
		{"event-member-extra", isEv, func(t *rapid.T, m *gen.WireMsg) gen.JArr {
			k := rapid.SampledFrom([]string{"foo", "ID", "Id", "", "kinds"}).Draw(t, "extra")
			return withEvent(m, func(o gen.JObj) gen.J { return append(append(gen.JObj(nil), o...), gen.JField{K: k, V: gen.JRaw("1")}) })
		}},
		{"event-member-renamed", isEv, func(t *rapid.T, m *gen.WireMsg) gen.JArr {
			k := rapid.SampledFrom([]string{"id", "pubkey", "created_at", "kind", "tags", "content", "sig"}).Draw(t, "ren")
			return withEvent(m, func(o gen.JObj) gen.J {
				out := append(gen.JObj(nil), o...)
				i := gen.ObjGet(out, k)
				out[i] = gen.JField{K: strings.ToUpper(k), V: out[i].V}
				return out
			})
		}},
	}
	for _, f := range []string{"id", "pubkey", "sig"} {
		f := f
		cs = append(cs,
			corruption{"event-" + f + "-short", isEv, evField(f, func(t *rapid.T, old gen.J) gen.J { s := string(old.(gen.JStr)); return gen.JStr(s[:len(s)-1]) })},
			corruption{"event-" + f + "-long", isEv, evField(f, func(t *rapid.T, old gen.J) gen.J { return gen.JStr(string(old.(gen.JStr)) + "0") })},
			corruption{"event-" + f + "-upper", isEv, evField(f, func(t *rapid.T, old gen.J) gen.J { return gen.JStr(upperOneHex(t, string(old.(gen.JStr)))) })},
			corruption{"event-" + f + "-nonhex", isEv, evField(f, func(t *rapid.T, old gen.J) gen.J { s := string(old.(gen.JStr)); return gen.JStr(s[:len(s)-1] + "z") })},
			corruption{"event-" + f + "-empty", isEv, evField(f, constJ(gen.JStr("")))},
			corruption{"event-" + f + "-number", isEv, evField(f, constJ(gen.JRaw("12")))},
			corruption{"event-" + f + "-null", isEv, evField(f, constJ(gen.JRaw("null")))},
		)
	}
	cs = append(cs,
		corruption{"event-kind-negative", isEv, evField("kind", func(t *rapid.T, old gen.J) gen.J {
			return gen.JInt(rapid.SampledFrom([]int64{-1, -5, -65535, -1 << 40}).Draw(t, "k"))
		})},
		corruption{"event-kind-too-large", isEv, evField("kind", func(t *rapid.T, old gen.J) gen.J {
			return gen.JInt(rapid.SampledFrom([]int64{65536, 70000, 100000, 1 << 40}).Draw(t, "k"))
		})},
		corruption{"event-kind-string", isEv, evField("kind", constJ(gen.JStr("1")))},
		corruption{"event-kind-float", isEv, evField("kind", constJ(gen.JRaw("1.5")))},
		corruption{"event-kind-null", isEv, evField("kind", constJ(gen.JRaw("null")))},
		corruption{"event-created_at-string", isEv, evField("created_at", constJ(gen.JStr("1700000000")))},
		corruption{"event-created_at-float", isEv, evField("created_at", constJ(gen.JRaw("1700000000.5")))},
		corruption{"event-created_at-bool", isEv, evField("created_at", constJ(gen.JRaw("true")))},
		corruption{"event-content-number", isEv, evField("content", constJ(gen.JRaw("0")))},
		corruption{"event-content-array", isEv, evField("content", constJ(gen.JArr{gen.JStr("x")}))},
		corruption{"event-tags-object", isEv, evField("tags", constJ(gen.JObj{}))},
		corruption{"event-tags-string", isEv, evField("tags", constJ(gen.JStr("[]")))},
		corruption{"event-tags-member-string", isEv, evField("tags", constJ(gen.JArr{gen.JStr("e")}))},
		corruption{"event-tag-element-number", isEv, evField("tags", constJ(gen.JArr{gen.JArr{gen.JStr("e"), gen.JRaw("1")}}))},
		corruption{"event-tag-element-null", isEv, evField("tags", constJ(gen.JArr{gen.JArr{gen.JStr("e"), gen.JRaw("null")}}))},
		// filters
		corruption{"filter-not-object", isFil, func(t *rapid.T, m *gen.WireMsg) gen.JArr {
			doc := append(gen.JArr(nil), m.Doc...)
			i := rapid.SampledFrom(m.FilterIdxs).Draw(t, "whichfilter")
			doc[i] = rapid.SampledFrom([]gen.J{gen.JStr("x"), gen.JArr{}, gen.JRaw("1"), gen.JRaw("false")}).Draw(t, "badfilter")
			return doc
		}},
		corruption{"filter-tag-name-not-single-letter", isFil, func(t *rapid.T, m *gen.WireMsg) gen.JArr {
			k := rapid.SampledFrom([]string{"#ab", "#1", "#", "##", "#é", "#_", "#eE"}).Draw(t, "key")
			return withFilter(t, m, func(o gen.JObj) gen.J { return append(append(gen.JObj(nil), o...), gen.JField{K: k, V: gen.JArr{}}) })
		}},
	)
	cs = append(cs, corruption{"filter-member-unknown", isFil, func(t *rapid.T, m *gen.WireMsg) gen.JArr {
		k := rapid.SampledFrom([]string{"foo", "IDS", "Ids", "search", "", "e", "kind"}).Draw(t, "key")
		return withFilter(t, m, func(o gen.JObj) gen.J { return append(append(gen.JObj(nil), o...), gen.JField{K: k, V: gen.JArr{}}) })
	}})
	for _, f := range []string{"ids", "authors", "#e", "#p"} {
		for _, kind := range []string{"short", "long", "upper", "nonhex", "number", "empty"} {
			cs = append(cs, corruption{"filter-" + f + "-" + kind, isFil, filField(f, badHexList(kind))})
		}
		cs = append(cs, corruption{"filter-" + f + "-not-array", isFil, filField(f, func(t *rapid.T) gen.J {
			return gen.JStr(rapid.StringMatching("[0-9a-f]{64}").Draw(t, "h"))
		})})
	}
	cs = append(cs,
		corruption{"filter-kinds-negative", isFil, filField("kinds", func(t *rapid.T) gen.J {
			return gen.JArr{gen.JInt(1), gen.JInt(rapid.SampledFrom([]int64{-1, -5, -70000}).Draw(t, "k"))}
		})},
		corruption{"filter-kinds-too-large", isFil, filField("kinds", func(t *rapid.T) gen.J {
			return gen.JArr{gen.JInt(rapid.SampledFrom([]int64{65536, 70000, 1 << 33}).Draw(t, "k")), gen.JInt(1)}
		})},
		corruption{"filter-kinds-string", isFil, filField("kinds", func(t *rapid.T) gen.J { return gen.JArr{gen.JStr("1")} })},
		corruption{"filter-kinds-float", isFil, filField("kinds", func(t *rapid.T) gen.J { return gen.JArr{gen.JRaw("1.5")} })},
		corruption{"filter-kinds-not-array", isFil, filField("kinds", func(t *rapid.T) gen.J { return gen.JInt(1) })},
		corruption{"filter-tag-value-number", isFil, filField("#t", func(t *rapid.T) gen.J { return gen.JArr{gen.JStr("x"), gen.JRaw("1")} })},
		corruption{"filter-tag-not-array", isFil, filField("#t", func(t *rapid.T) gen.J { return gen.JStr("x") })},
		corruption{"filter-tag-object", isFil, filField("#t", func(t *rapid.T) gen.J { return gen.JObj{} })},
		corruption{"filter-a-two-parts", isFil, filField("#a", func(t *rapid.T) gen.J {
			return gen.JArr{gen.JStr("30000:" + rapid.StringMatching("[0-9a-f]{64}").Draw(t, "pk"))}
		})},
		corruption{"filter-a-one-part", isFil, filField("#a", func(t *rapid.T) gen.J { return gen.JArr{gen.JStr("30000")} })},
		corruption{"filter-a-kind-not-number", isFil, filField("#a", func(t *rapid.T) gen.J {
			return gen.JArr{gen.JStr("x:" + rapid.StringMatching("[0-9a-f]{64}").Draw(t, "pk") + ":d")}
		})},
		corruption{"filter-a-kind-out-of-range", isFil, filField("#a", func(t *rapid.T) gen.J {
			k := rapid.SampledFrom([]string{"70000", "-1", "65536"}).Draw(t, "k")
			return gen.JArr{gen.JStr(k + ":" + rapid.StringMatching("[0-9a-f]{64}").Draw(t, "pk") + ":d")}
		})},
		corruption{"filter-a-pubkey-bad", isFil, filField("#a", func(t *rapid.T) gen.J {
			pk := rapid.StringMatching("[0-9a-f]{64}").Draw(t, "pk")
			bad := rapid.SampledFrom([]string{pk[:63], pk + "0", upperOneHexNoDraw(pk), "abc"}).Draw(t, "badpk")
			return gen.JArr{gen.JStr("30000:" + bad + ":d")}
		})},
	)
	for _, f := range []string{"since", "until", "limit"} {
		f := f
		cs = append(cs,
			corruption{"filter-" + f + "-negative", isFil, filField(f, func(t *rapid.T) gen.J {
				return gen.JInt(rapid.SampledFrom([]int64{-1, -1700000000}).Draw(t, "neg"))
			})},
			corruption{"filter-" + f + "-string", isFil, filField(f, func(t *rapid.T) gen.J { return gen.JStr("10") })},
			corruption{"filter-" + f + "-float", isFil, filField(f, func(t *rapid.T) gen.J { return gen.JRaw("10.5") })},
			corruption{"filter-" + f + "-array", isFil, filField(f, func(t *rapid.T) gen.J { return gen.JArr{gen.JInt(1)} })},
		)
	}
	return cs
}()

func upperOneHexNoDraw(s string) string {
	for i := 0; i < len(s); i++ {
		if s[i] >= 'a' && s[i] <= 'f' {
			return s[:i] + strings.ToUpper(s[i:i+1]) + s[i+1:]
		}
	}
	return "A" + s[1:]
}

// fix-ups: a corruption that sets since/until on a filter must not be masked by
// the since<=until rule: drop the sibling bound so that only the intended
// corruption can be the reason for rejection.
func c11Apply(t *rapid.T, c corruption, m *gen.WireMsg) gen.JArr {
	return c.apply(t, m)
}

func TestC11Corruptions(t *testing.T) {
	col := ev.For("C11").SetRule(c11Rule)
	rapid.Check(t, func(t *rapid.T) {
		m := gen.WireClientMsg(t, "", false)
		var app []corruption
		for _, c := range c11Corruptions {
			if c.applies(m) {
				app = append(app, c)
			}
		}
		ci := rapid.IntRange(0, len(app)-1).Draw(t, "corruption")
		c := app[ci]
		doc := c11Apply(t, c, m)
		ws := rapid.IntRange(0, 3).Draw(t, "wsmode") == 0
		text := gen.Render(doc, &gen.RenderOpts{T: t, Whitespace: ws})
		col.Label("corruption:" + c.name)
		got, ok, _ := admitted(text)
		if ok && !c11MustReject(c.name) {
			// structural corruption (label, arity, sub id type, null, extra member): the
			// statement only demands that whatever is accepted is sound
			col.Label("structural-accepted:" + c.name)
			if okS, whyS := gen.StrictClientMsg(got); !okS {
				hx.Fail(t, ev.Failure{Property: "C11", Signature: "accepted-unsound", Clause: "no message judged valid breaks the NIP-01 constraints",
					Case: map[string]any{"text": text, "corruption": c.name}, Observed: whyS + ": " + hx.JSON(got), Expected: "sound"})
			}
		} else if ok {
			sig := "corruption-accepted:" + corruptionFamily(c.name)
			hx.Fail(t, ev.Failure{Property: "C11", Signature: sig, Clause: "a single-point corruption (" + c.name + ") must be rejected by parse or validity",
				Case: map[string]any{"text": text, "corruption": c.name}, Observed: "accepted as " + hx.JSON(got), Expected: "parse error or judged invalid"})
		}
		inside := strings.HasPrefix(c.name, "event-") || strings.HasPrefix(c.name, "filter-")
		col.Case(inside, text, func() any { return map[string]any{"corruption": c.name, "text": text} })
	})
}

// c11MustReject: corruptions after which the message contains an event or
// filter that breaks one of the constraints the property lists, so accepting it
// is a violation of the converse. The remaining (structural) classes - unknown
// label, arity, sub id type, extra/unknown members, JSON null - are only
// required to yield a sound value if accepted; their rejection is demanded by
// C12, not by C11.
func c11MustReject(name string) bool {
	if strings.HasSuffix(name, "-null") {
		return false
	}
	switch name {
	case "label-unknown", "label-not-string", "arity-extra", "arity-missing", "arity-label-only", "subid-not-string",
		"event-not-object", "filter-not-object", "event-member-extra":
		return false
	}
	if name == "filter-member-unknown" {
		return false
	}
	return strings.HasPrefix(name, "event-") || strings.HasPrefix(name, "filter-")
}

func corruptionFamily(name string) string {
	switch {
	case strings.Contains(name, "kind"):
		return "kind-range"
	}
	return "other"
}

// TestC11Soundness: whatever is accepted must be sound, over a mixed stream of
// well-formed, corrupted and token-mutated texts.
func TestC11Soundness(t *testing.T) {
	col := ev.For("C11").SetRule(c11Rule)
	rapid.Check(t, func(t *rapid.T) {
		m := gen.WireClientMsg(t, "", false)
		doc := m.Doc
		mode := rapid.IntRange(0, 3).Draw(t, "mode")
		if mode >= 1 {
			var app []corruption
			for _, c := range c11Corruptions {
				if c.applies(m) {
					app = append(app, c)
				}
			}
			doc = app[rapid.IntRange(0, len(app)-1).Draw(t, "corruption")].apply(t, m)
		}
		text := gen.Render(doc, &gen.RenderOpts{T: t, Whitespace: rapid.Bool().Draw(t, "ws")})
		if mode >= 2 {
			text = gen.MutateText(t, text)
		}
		got, ok, _ := admitted(text)
		if ok {
			col.Label("soundness:accepted")
			if okS, whyS := gen.StrictClientMsg(got); !okS {
				hx.Fail(t, ev.Failure{Property: "C11", Signature: "accepted-unsound", Clause: "no message judged valid breaks the NIP-01 constraints",
					Case: map[string]any{"text": text}, Observed: whyS + ": " + hx.JSON(got), Expected: "sound"})
			}
		} else {
			col.Label("soundness:rejected")
		}
		col.Case(ok && mode >= 1, text, func() any { return map[string]any{"accepted_after_mutation": text} })
	})
}

// FuzzC11Admission: coverage-guided bytes with the soundness oracle inside.
func FuzzC11Admission(f *testing.F) {
	for _, s := range c10Hostile {
		f.Add([]byte(s))
	}
	f.Add([]byte(`["REQ","a",{"kinds":[1],"#a":["30000:` + strings.Repeat("0", 64) + `:x:y"],"since":1,"until":2,"limit":0}]`))
	f.Add([]byte(`["EVENT",{"id":"` + strings.Repeat("0", 64) + `","pubkey":"` + strings.Repeat("a", 64) + `","created_at":1,"kind":1,"tags":[["e","x"]],"content":"","sig":"` + strings.Repeat("b", 128) + `"}]`))
	f.Fuzz(func(t *testing.T, b []byte) {
		got, ok, _ := admitted(string(b))
		if !ok {
			return
		}
		if okS, why := gen.StrictClientMsg(got); !okS {
			t.Fatalf("C11 accepted-unsound: %s for %q", why, b)
		}
	})
}
