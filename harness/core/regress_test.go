package core

import (
	"bytes"
	"strings"
	"testing"

	"github.com/high-moctane/mocrelay"

	"verifharness/ev"
	"verifharness/gen"
	"verifharness/hx"
)

// Plain regression checks (no generator) for every confirmed finding; they run
// in every tier of their property. See /verif/known_findings.json.

func TestC01RegressHTMLEscape(t *testing.T) {
	for _, content := range []string{"<", ">", "&", " ", " ", "a<b>&c d"} {
		e := &mocrelay.Event{Kind: 1, CreatedAt: 1, Tags: []mocrelay.Tag{{"t", content}}, Content: content}
		gen.Sign(e, gen.Keys[0])
		got, _ := e.Serialize()
		if !bytes.Equal(got, gen.Canonical(e)) {
			hx.Fail(t, ev.Failure{Property: "C01", Signature: "serialize-canonical", Clause: "regression: Serialize() must not HTML-escape",
				Case: map[string]any{"content": content}, Observed: string(got), Expected: string(gen.Canonical(e))})
		}
		if ok, s := authentic(e); !ok {
			hx.Fail(t, ev.Failure{Property: "C01", Signature: "signed-not-authentic", Clause: "regression: signed event with " + content + " must be authentic",
				Case: map[string]any{"content": content}, Observed: s, Expected: "true"})
		}
	}
}

func TestC11RegressFixed(t *testing.T) {
	z := strings.Repeat("0", 64)
	mustAccept := []string{
		` ["CLOSE","a"]`, "\n\t[ \"CLOSE\" , \"a\" ]\r\n", `["CLOSE","a"]`,
		`["REQ","a",{"#a":["30000:` + z + `:a:b"]}]`, `["REQ","a",{"#a":["30000:` + z + `::"]}]`,
	}
	for _, s := range mustAccept {
		if _, ok, why := admitted(s); !ok {
			hx.Fail(t, ev.Failure{Property: "C11", Signature: "wellformed-rejected", Clause: "regression: well-formed message must be accepted",
				Case: map[string]any{"text": s}, Observed: why, Expected: "accepted"})
		}
	}
	ev1 := `{"id":"` + z + `","pubkey":"` + z + `","created_at":1,"kind":KIND,"tags":[],"content":"","sig":"` + z + z + `"}`
	mustReject := []string{
		`["REQ","a",{"kinds":[-1]}]`, `["REQ","a",{"kinds":[65536]}]`, `["COUNT","a",{"kinds":[1,70000]}]`,
		`["EVENT",` + strings.Replace(ev1, "KIND", "-1", 1) + `]`, `["EVENT",` + strings.Replace(ev1, "KIND", "65536", 1) + `]`,
		`["REQ","a",{"#a":["70000:` + z + `:d"]}]`,
	}
	for _, s := range mustReject {
		if _, ok, _ := admitted(s); ok {
			hx.Fail(t, ev.Failure{Property: "C11", Signature: "corruption-accepted:kind-range", Clause: "regression: out-of-range kind must be rejected",
				Case: map[string]any{"text": s}, Observed: "accepted", Expected: "rejected"})
		}
	}
}
