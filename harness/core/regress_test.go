package core

import (
	"bytes"
	"strings"
	"testing"

	"github.com/high-moctane/mocrelay"

	"verifharness/ev"
	"verifharness/gen"
	"verifharness/hx"
)

// Plain regression checks (no generator) for every confirmed finding; they run
// in every tier of their property. See /verif/known_findings.json.

func TestC01RegressHTMLEscape(t *testing.T) {
	for _, content := range []string{"<", ">", "&", " ", " ", "a<b>&c d"} {
		e := &mocrelay.Event{Kind: 1, CreatedAt: 1, Tags: []mocrelay.Tag{{"t", content}}, Content: content}
		gen.Sign(e, gen.Keys[0])
		got, _ := e.Serialize()
		if !bytes.Equal(got, gen.Canonical(e)) {
			hx.Fail(t, ev.Failure{Property: "C01", Signature: "serialize-canonical", Clause: "regression: Serialize() must not HTML-escape",
				Case: map[string]any{"content": content}, Observed: string(got), Expected: string(gen.Canonical(e))})
		}
		if ok, s := authentic(e); !ok {
			hx.Fail(t, ev.Failure{Property: "C01", Signature: "signed-not-authentic", Clause: "regression: signed event with " + content + " must be authentic",
				Case: map[string]any{"content": content}, Observed: s, Expected: "true"})
		}
	}
}

func TestC11RegressFixed(t *testing.T) {
	z := strings.Repeat("0", 64)
	mustAccept := []string{
		` ["CLOSE","a"]`, "\n\t[ \"CLOSE\" , \"a\" ]\r\n", `["CLOSE","a"]`,
		`["REQ","a",{"#a":["30000:` + z + `:a:b"]}]`, `["REQ","a",{"#a":["30000:` + z + `::"]}]`,
	}
	for _, s := range mustAccept {
		if _, ok, why := admitted(s); !ok {
			hx.Fail(t, ev.Failure{Property: "C11", Signature: "wellformed-rejected", Clause: "regression: well-formed message must be accepted",
				Case: map[string]any{"text": s}, Observed: why, Expected: "accepted"})
		}
	}
	ev1 := `{"id":"` + z + `","pubkey":"` + z + `","created_at":1,"kind":KIND,"tags":[],"content":"","sig":"` + z + z + `"}`
	mustReject := []string{
		`["REQ","a",{"kinds":[-1]}]`, `["REQ","a",{"kinds":[65536]}]`, `["COUNT","a",{"kinds":[1,70000]}]`,
		`["EVENT",` + strings.Replace(ev1, "KIND", "-1", 1) + `]`, `["EVENT",` + strings.Replace(ev1, "KIND", "65536", 1) + `]`,
		`["REQ","a",{"#a":["70000:` + z + `:d"]}]`,
	}
	for _, s := range mustReject {
		if _, ok, _ := admitted(s); ok {
			hx.Fail(t, ev.Failure{Property: "C11", Signature: "corruption-accepted:kind-range", Clause: "regression: out-of-range kind must be rejected",
				Case: map[string]any{"text": s}, Observed: "accepted", Expected: "rejected"})
		}
	}
}

func TestStoreRegressFixed(t *testing.T) {
	a, b := gen.Keys[0].Pub, gen.Keys[1].Pub
	mk := func(pk string, kind, ts int64, tags ...mocrelay.Tag) *mocrelay.Event {
		e := &mocrelay.Event{Pubkey: pk, Kind: kind, CreatedAt: ts, Tags: append([]mocrelay.Tag{}, tags...)}
		gen.Seal(e)
		return e
	}
	ids := func(c *mocrelay.EventCache) []string { return gen.SortedIDs(c.Find([]*mocrelay.ReqFilter{{}})) }
	if focusOn("C03") {
		c := mocrelay.NewEventCache(4)
		c.Add(mk(a, 1, 1))
		if _, p := safeFind(c, []*mocrelay.ReqFilter{{Tags: map[string][]string{}}}); p != nil {
			hx.Fail(t, ev.Failure{Property: "C03", Signature: "find-panic", Clause: "regression: Find with an empty non-nil Tags map must not panic", Observed: "panic"})
		}
	}
	if focusOn("C04") {
		c := mocrelay.NewEventCache(4)
		eph := mk(a, 20000, 5)
		if !c.Add(eph) || len(ids(c)) != 0 {
			hx.Fail(t, ev.Failure{Property: "C04", Signature: "ephemeral-stored", Clause: "regression: ephemeral events are reported new and never served from storage", Observed: "stored or rejected"})
		}
	}
	if focusOn("C05") {
		c := mocrelay.NewEventCache(4)
		x := mk(a, 30000, 5) // addressable without d tag, author a
		y := mk(b, 30001, 6) // another author, another kind, no d tag
		c.Add(x)
		c.Add(y)
		if got := ids(c); len(got) != 2 {
			hx.Fail(t, ev.Failure{Property: "C05", Signature: "foreign-event-removed", Clause: "regression: events of different authors must not share a slot", Observed: "one of them was displaced"})
		}
		c2 := mocrelay.NewEventCache(4)
		r := mk(a, 0, 5)
		c2.Add(r)
		k := mk(a, 5, 6, mocrelay.Tag{"e", r.ID})
		c2.Add(k)
		if got := ids(c2); len(got) != 1 || got[0] != k.ID {
			hx.Fail(t, ev.Failure{Property: "C05", Signature: "deletion-target-survives", Clause: "regression: e reference to a replaceable event must remove it", Observed: "still retained"})
		}
		if c2.Add(gen.CloneEvent(r)) {
			hx.Fail(t, ev.Failure{Property: "C05", Signature: "deleted-event-reinserted", Clause: "regression: deleted replaceable event must not be inserted again", Observed: "accepted"})
		}
	}
}
