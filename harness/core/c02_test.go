package core

import (
	"encoding/json"
	"fmt"
	"strings"
	"testing"

	"github.com/high-moctane/mocrelay"
	"pgregory.net/rapid"

	"verifharness/ev"
	"verifharness/gen"
	"verifharness/hx"
)

var c02TsBase int64 = 100

// c02Event draws an event with a rich tag shape over small pools.
func c02Event(t *rapid.T, label string, authors []string) *mocrelay.Event {
	e := &mocrelay.Event{}
	e.Pubkey = rapid.SampledFrom(authors).Draw(t, label+"pk")
	e.Kind = rapid.OneOf(rapid.SampledFrom([]int64{0, 1, 1, 5, 7, 10000, 20000, 30000}), rapid.SampledFrom([]int64{63, 64, 65, 127, 128, 255, 256, 1023, 1024, 65535})).Draw(t, label+"kind")
	e.CreatedAt = c02TsBase + rapid.Int64Range(0, 6).Draw(t, label+"ts")
	n := rapid.IntRange(0, 5).Draw(t, label+"ntags")
	e.Tags = []mocrelay.Tag{}
	for i := 0; i < n; i++ {
		name := rapid.SampledFrom([]string{"e", "p", "t", "t", "E", "q", "nonce", "d", "title", "emoji", "pp", "Ex", "qq"}).Draw(t, fmt.Sprintf("%stn%d", label, i))
		ne := rapid.IntRange(1, 3).Draw(t, fmt.Sprintf("%stl%d", label, i))
		tag := mocrelay.Tag{name}
		if ne >= 2 {
			tag = append(tag, rapid.SampledFrom([]string{"x", "y", "z", "w", "x,y", "y,"}).Draw(t, fmt.Sprintf("%stv%d", label, i)))
		}
		if ne >= 3 {
			tag = append(tag, rapid.SampledFrom([]string{"x", "third"}).Draw(t, fmt.Sprintf("%stw%d", label, i)))
		}
		e.Tags = append(e.Tags, tag)
	}
	e.Content = rapid.SampledFrom([]string{"", "a", "b"}).Draw(t, label+"content")
	gen.Seal(e)
	return e
}

func c02Pool(evs []*mocrelay.Event, authors []string) *gen.FilterPool {
	p := gen.PoolFromEvents(evs, authors)
	// also names of more than one letter: a filter value built by an operator (allow / deny
	// lists) may name any tag, the wire syntax only offers the single-letter ones
	for _, n := range []string{"e", "p", "t", "E", "q", "emoji", "title", "pp"} {
		p.TagVals[n] = []string{"x", "y", "z", "w", "x,y", "y,"}
	}
	p.TagNames = []string{"e", "p", "t", "E", "q", "emoji", "title", "pp"}
	p.AllowEmptyTagsMap = true
	p.MaxLimit = 4
	p.BigLimits = true
	return p
}

// presentConditions counts the present conditions of a filter and how many of
// them the event fails.
func c02Conditions(e *mocrelay.Event, f *mocrelay.ReqFilter) (present, failed int) {
	chk := func(g *mocrelay.ReqFilter) {
		present++
		if !gen.MatchFilter(e, g) {
			failed++
		}
	}
	if f.IDs != nil {
		chk(&mocrelay.ReqFilter{IDs: f.IDs})
	}
	if f.Authors != nil {
		chk(&mocrelay.ReqFilter{Authors: f.Authors})
	}
	if f.Kinds != nil {
		chk(&mocrelay.ReqFilter{Kinds: f.Kinds})
	}
	for k, v := range f.Tags {
		chk(&mocrelay.ReqFilter{Tags: map[string][]string{k: v}})
	}
	if f.Since != nil {
		chk(&mocrelay.ReqFilter{Since: f.Since})
	}
	if f.Until != nil {
		chk(&mocrelay.ReqFilter{Until: f.Until})
	}
	return
}

func TestC02Match(t *testing.T) {
	col := ev.For("C02").SetRule("cases = (4 generated events over small pools) x (1-3 generated filters), each pair checked against the naive NIP-01 predicate, plus the list matcher and a LimitMatch/Done sequence of 0-12 events against per-filter model counters; non-trivial = some (event, filter) pair where the filter has >=2 present conditions and the event fails at most one of them (the decision hinges on one condition), or Done() flips during the sequence; distinct by hash of the rendered case")
	authors := gen.Pubkeys(3)
	rapid.Check(t, func(t *rapid.T) {
		// timestamps around 100, or around 0 (boundary: since/until 0, negative created_at)
		// ... or around 2^53, where a detour through float64 loses the last bit
		c02TsBase = rapid.SampledFrom([]int64{100, 100, 100, -2, 0, 1<<53 - 3}).Draw(t, "tsbase")
		evs := make([]*mocrelay.Event, 4)
		for i := range evs {
			evs[i] = c02Event(t, fmt.Sprintf("e%d.", i), authors)
		}
		pool := c02Pool(evs, authors)
		fs := pool.DrawFilters(t, "fs.", 0, 3)
		// a later filter may carry the comma-joined form of an earlier filter's value list
		// (["x","y"] vs ["x,y"]): different conditions that must not be confused
		if len(fs) >= 2 && rapid.IntRange(0, 3).Draw(t, "joined") == 0 {
			src := fs[0]
			dst := fs[len(fs)-1]
			for name, vals := range src.Tags {
				if len(vals) >= 2 {
					if dst.Tags == nil {
						dst.Tags = map[string][]string{}
					}
					dst.Tags[name] = []string{strings.Join(vals, ",")}
					break
				}
			}
		}

		nontrivial := false
		// the filters as the matcher gets them: the values themselves, or (one case in three)
		// decoded from their JSON text as a client would send them; the oracle keeps the values
		real := fs
		wireable := true // only single-letter tag names can be written as "#x" members
		for _, f := range fs {
			for name := range f.Tags {
				if len(name) != 1 {
					wireable = false
				}
			}
		}
		if len(fs) > 0 && wireable && rapid.IntRange(0, 2).Draw(t, "viatext") == 0 {
			real = make([]*mocrelay.ReqFilter, len(fs))
			for i, f := range fs {
				var back mocrelay.ReqFilter
				if err := json.Unmarshal([]byte(gen.Render(gen.FilterDoc(f), nil)), &back); err != nil {
					real = fs // not a text the decoder takes: nothing claimed here
					break
				}
				real[i] = &back
			}
			if len(real) > 0 && real[0] != fs[0] {
				col.Label("filters:via-json-text")
			}
		}
		// pairs
		for fi, f := range fs {
			m := mocrelay.NewReqFilterMatcher(real[fi])
			for _, e := range evs {
				want := gen.MatchFilter(e, f)
				got := m.Match(e)
				present, failed := c02Conditions(e, f)
				if present >= 2 && failed <= 1 {
					nontrivial = true
				}
				if want {
					col.Label("pair:match")
				} else {
					col.Label("pair:nomatch")
				}
				if got != want {
					hx.Fail(t, ev.Failure{Property: "C02", Signature: "match-decision", Clause: "Match(e) equals the NIP-01 predicate",
						Case:     map[string]any{"event": gen.Brief(e), "filter": gen.BriefFilter(f)},
						Observed: fmt.Sprint(got), Expected: fmt.Sprint(want)})
				}
			}
		}
		// list matcher
		lm := mocrelay.NewReqFiltersEventLimitMatcher(real)
		for _, e := range evs {
			want := gen.MatchAny(e, fs)
			if got := lm.Match(e); got != want {
				hx.Fail(t, ev.Failure{Property: "C02", Signature: "list-match", Clause: "a filter list matches when any member matches",
					Case:     map[string]any{"event": gen.Brief(e), "filters": gen.BriefFilters(fs)},
					Observed: fmt.Sprint(got), Expected: fmt.Sprint(want)})
			}
		}
		// sequence
		seqN := rapid.IntRange(0, 12).Draw(t, "seqN")
		cnt := make([]int64, len(fs))
		modelDone := func() bool {
			for i, f := range fs {
				if f.Limit == nil || cnt[i] < *f.Limit {
					return false
				}
			}
			return true
		}
		lm2 := mocrelay.NewReqFiltersEventLimitMatcher(real)
		var seq []int
		prevDone := modelDone()
		if got := lm2.Done(); got != prevDone {
			hx.Fail(t, ev.Failure{Property: "C02", Signature: "done-initial", Clause: "Done() before any event",
				Case: map[string]any{"filters": gen.BriefFilters(fs)}, Observed: fmt.Sprint(got), Expected: fmt.Sprint(prevDone)})
		}
		for s := 0; s < seqN; s++ {
			idx := rapid.IntRange(0, len(evs)-1).Draw(t, fmt.Sprintf("seq%d", s))
			seq = append(seq, idx)
			e := evs[idx]
			want := false
			for i, f := range fs {
				if gen.MatchFilter(e, f) {
					cnt[i]++
					want = true
				}
			}
			got := lm2.LimitMatch(e)
			if got != want {
				hx.Fail(t, ev.Failure{Property: "C02", Signature: "limitmatch-return", Clause: "LimitMatch returns whether any filter matches",
					Case:     map[string]any{"events": briefAll(evs), "filters": gen.BriefFilters(fs), "sequence": seq},
					Observed: fmt.Sprint(got), Expected: fmt.Sprint(want)})
			}
			d := modelDone()
			if gotD := lm2.Done(); gotD != d {
				hx.Fail(t, ev.Failure{Property: "C02", Signature: "done", Clause: "Done() iff every filter has a limit and matched >= limit events",
					Case:     map[string]any{"events": briefAll(evs), "filters": gen.BriefFilters(fs), "sequence": seq, "counts": cnt},
					Observed: fmt.Sprint(gotD), Expected: fmt.Sprint(d)})
			}
			if d != prevDone {
				nontrivial = true
				col.Label("seq:done-flips")
			}
			prevDone = d
		}
		col.Case(nontrivial, hx.JSON([]any{briefAll(evs), gen.BriefFilters(fs), seq}), func() any {
			return map[string]any{"events": briefAll(evs), "filters": gen.BriefFilters(fs), "sequence": seq}
		})
	})
}

func briefAll(evs []*mocrelay.Event) []map[string]any {
	out := make([]map[string]any, len(evs))
	for i, e := range evs {
		out[i] = gen.Brief(e)
	}
	return out
}

// TestC02LimitSequences concentrates on the limit-counting form: every filter
// carries a small limit, the event stream is long enough to exhaust them.
func TestC02LimitSequences(t *testing.T) {
	col := ev.For("C02").SetRule("cases = (4 generated events over small pools) x (1-3 generated filters), each pair checked against the naive NIP-01 predicate, plus the list matcher and a LimitMatch/Done sequence of 0-12 events against per-filter model counters; non-trivial = some (event, filter) pair where the filter has >=2 present conditions and the event fails at most one of them (the decision hinges on one condition), or Done() flips during the sequence; distinct by hash of the rendered case")
	authors := gen.Pubkeys(2)
	rapid.Check(t, func(t *rapid.T) {
		c02TsBase = 100
		evs := make([]*mocrelay.Event, 5)
		for i := range evs {
			evs[i] = c02Event(t, fmt.Sprintf("e%d.", i), authors)
		}
		nf := rapid.IntRange(0, 3).Draw(t, "nf")
		fs := make([]*mocrelay.ReqFilter, nf)
		for i := range fs {
			f := &mocrelay.ReqFilter{}
			switch rapid.IntRange(0, 4).Draw(t, fmt.Sprintf("f%d.shape", i)) {
			case 0:
			case 1:
				f.Kinds = []int64{1}
			case 2:
				f.Authors = []string{rapid.SampledFrom(authors).Draw(t, fmt.Sprintf("f%d.a", i))}
			case 3:
				f.Tags = map[string][]string{"t": {"x", "y"}}
			case 4:
				f.IDs = []string{evs[rapid.IntRange(0, 4).Draw(t, fmt.Sprintf("f%d.id", i))].ID}
			}
			if rapid.IntRange(0, 5).Draw(t, fmt.Sprintf("f%d.lim?", i)) != 0 {
				f.Limit = gen.Ptr(int64(rapid.IntRange(0, 4).Draw(t, fmt.Sprintf("f%d.lim", i))))
			}
			fs[i] = f
		}
		lm := mocrelay.NewReqFiltersEventLimitMatcher(fs)
		cnt := make([]int64, len(fs))
		done := func() bool {
			for i, f := range fs {
				if f.Limit == nil || cnt[i] < *f.Limit {
					return false
				}
			}
			return true
		}
		var seq []int
		flips := 0
		prev := done()
		if lm.Done() != prev {
			hx.Fail(t, ev.Failure{Property: "C02", Signature: "done-initial", Clause: "Done() before any event", Case: map[string]any{"filters": gen.BriefFilters(fs)}, Observed: fmt.Sprint(!prev), Expected: fmt.Sprint(prev)})
		}
		n := rapid.IntRange(1, 16).Draw(t, "n")
		for s := 0; s < n; s++ {
			idx := rapid.IntRange(0, len(evs)-1).Draw(t, fmt.Sprintf("s%d", s))
			seq = append(seq, idx)
			want := false
			for i, f := range fs {
				if gen.MatchFilter(evs[idx], f) {
					cnt[i]++
					want = true
				}
			}
			// Match (without counting) must keep answering by the predicate, whatever the counters say
			if rapid.Bool().Draw(t, fmt.Sprintf("s%d.alsoMatch", s)) {
				if got := lm.Match(evs[idx]); got != want {
					hx.Fail(t, ev.Failure{Property: "C02", Signature: "list-match", Clause: "a filter list matches when any member matches (independently of the limit counters)",
						Case: map[string]any{"events": briefAll(evs), "filters": gen.BriefFilters(fs), "sequence": seq}, Observed: fmt.Sprint(got), Expected: fmt.Sprint(want)})
				}
			}
			if got := lm.LimitMatch(evs[idx]); got != want {
				hx.Fail(t, ev.Failure{Property: "C02", Signature: "limitmatch-return", Clause: "LimitMatch returns whether any filter matches",
					Case: map[string]any{"events": briefAll(evs), "filters": gen.BriefFilters(fs), "sequence": seq}, Observed: fmt.Sprint(got), Expected: fmt.Sprint(want)})
			}
			d := done()
			if got := lm.Done(); got != d {
				hx.Fail(t, ev.Failure{Property: "C02", Signature: "done", Clause: "Done() iff every filter has a limit and matched >= limit events",
					Case: map[string]any{"events": briefAll(evs), "filters": gen.BriefFilters(fs), "sequence": seq, "counts": cnt}, Observed: fmt.Sprint(got), Expected: fmt.Sprint(d)})
			}
			if d != prev {
				flips++
				col.Label("seq:done-flips")
			}
			prev = d
		}
		col.Case(flips > 0, hx.JSON([]any{briefAll(evs), gen.BriefFilters(fs), seq}), func() any {
			return map[string]any{"events": briefAll(evs), "filters": gen.BriefFilters(fs), "sequence": seq}
		})
	})
}

// TestC02WideFilters: filters with many #x conditions (up to all 52 single-letter names).
// An event that carries every named tag matches; one that misses a single one of them
// (any position in the sorted order of names) does not.
func TestC02WideFilters(t *testing.T) {
	col := ev.For("C02").SetRule("wide: a filter with k in 1..52 single-letter tag conditions (k boosted around 31-34 and 52), an event carrying all named tags and copies of it that lack one tag or carry another value for it; Match, the list matcher and LimitMatch must agree with the naive predicate; non-trivial = k >= 2; distinct by hash of names and the dropped positions")
	letters := strings.Split("abcdefghijklmnopqrstuvwxyzABCDEFGHIJKLMNOPQRSTUVWXYZ", "")
	rapid.Check(t, func(t *rapid.T) {
		k := rapid.OneOf(rapid.SampledFrom([]int{31, 32, 33, 34, 52, 52, 40, 8}), rapid.IntRange(1, 52)).Draw(t, "k")
		names := rapid.Permutation(letters).Draw(t, "names")[:k]
		f := &mocrelay.ReqFilter{Tags: map[string][]string{}}
		full := &mocrelay.Event{Pubkey: gen.Keys[0].Pub, Kind: 1, CreatedAt: 100, Tags: []mocrelay.Tag{}}
		for i, n := range names {
			vals := []string{"x"}
			if i%3 == 1 {
				vals = []string{"y", "x"}
			}
			f.Tags[n] = vals
			full.Tags = append(full.Tags, mocrelay.Tag{n, "x"})
		}
		if rapid.Bool().Draw(t, "kinds") {
			f.Kinds = []int64{1}
		}
		gen.Seal(full)
		evs := []*mocrelay.Event{full}
		var dropped []int
		for j, nd := 0, rapid.IntRange(1, 4).Draw(t, "nvariants"); j < nd; j++ {
			pos := rapid.IntRange(0, k-1).Draw(t, fmt.Sprintf("drop%d", j))
			x := gen.CloneEvent(full)
			if rapid.Bool().Draw(t, fmt.Sprintf("drop%dhow", j)) {
				x.Tags = append(append([]mocrelay.Tag{}, x.Tags[:pos]...), x.Tags[pos+1:]...)
			} else {
				x.Tags[pos] = mocrelay.Tag{x.Tags[pos][0], "other"}
			}
			gen.Seal(x)
			evs = append(evs, x)
			dropped = append(dropped, pos)
		}
		desc := map[string]any{"conditions": k, "names": strings.Join(names, ""), "variants_lack_position": dropped}
		m := mocrelay.NewReqFilterMatcher(f)
		lm := mocrelay.NewReqFiltersEventLimitMatcher([]*mocrelay.ReqFilter{f})
		for i, e := range evs {
			want := gen.MatchFilter(e, f)
			if got := m.Match(e); got != want {
				hx.Fail(t, ev.Failure{Property: "C02", Signature: "match-decision", Clause: "Match(e) equals the NIP-01 predicate: every present #x condition must be met (filter with many tag conditions)",
					Case: map[string]any{"case": desc, "event_variant": i, "event": gen.Brief(e)}, Observed: fmt.Sprint(got), Expected: fmt.Sprint(want)})
			}
			if got := lm.LimitMatch(e); got != want {
				hx.Fail(t, ev.Failure{Property: "C02", Signature: "limitmatch-return", Clause: "LimitMatch returns whether any filter matches (filter with many tag conditions)",
					Case: map[string]any{"case": desc, "event_variant": i}, Observed: fmt.Sprint(got), Expected: fmt.Sprint(want)})
			}
		}
		if lm.Done() {
			hx.Fail(t, ev.Failure{Property: "C02", Signature: "done", Clause: "Done() iff every filter has a limit and matched >= limit events", Case: desc, Observed: "true", Expected: "false (no limit)"})
		}
		col.Label("filters:wide")
		col.Case(k >= 2, hx.JSON(desc), func() any { return desc })
	})
}
