package core

import (
	"bytes"
	"encoding/json"
	"fmt"
	"os"
	"strings"
	"testing"
	"unicode/utf8"

	"github.com/high-moctane/mocrelay"
	"pgregory.net/rapid"

	"verifharness/ev"
	"verifharness/gen"
	"verifharness/hx"
)

func c01Event(t *rapid.T) (*mocrelay.Event, gen.Key) {
	e := &mocrelay.Event{}
	key := gen.Keys[rapid.IntRange(0, gen.NKeys-1).Draw(t, "key")]
	e.Kind = gen.AnyKind().Draw(t, "kind")
	e.CreatedAt = rapid.OneOf(
		rapid.Int64Range(0, 1<<40),
		rapid.SampledFrom([]int64{0, 1, -1, -1700000000, 1700000000, 1<<31 - 1, 1 << 31, 1 << 32, 1<<53 + 1, 1<<62 + 3}),
	).Draw(t, "created_at")
	nt := rapid.IntRange(0, 6).Draw(t, "ntags")
	e.Tags = []mocrelay.Tag{}
	for i := 0; i < nt; i++ {
		ne := rapid.IntRange(0, 4).Draw(t, fmt.Sprintf("t%dn", i)) // a tag without elements is a tag shape too
		tag := mocrelay.Tag{}
		for j := 0; j < ne; j++ {
			var s string
			if j == 0 {
				s = rapid.OneOf(rapid.SampledFrom([]string{"e", "p", "d", "t", "a", "nonce"}), gen.UnicodeString(4)).Draw(t, fmt.Sprintf("t%d.%d", i, j))
				if s == "" {
					s = "x"
				}
			} else {
				s = gen.UnicodeString(10).Draw(t, fmt.Sprintf("t%d.%d", i, j))
			}
			tag = append(tag, s)
		}
		e.Tags = append(e.Tags, tag)
	}
	e.Content = gen.UnicodeString(40).Draw(t, "content")
	if rapid.IntRange(0, 11).Draw(t, "long?") == 0 {
		// a long run of one unit: characters that need no escaping (base64 blob, long CJK line),
		// 4-byte characters, or characters with 2- and 6-byte escapes; a short ASCII prefix
		// shifts the run, so that every alignment to a 4096-byte block or window occurs
		unit := rapid.SampledFrom([]string{"QUJD", "漢字", "x", "😀", "\n", "\"", "\\", "\x01", "é", "😀\n"}).Draw(t, "longunit")
		long := strings.Repeat("s", rapid.IntRange(0, 7).Draw(t, "longshift")) + strings.Repeat(unit, rapid.IntRange(2000, 9000).Draw(t, "longlen"))
		if rapid.Bool().Draw(t, "longintag") {
			e.Tags = append(e.Tags, mocrelay.Tag{"imeta", long})
		} else {
			e.Content += long
		}
	}
	gen.Sign(e, key)
	switch rapid.IntRange(0, 39).Draw(t, "mine00") {
	case 0, 1, 2, 3:
		// search (deterministically) for a variant whose id ends in a zero byte
		base := e.Content
		for i := 0; i < 5000; i++ {
			e.Content = base + fmt.Sprint(i)
			if strings.HasSuffix(gen.ComputeID(e), "00") {
				break
			}
		}
		gen.Sign(e, key)
	case 4:
		// ... or whose signature does
		base := e.Content
		for i := 0; i < 1200; i++ {
			e.Content = base + fmt.Sprint(i)
			gen.Sign(e, key)
			if strings.HasSuffix(e.Sig, "00") {
				break
			}
		}
	}
	return e, key
}

func c01CharClasses(e *mocrelay.Event) (labels []string, nontrivial bool) {
	seen := map[string]bool{}
	scan := func(s string) {
		for _, r := range s {
			switch {
			case r == '<' || r == '>' || r == '&':
				seen["html"] = true
			case r == 0x2028 || r == 0x2029:
				seen["linesep"] = true
			case r == '"' || r == '\\':
				seen["quote-backslash"] = true
			case r < 0x20:
				seen["c0"] = true
			case r == 0x7f:
				seen["del"] = true
			case r >= 0x10000:
				seen["astral"] = true
			case r >= 0x80:
				seen["bmp-nonascii"] = true
			}
			if r < 0x20 || r > 0x7e {
				nontrivial = true
			}
		}
	}
	scan(e.Content)
	for _, tg := range e.Tags {
		for _, s := range tg {
			scan(s)
		}
	}
	for k := range seen {
		labels = append(labels, "chars:"+k)
	}
	return
}

func authentic(e *mocrelay.Event) (bool, string) {
	ok, err := e.Verify()
	if err != nil {
		return false, "error: " + err.Error()
	}
	return ok, fmt.Sprint(ok)
}

func flipHexDigit(s string, pos int, bit uint) string {
	const hexd = "0123456789abcdef"
	c := s[pos]
	v := strings.IndexByte(hexd, c)
	v ^= 1 << bit
	return s[:pos] + string(hexd[v]) + s[pos+1:]
}

// mutateString returns a string different from s (valid UTF-8).
func mutateString(t *rapid.T, label, s string) string {
	rs := []rune(s)
	mode := rapid.IntRange(0, 2).Draw(t, label+"mode")
	if len(rs) == 0 {
		mode = 1
	}
	switch mode {
	case 0: // substitute
		i := rapid.IntRange(0, len(rs)-1).Draw(t, label+"pos")
		r := gen.Rune().Draw(t, label+"r")
		if r == rs[i] {
			r = rs[i] + 1
			if r >= 0xd800 && r <= 0xdfff {
				r = 0xe000
			}
			if r > 0x10ffff {
				r = 'a'
			}
		}
		rs[i] = r
	case 1: // insert
		i := rapid.IntRange(0, len(rs)).Draw(t, label+"pos")
		r := gen.Rune().Draw(t, label+"r")
		rs = append(rs[:i], append([]rune{r}, rs[i:]...)...)
	case 2: // delete
		i := rapid.IntRange(0, len(rs)-1).Draw(t, label+"pos")
		rs = append(rs[:i], rs[i+1:]...)
	}
	out := string(rs)
	if out == s {
		out = s + "x"
	}
	return out
}

func TestC01Authenticity(t *testing.T) {
	col := ev.For("C01").SetRule("cases = generated events (6 fixed real secp256k1 keys, kinds 0..65535, created_at incl. 0/negative/2^40, 0-6 tags of 1-4 elements, content and tag values over all Unicode scalar values with a boosted class of escape-sensitive characters), signed with an independent NIP-01 serializer + btcec; each case checks Serialize()==canonical bytes, Verify()==true, and that every one of ~14 single alterations (6 signed fields with stale id, same with recomputed id, id digit, sig bit, foreign sig, pubkey swap) is NOT authentic; non-trivial = content or a tag value contains a character outside printable ASCII; distinct by event id")
	col.Assume("btcec/v2/schnorr is a correct BIP-340 implementation (used to sign in the oracle)")
	col.Assume("strings are valid UTF-8 (what the wire decoder can produce)")
	rapid.Check(t, func(t *rapid.T) {
		e, key := c01Event(t)
		labels, nontrivial := c01CharClasses(e)
		for _, l := range labels {
			col.Label(l)
		}
		caseJSON := func() any {
			return map[string]any{"pubkey": e.Pubkey, "created_at": e.CreatedAt, "kind": e.Kind, "tags": e.Tags, "content": e.Content, "id": e.ID}
		}
		// (a) serialization
		got, err := e.Serialize()
		want := gen.Canonical(e)
		if err != nil || !bytes.Equal(got, want) {
			hx.Fail(t, ev.Failure{Property: "C01", Signature: "serialize-canonical", Clause: "Serialize() is the NIP-01 canonical form (only the mandated escapes, everything else verbatim)",
				Case: caseJSON(), Observed: fmt.Sprintf("%q err=%v", got, err), Expected: fmt.Sprintf("%q", want)})
		}
		// (b) correctly signed => authentic
		if ok, s := authentic(e); !ok {
			hx.Fail(t, ev.Failure{Property: "C01", Signature: "signed-not-authentic", Clause: "every correctly signed event is reported authentic",
				Case: caseJSON(), Observed: s, Expected: "true"})
		}
		// (c) alterations
		type alt struct {
			name string
			ev   *mocrelay.Event
		}
		var alts []alt
		add := func(name string, f func(x *mocrelay.Event)) {
			x := gen.CloneEvent(e)
			f(x)
			alts = append(alts, alt{name + "/stale-id", x})
			y := gen.CloneEvent(x)
			y.ID = gen.ComputeID(y)
			if y.ID != e.ID {
				alts = append(alts, alt{name + "/fresh-id", y})
			}
		}
		newContent := mutateString(t, "ac.", e.Content)
		add("content", func(x *mocrelay.Event) { x.Content = newContent })
		add("kind", func(x *mocrelay.Event) {
			if x.Kind == 0 {
				x.Kind = 1
			} else {
				x.Kind += int64(rapid.SampledFrom([]int{-1, 1}).Draw(t, "akind"))
			}
		})
		add("created_at", func(x *mocrelay.Event) { x.CreatedAt += int64(rapid.SampledFrom([]int{-1, 1, 1000}).Draw(t, "ats")) })
		other := gen.Keys[(indexOfKey(key)+1+rapid.IntRange(0, gen.NKeys-2).Draw(t, "aother"))%gen.NKeys]
		add("pubkey", func(x *mocrelay.Event) { x.Pubkey = other.Pub })
		add("tag-added", func(x *mocrelay.Event) {
			pos := rapid.IntRange(0, len(x.Tags)).Draw(t, "atagpos")
			nt := mocrelay.Tag{"t", gen.UnicodeString(3).Draw(t, "atagval")}
			x.Tags = append(x.Tags[:pos:pos], append([]mocrelay.Tag{nt}, x.Tags[pos:]...)...)
		})
		if len(e.Tags) > 0 {
			ti := rapid.IntRange(0, len(e.Tags)-1).Draw(t, "ati")
			add("tag-removed", func(x *mocrelay.Event) { x.Tags = append(x.Tags[:ti:ti], x.Tags[ti+1:]...) })
			if len(e.Tags[ti]) > 0 {
				ei := rapid.IntRange(0, len(e.Tags[ti])-1).Draw(t, "aei")
				nv := mutateString(t, "ae.", e.Tags[ti][ei])
				add("tag-element", func(x *mocrelay.Event) { x.Tags[ti][ei] = nv })
			}
			add("tag-element-appended", func(x *mocrelay.Event) { x.Tags[ti] = append(x.Tags[ti], "") })
			if len(e.Tags) > 1 {
				tj := (ti + 1) % len(e.Tags)
				if hx.JSON(e.Tags[ti]) != hx.JSON(e.Tags[tj]) {
					add("tag-reordered", func(x *mocrelay.Event) { x.Tags[ti], x.Tags[tj] = x.Tags[tj], x.Tags[ti] })
				}
			}
		}
		{
			x := gen.CloneEvent(e)
			x.ID = flipHexDigit(x.ID, rapid.IntRange(0, 63).Draw(t, "aidpos"), uint(rapid.IntRange(0, 3).Draw(t, "aidbit")))
			alts = append(alts, alt{"id-digit", x})
			y := gen.CloneEvent(e)
			y.Sig = flipHexDigit(y.Sig, rapid.IntRange(0, 127).Draw(t, "asigpos"), uint(rapid.IntRange(0, 3).Draw(t, "asigbit")))
			alts = append(alts, alt{"sig-bit", y})
			// signature of another event by the same key
			z := gen.CloneEvent(e)
			o := gen.CloneEvent(e)
			o.Content = newContent
			gen.Sign(o, key)
			z.Sig = o.Sig
			alts = append(alts, alt{"sig-of-other-event", z})
			// same signed fields signed by another key but claiming the original pubkey
			w := gen.CloneEvent(e)
			gen.Sign(w, other)
			w.Pubkey = e.Pubkey
			w.ID = e.ID
			alts = append(alts, alt{"sig-by-other-key", w})
		}
		// values no verifier may accept: a pubkey that is no curve point (the id recomputed, so
		// that the signature check is what must fail), r >= p, s >= n, a digit that is not hex
		{
			x := gen.CloneEvent(e)
			x.Pubkey = rapid.SampledFrom(gen.OffCurvePubkeys).Draw(t, "aoff")
			x.ID = gen.ComputeID(x)
			alts = append(alts, alt{"pubkey-off-curve", x})
			y := gen.CloneEvent(e)
			y.Sig = gen.FieldPrimeHex + y.Sig[64:]
			alts = append(alts, alt{"sig-r-out-of-range", y})
			z := gen.CloneEvent(e)
			z.Sig = z.Sig[:64] + gen.GroupOrderHex
			alts = append(alts, alt{"sig-s-out-of-range", z})
			w := gen.CloneEvent(e)
			pos := rapid.IntRange(0, 63).Draw(t, "anonhexpos")
			switch rapid.IntRange(0, 2).Draw(t, "anonhexfield") {
			case 0:
				w.ID = w.ID[:pos] + "g" + w.ID[pos+1:]
			case 1:
				w.Pubkey = w.Pubkey[:pos] + "g" + w.Pubkey[pos+1:]
			default:
				w.Sig = w.Sig[:pos] + "g" + w.Sig[pos+1:]
			}
			alts = append(alts, alt{"digit-not-hex", w})
		}
		// shortened / lengthened id and sig (also when the cut-off byte is 00)
		for _, f := range []string{"id", "sig"} {
			get := func(x *mocrelay.Event) *string {
				if f == "id" {
					return &x.ID
				}
				return &x.Sig
			}
			x := gen.CloneEvent(e)
			*get(x) = (*get(x))[:len(*get(x))-2]
			alts = append(alts, alt{f + "-truncated", x})
			y := gen.CloneEvent(e)
			*get(y) = *get(y) + "00"
			alts = append(alts, alt{f + "-extended", y})
		}
		// (d) the same through the JSON path (the admission gate judges the parsed event):
		// the signed event written as text by the harness's own writer must parse to the
		// signed fields and be authentic; an altered one must not become authentic by parsing
		wire := func(x *mocrelay.Event, label string) (*mocrelay.Event, string, error) {
			text := gen.Render(gen.WireEventDoc(t, x, label), &gen.RenderOpts{T: t, EscapeVar: rapid.IntRange(0, 3).Draw(t, label+"esc") == 0})
			var back mocrelay.Event
			err := json.Unmarshal([]byte(text), &back)
			return &back, text, err
		}
		back, text, werr := wire(e, "w.")
		if werr != nil {
			hx.Fail(t, ev.Failure{Property: "C01", Signature: "signed-not-authentic-wire", Clause: "every correctly signed event is reported authentic (received as JSON text)",
				Case: map[string]any{"text": text}, Observed: "decode error: " + werr.Error(), Expected: "true"})
		}
		if ok, sv := authentic(back); !ok || hx.JSON(gen.Norm(back)) != hx.JSON(gen.Norm(e)) {
			hx.Fail(t, ev.Failure{Property: "C01", Signature: "signed-not-authentic-wire", Clause: "every correctly signed event is reported authentic (received as JSON text), and what is judged is what was signed",
				Case: map[string]any{"text": text}, Observed: sv + " parsed=" + hx.JSON(back), Expected: "true, parsed fields equal to the signed ones"})
		}
		col.Label("path:json-text")
		// a null slipped into the tags (as a tag, or as a tag element) changes what was signed
		if len(e.Tags) > 0 || rapid.Bool().Draw(t, "wnull.empty") {
			doc := gen.WireEventDoc(t, e, "wnull.")
			for i := range doc {
				if doc[i].K != "tags" {
					continue
				}
				arr := append(gen.JArr{}, doc[i].V.(gen.JArr)...)
				pos := rapid.IntRange(0, len(arr)).Draw(t, "wnull.pos")
				if pos < len(arr) && rapid.Bool().Draw(t, "wnull.inner") {
					tg := append(gen.JArr{}, arr[pos].(gen.JArr)...)
					ip := rapid.IntRange(0, len(tg)).Draw(t, "wnull.ipos")
					arr[pos] = append(tg[:ip:ip], append(gen.JArr{gen.JRaw("null")}, tg[ip:]...)...)
				} else {
					arr = append(arr[:pos:pos], append(gen.JArr{gen.JRaw("null")}, arr[pos:]...)...)
				}
				doc[i].V = arr
			}
			ntext := gen.Render(doc, nil)
			var nb mocrelay.Event
			if err := json.Unmarshal([]byte(ntext), &nb); err == nil {
				if ok, _ := authentic(&nb); ok {
					hx.Fail(t, ev.Failure{Property: "C01", Signature: "altered-authentic-wire", Clause: "an altered event received as JSON text is not authentic (null inserted into the tags)",
						Case: map[string]any{"original": caseJSON(), "text": ntext}, Observed: "true", Expected: "false or error"})
				}
			}
			col.Label("alteration:tags-null-inserted")
		}
		for i, a := range alts {
			col.Label("alteration:" + strings.SplitN(a.name, "/", 2)[0])
			if i == len(alts)-1 || i%4 == 0 {
				if b, txt, err := wire(a.ev, fmt.Sprintf("wa%d.", i)); err == nil {
					if ok, _ := authentic(b); ok {
						hx.Fail(t, ev.Failure{Property: "C01", Signature: "altered-authentic-wire", Clause: "an altered event received as JSON text is not authentic (" + a.name + ")",
							Case: map[string]any{"original": caseJSON(), "alteration": a.name, "text": txt}, Observed: "true", Expected: "false or error"})
					}
				}
			}
			if ok, _ := authentic(a.ev); ok {
				hx.Fail(t, ev.Failure{Property: "C01", Signature: "altered-authentic", Clause: "changing a signed field, the id, the pubkey or the signature makes the event not authentic (" + a.name + ")",
					Case: map[string]any{"original": caseJSON(), "alteration": a.name, "altered": a.ev}, Observed: "true", Expected: "false or error"})
			}
		}
		col.Add("alterations", int64(len(alts)))
		col.Case(nontrivial, e.ID, caseJSON)
	})
}

func indexOfKey(k gen.Key) int {
	for i, x := range gen.Keys {
		if x.Pub == k.Pub {
			return i
		}
	}
	return 0
}

// FuzzC01Serialize: coverage-guided search over content / tag value strings
// with the same oracle ((a) canonical bytes, (b) signed => authentic).
func FuzzC01Serialize(f *testing.F) {
	for _, s := range []string{"", "hello", "<>&", "  ", "\x00\x1f\x7f", "\"\\/", "😀", "�", "a\nb\tc\rd\be\ff"} {
		f.Add(s, s, int64(1), int64(1700000000))
	}
	f.Fuzz(func(t *testing.T, content, tagval string, kind, ts int64) {
		if !utf8.ValidString(content) || !utf8.ValidString(tagval) {
			t.Skip()
		}
		if kind < 0 {
			kind = -kind
		}
		kind %= 65536
		e := &mocrelay.Event{Kind: kind, CreatedAt: ts, Tags: []mocrelay.Tag{{"t", tagval}}, Content: content}
		gen.Sign(e, gen.Keys[0])
		got, err := e.Serialize()
		if want := gen.Canonical(e); err != nil || !bytes.Equal(got, want) {
			t.Fatalf("C01 serialize-canonical: got %q want %q err %v", got, want, err)
		}
		if ok, s := authentic(e); !ok {
			t.Fatalf("C01 signed-not-authentic: %s for content %q tag %q", s, content, tagval)
		}
	})
}

// TestC01ReferenceAgainstRealEvents validates the harness's own NIP-01
// serializer against genuinely signed events shipped with the repository
// (ids produced by real clients), and the code's Verify against them.
func TestC01ReferenceAgainstRealEvents(t *testing.T) {
	col := ev.For("C01")
	files := []string{hx.RepoDir() + "/testdata/events_valid.jsonl", hx.RepoDir() + "/testdata/clienteventmsgs_valid.jsonl", hx.RepoDir() + "/testdata/servereventmsgs_valid.jsonl"}
	n := 0
	for _, fn := range files {
		b, err := os.ReadFile(fn)
		if err != nil {
			continue
		}
		for _, line := range strings.Split(string(b), "\n") {
			i := strings.Index(line, `{"id"`)
			if i < 0 {
				continue
			}
			j := strings.LastIndex(line, "}")
			var e mocrelay.Event
			if err := json.Unmarshal([]byte(line[i:j+1]), &e); err != nil {
				continue
			}
			realID := gen.ComputeID(&e) == e.ID
			ok, _ := authentic(&e)
			if realID != ok && realID {
				hx.Fail(t, ev.Failure{Property: "C01", Signature: "signed-not-authentic", Clause: "a real-world signed event from the repository's corpus is authentic", Case: e, Observed: fmt.Sprint(ok), Expected: "true"})
			}
			if realID {
				n++
				col.Case(false, e.ID, nil)
			}
		}
	}
	col.Add("real_world_events_with_matching_reference_id", int64(n))
}

// TestC01ManyAuthors: authenticity does not depend on what was verified before. More than a
// thousand distinct authors are verified in one process (whatever a verifier remembers about
// keys has been filled and recycled), with unverifiable pubkeys in between; afterwards an event
// that claims one pubkey and is signed by another key is still not authentic, for every
// signing key seen, and genuine events of early and late authors still are.
func TestC01ManyAuthors(t *testing.T) {
	col := ev.For("C01").SetRule("many-authors: 1030-2100 derived keys; one event per key verified (authentic), forged events claiming an off-curve pubkey or an early author's pubkey but signed by each of the other keys (not authentic), genuine events of early authors again (authentic); non-trivial = always; distinct by the drawn sizes")
	rapid.Check(t, func(t *rapid.T) {
		n := rapid.SampledFrom([]int{1030, 1100, 2100}).Draw(t, "authors")
		offAt := rapid.IntRange(0, 40).Draw(t, "unverifiable_first_seen_at")
		off := rapid.SampledFrom(gen.OffCurvePubkeys).Draw(t, "off_curve")
		desc := map[string]any{"authors": n, "off_curve_pubkey": off, "unverifiable_first_seen_at": offAt}
		keys := make([]gen.Key, n)
		for i := range keys {
			keys[i] = gen.DerivedKey(i)
		}
		mk := func(i int, claim string, signer gen.Key) *mocrelay.Event {
			e := &mocrelay.Event{Pubkey: claim, Kind: 1, CreatedAt: int64(1700000000 + i), Tags: []mocrelay.Tag{}, Content: fmt.Sprint("many authors ", i)}
			gen.SignIDWith(e, signer)
			return e
		}
		expect := func(e *mocrelay.Event, want bool, what string) {
			ok, _ := authentic(e)
			if ok != want {
				sig, clause := "altered-authentic", "an event whose signature is not valid under the pubkey it claims is not authentic"
				if want {
					sig, clause = "signed-not-authentic", "every correctly signed event is reported authentic"
				}
				desc["failing"] = what
				hx.Fail(t, ev.Failure{Property: "C01", Signature: sig, Clause: clause + " (after many distinct authors were verified)", Case: desc, Observed: fmt.Sprint(ok), Expected: fmt.Sprint(want)})
			}
		}
		for i, k := range keys {
			if i == offAt {
				expect(mk(i, off, k), false, fmt.Sprintf("first sight of the off-curve pubkey, signed by author %d", i))
			}
			expect(mk(i, k.Pub, k), true, fmt.Sprintf("genuine event of author %d", i))
		}
		for j, k := range keys {
			expect(mk(100000+j, off, k), false, fmt.Sprintf("claims the off-curve pubkey, signed by author %d", j))
			if j != 0 {
				expect(mk(200000+j, keys[0].Pub, k), false, fmt.Sprintf("claims author 0, signed by author %d", j))
			}
		}
		for _, i := range []int{0, 1, offAt, n / 2, n - 1} {
			expect(mk(300000+i, keys[i].Pub, keys[i]), true, fmt.Sprintf("genuine event of author %d, again", i))
		}
		col.Label("scale:many-authors")
		col.Case(true, hx.JSON(desc), func() any { return desc })
	})
}
