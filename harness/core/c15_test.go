package core

import (
	"context"
	"fmt"
	"runtime"
	"sort"
	"strings"
	"sync"
	"sync/atomic"
	"testing"
	"time"

	"github.com/anishathalye/porcupine"
	"github.com/high-moctane/mocrelay"
	"pgregory.net/rapid"

	"verifharness/ev"
	"verifharness/gen"
	"verifharness/hx"
	"verifharness/model"
)

const c15Rule = "cases = (lin) generated concurrent programs on one EventCache (or through concurrent CacheHandler sessions): 2-6 goroutines x 3-12 barrier-started rounds of Add (related events: versions of one address, deletion requests and their targets, capacity pressure, re-offers), Find with 1-3 filters, Find([{}]) and Len; every call is bracketed by logical timestamps and the history is checked for linearizability with porcupine against the deterministic store model (distinct timestamps => the sequential specification is a function); (stress) generated writer/reader templates looped 200-600 times with fresh events: every Find result must satisfy the atomicity invariants (<= capacity, one version per address, no event together with a retained same-author deletion request that references it); both also run under the race detector; non-trivial = history in which >=2 operations overlap in time incl. an (Add, Find) pair / a stress run whose readers saw >=2 different versions of an address; distinct by hash of the program"

type c15Op struct {
	Kind  string                `json:"op"` // add find len
	Event *mocrelay.Event       `json:"-"`
	EvB   any                   `json:"event,omitempty"`
	Fs    []*mocrelay.ReqFilter `json:"-"`
	FsB   any                   `json:"filters,omitempty"`
}

type c15Out struct {
	Flag bool
	IDs  []string
	N    int
}

type c15State struct {
	key string // sorted ids joined
	ids []string
}

func c15Model(capacity int, events map[string]*mocrelay.Event) porcupine.Model {
	listing := func(st c15State) *model.DetStore {
		s := model.NewDetStore(capacity)
		for _, id := range st.ids {
			s.Items = append(s.Items, events[id])
		}
		return s
	}
	mk := func(s *model.DetStore) c15State {
		ids := gen.SortedIDs(s.Items)
		return c15State{key: strings.Join(ids, ","), ids: ids}
	}
	return porcupine.Model{
		Init: func() interface{} { return c15State{} },
		Step: func(state, input, output interface{}) (bool, interface{}) {
			st, in, out := state.(c15State), input.(c15Op), output.(c15Out)
			s := listing(st)
			switch in.Kind {
			case "add":
				flag := s.Add(in.Event)
				return flag == out.Flag, mk(s)
			case "find":
				want, _ := model.ExactAnswer(s.Listing(), in.Fs)
				if len(want) != len(out.IDs) {
					return false, st
				}
				for i, e := range want {
					if e.ID != out.IDs[i] {
						return false, st
					}
				}
				return true, st
			case "len":
				return len(st.ids) == out.N, st
			}
			return false, st
		},
		Equal: func(a, b interface{}) bool { return a.(c15State).key == b.(c15State).key },
		DescribeOperation: func(input, output interface{}) string {
			in, out := input.(c15Op), output.(c15Out)
			switch in.Kind {
			case "add":
				return fmt.Sprintf("Add(%s kind %d ts %d) -> %v", gen.Short(in.Event.ID), in.Event.Kind, in.Event.CreatedAt, out.Flag)
			case "find":
				return fmt.Sprintf("Find(%s) -> %v", hx.JSON(in.FsB), gen.ShortAll(out.IDs))
			}
			return fmt.Sprintf("Len() -> %d", out.N)
		},
		DescribeState: func(state interface{}) string { return fmt.Sprint(gen.ShortAll(state.(c15State).ids)) },
	}
}

// invariantsOf checks the atomicity invariants on one query result.
func invariantsOf(r []*mocrelay.Event, capacity int) string {
	if len(r) > capacity {
		return fmt.Sprintf("query shows %d events, capacity %d", len(r), capacity)
	}
	addr := map[gen.AddrKey]*mocrelay.Event{}
	for _, e := range r {
		if k, ok, hasD := gen.AddrOf(e); ok && hasD {
			if o := addr[k]; o != nil {
				return fmt.Sprintf("query shows two versions of one address: %s (ts %d) and %s (ts %d)", gen.Short(o.ID), o.CreatedAt, gen.Short(e.ID), e.CreatedAt)
			}
			addr[k] = e
		}
	}
	for _, k := range r {
		if k.Kind != 5 {
			continue
		}
		for _, x := range r {
			if model.Refs(k, x) {
				return fmt.Sprintf("query shows event %s together with retained deletion request %s of its author that references it", gen.Short(x.ID), gen.Short(k.ID))
			}
		}
	}
	return ""
}

type cacheAPI interface {
	add(e *mocrelay.Event) bool
	find(fs []*mocrelay.ReqFilter) []*mocrelay.Event
}

type directCache struct{ c *mocrelay.EventCache }

func (d directCache) add(e *mocrelay.Event) bool                      { return d.c.Add(e) }
func (d directCache) find(fs []*mocrelay.ReqFilter) []*mocrelay.Event { return d.c.Find(fs) }

// sessionCache drives one CacheHandler session synchronously.
type sessionCache struct {
	recv chan mocrelay.ClientMsg
	send chan mocrelay.ServerMsg
}

func newSessionCache(h mocrelay.Handler) (*sessionCache, context.CancelFunc) {
	ctx, cancel := context.WithCancel(context.Background())
	s := &sessionCache{recv: make(chan mocrelay.ClientMsg), send: make(chan mocrelay.ServerMsg)}
	go h.ServeNostr(ctx, s.send, s.recv)
	return s, cancel
}

func (s *sessionCache) add(e *mocrelay.Event) bool {
	s.recv <- &mocrelay.ClientEventMsg{Event: e}
	for {
		if ok, is := (<-s.send).(*mocrelay.ServerOKMsg); is {
			return ok.Accepted
		}
	}
}

func (s *sessionCache) find(fs []*mocrelay.ReqFilter) []*mocrelay.Event {
	s.recv <- &mocrelay.ClientReqMsg{SubscriptionID: "q", ReqFilters: fs}
	var out []*mocrelay.Event
	for {
		switch m := (<-s.send).(type) {
		case *mocrelay.ServerEventMsg:
			out = append(out, m.Event)
		case *mocrelay.ServerEOSEMsg:
			return out
		}
	}
}

func TestC15Linearizable(t *testing.T) {
	col := ev.For("C15").SetRule(c15Rule)
	col.Assume("interleavings come from the Go scheduler (barrier-started rounds, runtime.Gosched between calls), not from a controlled scheduler; the race detector covers missing synchronisation")
	rapid.Check(t, func(t *rapid.T) {
		capacity := rapid.IntRange(1, 6).Draw(t, "cap")
		ng := rapid.IntRange(2, 6).Draw(t, "goroutines")
		rounds := rapid.IntRange(3, 12).Draw(t, "rounds")
		viaHandler := rapid.IntRange(0, 2).Draw(t, "via_handler") == 0
		world := &gen.World{Authors: gen.Pubkeys(2)}
		cfg := &gen.StoreCfg{World: world, TsBase: 1000, TsSpan: 1 << 20, UniqueTs: true, NoNoD: true, NoOpenRefs: true}
		events := map[string]*mocrelay.Event{}
		// program[round][goroutine] = op
		program := make([][]c15Op, rounds)
		for r := range program {
			// a hot object per round: operations of the round concentrate on it
			var hot *mocrelay.Event
			for g := 0; g < ng; g++ {
				lab := fmt.Sprintf("r%d.g%d.", r, g)
				var op c15Op
				switch k := rapid.IntRange(0, 11).Draw(t, lab+"op"); {
				case k < 6:
					var e *mocrelay.Event
					mode := rapid.IntRange(0, 5).Draw(t, lab+"mode")
					switch {
					case hot == nil || mode == 0:
						e = cfg.DrawEvent(t)
						hot = e
					case mode <= 2:
						if _, ok, _ := gen.AddrOf(hot); ok {
							e = cfg.DrawVersionOf(t, hot, lab)
						} else {
							e = cfg.DrawEvent(t)
						}
					case mode == 3:
						// deletion request targeting the hot event
						e = &mocrelay.Event{Pubkey: hot.Pubkey, Kind: 5, Tags: []mocrelay.Tag{{"e", hot.ID}}}
						tmp := cfg.DrawVersionOf(t, &mocrelay.Event{Pubkey: hot.Pubkey, Kind: 1, Tags: []mocrelay.Tag{}}, lab+"k5ts.")
						world.Events = world.Events[:len(world.Events)-1]
						e.CreatedAt = tmp.CreatedAt
						gen.Seal(e)
						world.Events = append(world.Events, e)
					case mode == 4:
						e = hot // the same event offered concurrently / again
					default:
						e = rapid.SampledFrom(world.Events).Draw(t, lab+"reoffer")
					}
					events[e.ID] = e
					op = c15Op{Kind: "add", Event: e, EvB: gen.Brief(e)}
				case k < 10:
					pool := gen.PoolFromEvents(world.Events, world.Authors)
					pool.MaxLimit = 3
					fs := pool.DrawFilters(t, lab, 1, 3)
					if rapid.IntRange(0, 3).Draw(t, lab+"all") == 0 {
						fs = []*mocrelay.ReqFilter{{}}
					}
					op = c15Op{Kind: "find", Fs: fs, FsB: gen.BriefFilters(fs)}
				default:
					op = c15Op{Kind: "len"}
				}
				program[r] = append(program[r], op)
			}
		}
		desc := map[string]any{"cap": capacity, "goroutines": ng, "via_handler": viaHandler, "program": program}

		cache := mocrelay.NewEventCache(capacity)
		handler := mocrelay.NewCacheHandler(capacity)
		apis := make([]cacheAPI, ng)
		for g := range apis {
			if viaHandler {
				s, cancel := newSessionCache(handler)
				defer cancel()
				apis[g] = s
			} else {
				apis[g] = directCache{cache}
			}
		}
		var clock atomic.Int64
		var mu sync.Mutex
		var history []porcupine.Operation
		var invFail string
		overlap := false
		for r := 0; r < rounds; r++ {
			start := make(chan struct{})
			var wg sync.WaitGroup
			type span struct {
				call, ret int64
				kind      string
			}
			spans := make([]span, ng)
			for g := 0; g < ng; g++ {
				wg.Add(1)
				go func(g int) {
					defer wg.Done()
					op := program[r][g]
					if op.Kind == "len" && viaHandler {
						return
					}
					<-start
					if g%2 == 1 {
						runtime.Gosched()
					}
					var out c15Out
					call := clock.Add(1)
					switch op.Kind {
					case "add":
						// every goroutine offers its own copy: the cache keeps the pointer
						out.Flag = apis[g].add(gen.CloneEvent(op.Event))
					case "find":
						res := apis[g].find(op.Fs)
						for _, e := range res {
							out.IDs = append(out.IDs, e.ID)
						}
						if why := invariantsOf(res, capacity); why != "" {
							mu.Lock()
							invFail = why
							mu.Unlock()
						}
					case "len":
						out.N = cache.Len()
					}
					ret := clock.Add(1)
					spans[g] = span{call, ret, op.Kind}
					mu.Lock()
					history = append(history, porcupine.Operation{ClientId: g, Input: op, Call: call, Output: out, Return: ret})
					mu.Unlock()
				}(g)
			}
			close(start)
			wg.Wait()
			for a := 0; a < ng; a++ {
				for b := 0; b < ng; b++ {
					if a != b && spans[a].kind == "add" && spans[b].kind == "find" && spans[a].call < spans[b].ret && spans[b].call < spans[a].ret {
						overlap = true
					}
				}
			}
		}
		if invFail != "" {
			hx.Fail(t, ev.Failure{Property: "C15", Signature: "atomicity-invariant", Clause: "no query ever shows more than capacity events, two versions of one address, or an event together with a retained deletion request that references it", Case: desc, Observed: invFail})
		}
		res, info := porcupine.CheckOperationsVerbose(c15Model(capacity, events), history, 20*time.Second)
		if res == porcupine.Illegal {
			var lines []string
			sort.Slice(history, func(i, j int) bool { return history[i].Call < history[j].Call })
			m := c15Model(capacity, events)
			for _, o := range history {
				lines = append(lines, fmt.Sprintf("[%d,%d] g%d %s", o.Call, o.Return, o.ClientId, m.DescribeOperation(o.Input, o.Output)))
			}
			_ = info
			hx.Fail(t, ev.Failure{Property: "C15", Signature: "not-linearizable", Clause: "every result is one that some sequential ordering of the operations consistent with real time could have produced",
				Case: map[string]any{"cap": capacity, "via_handler": viaHandler, "history": lines}, Observed: "no linearization exists", Expected: "linearizable"})
		}
		if res == porcupine.Unknown {
			col.Exclude("porcupine-timeout")
		}
		col.Add("operations", int64(len(history)))
		if viaHandler {
			col.Label("api:handler-sessions")
		} else {
			col.Label("api:direct")
		}
		col.Case(overlap, hx.JSON(desc), func() any {
			return map[string]any{"cap": capacity, "goroutines": ng, "rounds": rounds, "via_handler": viaHandler, "operations": len(history)}
		})
	})
}

// TestC15Stress: generated writer/reader templates looped many times; readers
// check the atomicity invariants on every result.
func TestC15Stress(t *testing.T) {
	col := ev.For("C15").SetRule(c15Rule)
	rapid.Check(t, func(t *rapid.T) {
		capacity := rapid.IntRange(2, 12).Draw(t, "cap")
		nw := rapid.IntRange(1, 3).Draw(t, "writers")
		nr := rapid.IntRange(1, 4).Draw(t, "readers")
		iters := rapid.IntRange(200, 600).Draw(t, "iterations")
		authors := gen.Pubkeys(2)
		type wtemplate struct {
			Kind   string `json:"kind"` // versions | publish-delete | churn
			Author int    `json:"author"`
			K      int64  `json:"k"`
		}
		wt := make([]wtemplate, nw)
		for i := range wt {
			wt[i] = wtemplate{Kind: rapid.SampledFrom([]string{"versions", "versions", "publish-delete", "publish-delete", "churn"}).Draw(t, fmt.Sprintf("w%d.kind", i)),
				Author: rapid.IntRange(0, 1).Draw(t, fmt.Sprintf("w%d.author", i)), K: rapid.SampledFrom([]int64{0, 10000, 30000}).Draw(t, fmt.Sprintf("w%d.k", i))}
		}
		rt := make([][]*mocrelay.ReqFilter, nr)
		for i := range rt {
			switch rapid.IntRange(0, 3).Draw(t, fmt.Sprintf("r%d.shape", i)) {
			case 0:
				rt[i] = []*mocrelay.ReqFilter{{}}
			case 1:
				rt[i] = []*mocrelay.ReqFilter{{Authors: authors[:1]}, {Kinds: []int64{0, 10000, 30000}}, {Authors: authors[1:]}}
			case 2:
				rt[i] = []*mocrelay.ReqFilter{{Kinds: []int64{1}}, {Kinds: []int64{5}}}
			default:
				rt[i] = []*mocrelay.ReqFilter{{Kinds: []int64{0, 10000, 30000}, Limit: gen.Ptr(int64(5))}, {Kinds: []int64{1, 5}}, {}}
			}
		}
		desc := map[string]any{"cap": capacity, "writers": wt, "readers": len(rt), "iterations": iters}
		cache := mocrelay.NewEventCache(capacity)
		var ts atomic.Int64
		ts.Store(1000)
		var stop atomic.Bool
		var failMu sync.Mutex
		var failure string
		var versionsSeen atomic.Int64
		var wg sync.WaitGroup
		for wi, w := range wt {
			wg.Add(1)
			go func(wi int, w wtemplate) {
				defer wg.Done()
				pk := authors[w.Author]
				for i := 0; i < iters && !stop.Load(); i++ {
					switch w.Kind {
					case "versions":
						e := &mocrelay.Event{Pubkey: pk, Kind: w.K, CreatedAt: ts.Add(1), Tags: []mocrelay.Tag{{"d", "x"}}, Content: fmt.Sprint(i)}
						gen.Seal(e)
						cache.Add(e)
					case "publish-delete":
						e := &mocrelay.Event{Pubkey: pk, Kind: 1, CreatedAt: ts.Add(1), Tags: []mocrelay.Tag{}, Content: fmt.Sprintf("w%d-%d", wi, i)}
						gen.Seal(e)
						k := &mocrelay.Event{Pubkey: pk, Kind: 5, CreatedAt: ts.Add(1), Tags: []mocrelay.Tag{{"e", e.ID}}}
						gen.Seal(k)
						var inner sync.WaitGroup
						inner.Add(2)
						go func() { defer inner.Done(); cache.Add(e) }()
						go func() { defer inner.Done(); cache.Add(k) }()
						inner.Wait()
					case "churn":
						e := &mocrelay.Event{Pubkey: pk, Kind: 1, CreatedAt: ts.Add(1), Tags: []mocrelay.Tag{{"t", "x"}}, Content: fmt.Sprintf("c%d-%d", wi, i)}
						gen.Seal(e)
						cache.Add(e)
					}
				}
			}(wi, w)
		}
		var rwg sync.WaitGroup
		for ri := range rt {
			rwg.Add(1)
			go func(ri int) {
				defer rwg.Done()
				lastVersion := map[gen.AddrKey]string{}
				for !stop.Load() {
					res := cache.Find(rt[ri])
					if why := invariantsOf(res, capacity); why != "" {
						failMu.Lock()
						failure = why
						failMu.Unlock()
						stop.Store(true)
						return
					}
					for _, e := range res {
						if k, ok, _ := gen.AddrOf(e); ok {
							if lastVersion[k] != "" && lastVersion[k] != e.ID {
								versionsSeen.Add(1)
							}
							lastVersion[k] = e.ID
						}
					}
					if n := cache.Len(); n > capacity {
						failMu.Lock()
						failure = fmt.Sprintf("Len() = %d exceeds capacity %d", n, capacity)
						failMu.Unlock()
						stop.Store(true)
						return
					}
				}
			}(ri)
		}
		wg.Wait()
		stop.Store(true)
		rwg.Wait()
		if failure != "" {
			hx.Fail(t, ev.Failure{Property: "C15", Signature: "atomicity-invariant", Clause: "no query ever shows more than capacity events, two versions of one address, or an event together with a retained deletion request of the same author that references it", Case: desc, Observed: failure})
		}
		// quiescent: the final state must satisfy the invariants too
		if why := invariantsOf(cache.Find([]*mocrelay.ReqFilter{{}}), capacity); why != "" {
			hx.Fail(t, ev.Failure{Property: "C15", Signature: "atomicity-invariant", Clause: "after the concurrent phase the store satisfies the invariants", Case: desc, Observed: why})
		}
		col.Label("mode:stress")
		col.Add("stress_iterations", int64(iters*nw))
		col.Case(versionsSeen.Load() >= 1, hx.JSON(desc), func() any { return desc })
	})
}

// TestC15ReadYourWrites: one writer of fresh regular events (increasing
// created_at, no other writers) checks after every Add that a timeline query
// started afterwards shows that event as the newest one, while reader goroutines
// keep issuing timeline and index queries. Real-time order => the Add precedes
// the query in every linearization.
func TestC15ReadYourWrites(t *testing.T) {
	col := ev.For("C15").SetRule(c15Rule)
	rapid.Check(t, func(t *rapid.T) {
		capacity := rapid.IntRange(3, 300).Draw(t, "cap")
		nr := rapid.IntRange(1, 6).Draw(t, "readers")
		iters := rapid.IntRange(300, 1500).Draw(t, "iterations")
		viaHandler := rapid.Bool().Draw(t, "via_handler")
		desc := map[string]any{"cap": capacity, "readers": nr, "iterations": iters, "via_handler": viaHandler, "mode": "read-your-writes"}
		cache := mocrelay.NewEventCache(capacity)
		handler := mocrelay.NewCacheHandler(capacity)
		mk := func() (cacheAPI, func()) {
			if viaHandler {
				s, cancel := newSessionCache(handler)
				return s, cancel
			}
			return directCache{cache}, func() {}
		}
		var stop atomic.Bool
		var wg sync.WaitGroup
		readerFilters := [][]*mocrelay.ReqFilter{{{}}, {{Limit: gen.Ptr(int64(3))}}, {{Until: gen.Ptr(int64(1 << 40))}}, {{Kinds: []int64{1}, Limit: gen.Ptr(int64(2))}}, {{Limit: gen.Ptr(int64(1))}}, {{Since: gen.Ptr(int64(5))}}}
		var failMu sync.Mutex
		failure := ""
		for r := 0; r < nr; r++ {
			wg.Add(1)
			go func(r int) {
				defer wg.Done()
				api, done := mk()
				defer done()
				for i := 0; !stop.Load(); i++ {
					res := api.find(readerFilters[(r+i)%len(readerFilters)])
					if why := invariantsOf(res, capacity); why != "" {
						failMu.Lock()
						failure = why
						failMu.Unlock()
						return
					}
				}
			}(r)
		}
		w, wdone := mk()
		for i := 0; i < iters && failure == ""; i++ {
			e := &mocrelay.Event{Pubkey: gen.Keys[0].Pub, Kind: 1, CreatedAt: int64(1000 + i), Tags: []mocrelay.Tag{}, Content: fmt.Sprint("w", i)}
			gen.Seal(e)
			if !w.add(e) {
				failMu.Lock()
				failure = fmt.Sprintf("Add of fresh event #%d was not reported as new", i)
				failMu.Unlock()
				break
			}
			q := []*mocrelay.ReqFilter{{Limit: gen.Ptr(int64(1))}}
			if i%3 == 1 {
				q = []*mocrelay.ReqFilter{{}}
			}
			res := w.find(q)
			if len(res) == 0 || res[0].ID != e.ID {
				got := "nothing"
				if len(res) > 0 {
					got = fmt.Sprintf("%s (created_at %d)", gen.Short(res[0].ID), res[0].CreatedAt)
				}
				failMu.Lock()
				failure = fmt.Sprintf("after Add(#%d, created_at %d) returned, a query %s started afterwards shows %s as the newest event", i, e.CreatedAt, hx.JSON(gen.BriefFilters(q)), got)
				failMu.Unlock()
				break
			}
		}
		stop.Store(true)
		wdone()
		wg.Wait()
		if failure != "" {
			hx.Fail(t, ev.Failure{Property: "C15", Signature: "not-linearizable", Clause: "every result is one that some sequential ordering consistent with real time could have produced (a completed insertion is visible to a later query)", Case: desc, Observed: failure})
		}
		col.Label("mode:read-your-writes")
		col.Case(true, hx.JSON(desc), func() any { return desc })
	})
}

// TestC15SimultaneousWritersThenSince: several writers (sessions of one CacheHandler, or
// callers of one EventCache) insert one fresh event each at the same moment, with created_at
// values of their own; when all insertions have returned, queries with a `since` between those
// values must show every event at or after the bound. Any summary of the store that is kept
// beside it (a high-water mark, a count) has to be right under simultaneous insertions too.
func TestC15SimultaneousWritersThenSince(t *testing.T) {
	col := ev.For("C15").SetRule(c15Rule)
	rapid.Check(t, func(t *rapid.T) {
		nw := rapid.IntRange(2, 5).Draw(t, "writers")
		rounds := rapid.IntRange(150, 600).Draw(t, "rounds")
		viaHandler := rapid.IntRange(0, 3).Draw(t, "via_handler") != 0
		capacity := nw*rounds + 10
		desc := map[string]any{"mode": "simultaneous-writers-then-since", "writers": nw, "rounds": rounds, "via_handler": viaHandler, "cap": capacity}
		cache := mocrelay.NewEventCache(capacity)
		handler := mocrelay.NewCacheHandler(capacity)
		apis := make([]cacheAPI, nw+1)
		for i := range apis {
			if viaHandler {
				s, cancel := newSessionCache(handler)
				defer cancel()
				apis[i] = s
			} else {
				apis[i] = directCache{cache}
			}
		}
		for r := 0; r < rounds; r++ {
			evs := make([]*mocrelay.Event, nw)
			for w := range evs {
				// the writer with the newest timestamp rotates
				evs[w] = &mocrelay.Event{Pubkey: gen.Keys[w%gen.NKeys].Pub, Kind: 1, CreatedAt: int64(1000 + r*nw + (w+r)%nw), Tags: []mocrelay.Tag{}, Content: fmt.Sprint("sw", r, ".", w)}
				gen.Seal(evs[w])
			}
			gate := make(chan struct{})
			oks := make(chan bool, nw)
			for w := 0; w < nw; w++ {
				go func(w int) {
					<-gate
					for y := 0; y < (w*5+r)%7; y++ {
						runtime.Gosched()
					}
					oks <- apis[w].add(evs[w])
				}(w)
			}
			close(gate)
			for w := 0; w < nw; w++ {
				if !<-oks {
					hx.Fail(t, ev.Failure{Property: "C15", Signature: "not-linearizable", Clause: "every result is one that some sequential ordering consistent with real time could have produced (a fresh event is reported as new)", Case: desc, Observed: fmt.Sprintf("round %d: the insertion of a fresh event was not reported as new", r)})
				}
			}
			// all insertions have returned: a reader that starts now sees them all
			bound := int64(1000 + r*nw + rapid.IntRange(0, nw-1).Draw(t, fmt.Sprintf("r%dbound", r)))
			if r%50 != 0 && r%7 != 3 { // most rounds ask for the newest one only: the tightest bound
				bound = int64(1000 + r*nw + nw - 1)
			}
			res := apis[nw].find([]*mocrelay.ReqFilter{{Since: gen.Ptr(bound)}})
			got := map[string]bool{}
			for _, e := range res {
				got[e.ID] = true
			}
			for _, e := range evs {
				if e.CreatedAt >= bound && !got[e.ID] {
					hx.Fail(t, ev.Failure{Property: "C15", Signature: "not-linearizable", Clause: "every result is one that some sequential ordering consistent with real time could have produced (insertions that have returned are visible to a query that starts afterwards)", Case: desc,
						Observed: fmt.Sprintf("round %d: %d writers inserted created_at %d..%d at the same moment and all returned; a query since=%d started afterwards shows %d events and not %s (created_at %d)", r, nw, 1000+r*nw, 1000+r*nw+nw-1, bound, len(res), gen.Short(e.ID), e.CreatedAt)})
				}
			}
		}
		col.Label("mode:simultaneous-writers-then-since")
		col.Case(true, hx.JSON(desc), func() any { return desc })
	})
}

// TestC15HandlerSessionsLargeAnswers: concurrent CacheHandler sessions with large
// REQ answers read at different speeds; every answer must consist of retained
// events matching that session's filters (no cross-talk between sessions).
func TestC15HandlerSessionsLargeAnswers(t *testing.T) {
	col := ev.For("C15").SetRule(c15Rule)
	rapid.Check(t, func(t *rapid.T) {
		capacity := rapid.IntRange(80, 400).Draw(t, "cap")
		ns := rapid.IntRange(2, 5).Draw(t, "sessions")
		rounds := rapid.IntRange(20, 80).Draw(t, "rounds")
		desc := map[string]any{"cap": capacity, "sessions": ns, "rounds": rounds, "mode": "handler sessions with large answers"}
		handler := mocrelay.NewCacheHandler(capacity)
		authors := gen.Pubkeys(3)
		// pre-fill through one session
		pre, cancelPre := newSessionCache(handler)
		for i := 0; i < capacity; i++ {
			e := &mocrelay.Event{Pubkey: authors[i%3], Kind: 1, CreatedAt: int64(1000 + i), Tags: []mocrelay.Tag{}, Content: fmt.Sprint("pre", i)}
			gen.Seal(e)
			pre.add(e)
		}
		cancelPre()
		var wg sync.WaitGroup
		fails := make([]string, ns)
		for s := 0; s < ns; s++ {
			wg.Add(1)
			go func(s int) {
				defer wg.Done()
				ctx, cancel := context.WithCancel(context.Background())
				defer cancel()
				recv := make(chan mocrelay.ClientMsg)
				send := make(chan mocrelay.ServerMsg)
				go handler.ServeNostr(ctx, send, recv)
				me := authors[s%3]
				fs := []*mocrelay.ReqFilter{{Authors: []string{me}}}
				for r := 0; r < rounds; r++ {
					recv <- &mocrelay.ClientReqMsg{SubscriptionID: "q", ReqFilters: fs}
					n := 0
					for {
						m := <-send
						if em, is := m.(*mocrelay.ServerEventMsg); is {
							n++
							if em.Event.Pubkey != me || em.SubscriptionID != "q" {
								fails[s] = fmt.Sprintf("session %d asked for author %s and received event %s of author %s", s, gen.Short(me), gen.Short(em.Event.ID), gen.Short(em.Event.Pubkey))
								return
							}
							if s%2 == 1 && n%16 == 0 {
								runtime.Gosched() // a slower reader
							}
							continue
						}
						if _, is := m.(*mocrelay.ServerEOSEMsg); is {
							break
						}
					}
					if n == 0 || n > capacity {
						fails[s] = fmt.Sprintf("session %d: %d events for its author (capacity %d, a third of the store belongs to it)", s, n, capacity)
						return
					}
					if r%5 == 4 {
						e := &mocrelay.Event{Pubkey: me, Kind: 1, CreatedAt: int64(5000 + r*10 + s), Tags: []mocrelay.Tag{}, Content: fmt.Sprint("s", s, "r", r)}
						gen.Seal(e)
						recv <- &mocrelay.ClientEventMsg{Event: e}
						<-send
					}
				}
			}(s)
		}
		wg.Wait()
		for _, f := range fails {
			if f != "" {
				hx.Fail(t, ev.Failure{Property: "C15", Signature: "cross-session-answer", Clause: "every result is one that some sequential ordering of the operations could have produced (a session's REQ answer contains only events matching its own filters)", Case: desc, Observed: f})
			}
		}
		col.Label("mode:handler-large-answers")
		col.Case(true, hx.JSON(desc), func() any { return desc })
	})
}

// TestC15HandlerSessionsMixed: several sessions of one small CacheHandler publish
// from a shared pool (so that most EVENTs are refused: re-offers, older versions,
// events named by a deletion request), deletion requests and evictions happen all
// the time, and REQs run in between. Sequentially checkable part: every EVENT gets
// exactly one OK naming it, every REQ one EOSE after at most `capacity` events, each
// matching the filter. Its main purpose is the race-detector stage.
func TestC15HandlerSessionsMixed(t *testing.T) {
	col := ev.For("C15").SetRule(c15Rule)
	rapid.Check(t, func(t *rapid.T) {
		capacity := rapid.IntRange(2, 12).Draw(t, "cap")
		ns := rapid.IntRange(2, 5).Draw(t, "sessions")
		steps := rapid.IntRange(40, 200).Draw(t, "steps")
		desc := map[string]any{"cap": capacity, "sessions": ns, "steps": steps, "mode": "handler sessions, mixed refused/accepted EVENTs, deletion requests, REQs"}
		handler := mocrelay.NewCacheHandler(capacity)
		world := &gen.World{Authors: gen.Pubkeys(2)}
		cfg := &gen.StoreCfg{World: world, TsBase: 1000, TsSpan: 30, WeightKind5: 4}
		pool := make([]*mocrelay.Event, 0, 24)
		for i := 0; i < 24; i++ {
			if i > 6 && i%3 == 0 {
				pool = append(pool, cfg.DrawVersion(t))
			} else {
				pool = append(pool, cfg.DrawEvent(t))
			}
		}
		scripts := make([][]int, ns)
		for s := range scripts {
			scripts[s] = rapid.SliceOfN(rapid.IntRange(-3, len(pool)-1), steps, steps).Draw(t, fmt.Sprintf("script%d", s))
		}
		var wg sync.WaitGroup
		fails := make([]string, ns)
		for s := 0; s < ns; s++ {
			wg.Add(1)
			go func(s int) {
				defer wg.Done()
				ctx, cancel := context.WithCancel(context.Background())
				defer cancel()
				recv := make(chan mocrelay.ClientMsg)
				send := make(chan mocrelay.ServerMsg)
				go handler.ServeNostr(ctx, send, recv)
				next := func() (mocrelay.ServerMsg, bool) {
					select {
					case m := <-send:
						return m, true
					case <-time.After(20 * time.Second):
						return nil, false
					}
				}
				for _, op := range scripts[s] {
					if op >= 0 {
						e := pool[op]
						recv <- &mocrelay.ClientEventMsg{Event: e}
						m, ok := next()
						o, is := m.(*mocrelay.ServerOKMsg)
						if !ok || !is || o.EventID != e.ID {
							fails[s] = fmt.Sprintf("session %d: EVENT %s answered by %s", s, gen.Short(e.ID), hx.JSON(gen.Norm(m)))
							return
						}
						continue
					}
					f := &mocrelay.ReqFilter{}
					switch op {
					case -1:
						f.Authors = []string{world.Authors[s%2]}
					case -2:
						f.Kinds = []int64{5}
					}
					recv <- &mocrelay.ClientReqMsg{SubscriptionID: "q", ReqFilters: []*mocrelay.ReqFilter{f}}
					n := 0
					for {
						m, ok := next()
						if !ok {
							fails[s] = fmt.Sprintf("session %d: REQ not answered by EOSE", s)
							return
						}
						if em, is := m.(*mocrelay.ServerEventMsg); is {
							n++
							if !gen.MatchFilter(em.Event, f) || em.SubscriptionID != "q" || n > capacity {
								fails[s] = fmt.Sprintf("session %d: REQ %s answered with event %d %s", s, hx.JSON(gen.BriefFilter(f)), n, hx.JSON(gen.Brief(em.Event)))
								return
							}
							continue
						}
						if _, is := m.(*mocrelay.ServerEOSEMsg); is {
							break
						}
						fails[s] = fmt.Sprintf("session %d: REQ answered by %s", s, hx.JSON(gen.Norm(m)))
						return
					}
				}
			}(s)
		}
		wg.Wait()
		for _, f := range fails {
			if f != "" {
				hx.Fail(t, ev.Failure{Property: "C15", Signature: "handler-session-reply", Clause: "every result is one that some sequential ordering of the operations could have produced (each EVENT one OK naming it, each REQ matching events then EOSE)", Case: desc, Observed: f})
			}
		}
		col.Label("mode:handler-mixed")
		col.Case(true, hx.JSON(desc), func() any { return desc })
	})
}
