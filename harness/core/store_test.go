package core

import (
	"fmt"
	"os"
	"testing"

	"github.com/high-moctane/mocrelay"
	"pgregory.net/rapid"

	"verifharness/ev"
	"verifharness/gen"
	"verifharness/hx"
	"verifharness/model"
)

// One generated insertion history drives three verdict streams: C03 (queries),
// C04 (retention, refinement of the transition relation), C05 (deletion
// requests and author isolation). VERIF_FOCUS selects whose clauses fail the run.

const (
	c03Rule = "cases = generated insertion histories (1-40 steps, thorough up to 120; capacities 1-8 and occasionally 30-150; 2-3 authors; regular/replaceable/addressable/ephemeral/deletion events, versions of existing addresses, re-offers of earlier events, targeted deletion requests) with 2-3 generated filter lists queried after every step; each Find(filters) must be an allowed answer (tie-tolerant query oracle) over the retained set Find([{}]); index-path and scan-path filters share the oracle; non-trivial = a query issued after >=1 event has left the store whose answer is neither empty nor the whole listing; distinct by hash of history+filters"
	c04Rule = "cases = the same generated insertion histories; after every Add the observed (retained set before, event, retained set after, flag) must be in the specification's transition relation Allowed(S,cap,e) (DESIGN.md A.1) and the invariants (<=cap, unique ids, one event per address, no ephemeral event, Len()==|listing|) must hold; non-trivial = history contains a replacement by a newer version AND an overflow eviction; distinct by hash of the history"
	c05Rule = "cases = the same generated insertion histories over 2-3 authors with deletion requests before/after their targets, referencing own and foreign events by id and by address (2- and 3-element tags), other deletion requests, later evicted; the deletion and isolation clauses of the transition relation are checked at every step; non-trivial = history has a deletion request whose target (own or foreign) is present when it arrives or is offered later; distinct by hash of the history"
)

type storeStep struct {
	Op    string         `json:"op"`
	Event map[string]any `json:"event"`
	Flag  bool           `json:"flag"`
}

func focusOn(prop string) bool {
	f := os.Getenv("VERIF_FOCUS")
	return f == "" || f == prop || (f != "C03" && f != "C04" && f != "C05")
}

func safeFind(c *mocrelay.EventCache, fs []*mocrelay.ReqFilter) (out []*mocrelay.Event, panicked any) {
	defer func() {
		if r := recover(); r != nil {
			panicked = r
		}
	}()
	return c.Find(fs), nil
}

func drawTargetedKind5(t *rapid.T, cfg *gen.StoreCfg, present []*mocrelay.Event) *mocrelay.Event {
	w := cfg.World
	cands := present
	if len(w.Events) > 0 && rapid.IntRange(0, 2).Draw(t, "k5anytarget") == 0 {
		cands = w.Events // also events that already left the store (second request for one target)
	}
	target := rapid.SampledFrom(cands).Draw(t, "k5target")
	e := &mocrelay.Event{Kind: 5, Tags: []mocrelay.Tag{}}
	if rapid.IntRange(0, 4).Draw(t, "k5own") != 0 {
		e.Pubkey = target.Pubkey
	} else {
		e.Pubkey = rapid.SampledFrom(w.Authors).Draw(t, "k5author")
	}
	e.CreatedAt = cfg.TsBase + rapid.Int64Range(0, cfg.TsSpan).Draw(t, "k5ts")
	var tag mocrelay.Tag
	d, hasD := gen.DTag(target)
	if gen.ClassOf(target.Kind) == gen.Addressable && hasD && rapid.Bool().Draw(t, "k5byaddr") {
		tag = mocrelay.Tag{"a", gen.AddrString(target.Kind, target.Pubkey, d)}
	} else {
		tag = mocrelay.Tag{"e", target.ID}
	}
	if !cfg.NoThreeElem && rapid.IntRange(0, 3).Draw(t, "k5three") == 0 {
		tag = append(tag, "wss://r.example")
	}
	e.Tags = append(e.Tags, tag)
	if rapid.IntRange(0, 3).Draw(t, "k5dup") == 0 {
		// the same target named twice, in the other form
		dup := mocrelay.Tag{tag[0], tag[1]}
		if len(tag) == 2 {
			dup = append(dup, "wss://other.example")
		}
		e.Tags = append(e.Tags, dup)
	}
	switch rapid.IntRange(0, 15).Draw(t, "k5shape") {
	case 0:
		// the very same tag twice
		e.Tags = append(e.Tags, append(mocrelay.Tag{}, tag...))
	case 1:
		// a long request: the real target behind 32-60 other (unknown) ones
		n := rapid.IntRange(32, 60).Draw(t, "k5pad")
		padded := make([]mocrelay.Tag, 0, n+len(e.Tags))
		for i := 0; i < n; i++ {
			padded = append(padded, mocrelay.Tag{"e", gen.FakeID(2000 + i)})
		}
		pos := rapid.IntRange(0, n).Draw(t, "k5padpos")
		e.Tags = append(append(append([]mocrelay.Tag{}, padded[:pos]...), e.Tags...), padded[pos:]...)
	}
	if rapid.IntRange(0, 3).Draw(t, "k5more") == 0 && len(w.Events) > 0 {
		o := rapid.SampledFrom(w.Events).Draw(t, "k5other")
		e.Tags = append(e.Tags, mocrelay.Tag{"e", o.ID})
	}
	e.Content = rapid.SampledFrom([]string{"", "x"}).Draw(t, "k5content")
	gen.Seal(e)
	w.Events = append(w.Events, e)
	return e
}

// storeParams selects the shape of one store history.
type storeParams struct {
	capacity   int
	steps      int
	cfg        *gen.StoreCfg
	queryEvery int // C03 queries after every k-th step (1 = every step)
}

func TestStoreC03C04C05(t *testing.T) {
	c03, c04, c05 := storeCollectors()
	maxSteps := 40
	if hx.Thorough() {
		maxSteps = 120
	}
	rapid.Check(t, func(t *rapid.T) {
		capacity := rapid.OneOf(rapid.IntRange(1, 8), rapid.IntRange(1, 3), rapid.IntRange(30, 150)).Draw(t, "cap")
		nAuthors := rapid.IntRange(2, 3).Draw(t, "nauthors")
		world := &gen.World{Authors: gen.Pubkeys(nAuthors)}
		cfg := &gen.StoreCfg{World: world, TsBase: 1000, TsSpan: 7}
		big := capacity >= 30
		steps := rapid.IntRange(1, maxSteps).Draw(t, "steps")
		if big {
			steps = rapid.IntRange(capacity/2, capacity+40).Draw(t, "bigsteps")
			cfg.TsSpan = int64(capacity / 3)
		}
		runStoreCase(t, c03, c04, c05, storeParams{capacity: capacity, steps: steps, cfg: cfg, queryEvery: 1})
	})
}

// TestStoreSoak runs the same machine at scale: long histories on tiny stores (hundreds of
// evictions, deletion requests coming and going) and stores of more than 1024 events.
func TestStoreSoak(t *testing.T) {
	c03, c04, c05 := storeCollectors()
	rapid.Check(t, func(t *rapid.T) {
		world := &gen.World{Authors: gen.Pubkeys(3)}
		cfg := &gen.StoreCfg{World: world, TsBase: 1000}
		p := storeParams{cfg: cfg}
		shapes := []string{"long-small", "long-small", "long-deletions", "large"}
		if os.Getenv("VERIF_FOCUS") == "C05" {
			shapes = []string{"long-deletions", "long-deletions", "long-deletions", "long-small"}
		}
		switch rapid.SampledFrom(shapes).Draw(t, "shape") {
		case "long-small":
			p.capacity = rapid.IntRange(2, 9).Draw(t, "cap")
			p.steps = rapid.IntRange(600, 1500).Draw(t, "steps")
			cfg.TsSpan = 4000
			p.queryEvery = 25
		case "long-deletions":
			p.capacity = rapid.IntRange(3, 6).Draw(t, "cap")
			p.steps = rapid.IntRange(900, 1800).Draw(t, "steps")
			cfg.TsSpan = 6000
			cfg.WeightKind5 = 14
			p.queryEvery = 50
		default:
			p.capacity = rapid.SampledFrom([]int{1025, 1100, 1500, 2050}).Draw(t, "cap")
			p.steps = p.capacity + rapid.IntRange(20, 200).Draw(t, "extra")
			cfg.TsSpan = int64(p.capacity) * 4
			cfg.RegularWeight = 40
			p.queryEvery = 200
		}
		c04.Label("soak:" + fmt.Sprint(p.capacity >= 1000))
		runStoreCase(t, c03, c04, c05, p)
	})
}

func storeCollectors() (c03, c04, c05 *ev.Collector) {
	c03 = ev.For("C03").SetRule(c03Rule)
	c04 = ev.For("C04").SetRule(c04Rule)
	c05 = ev.For("C05").SetRule(c05Rule)
	for _, c := range []*ev.Collector{c03, c04, c05} {
		c.Assume("events are structurally valid and same id <=> same event (ids are SHA-256 of the canonical form), as the admission gate guarantees")
		c.Assume("equal-timestamp versions may resolve either way; address references to replaceable events and d-less addressable events are admitted either way (statement silent)")
	}
	return
}

func runStoreCase(t *rapid.T, c03, c04, c05 *ev.Collector, p storeParams) {
	capacity, steps, cfg, world, queryEvery := p.capacity, p.steps, p.cfg, p.cfg.World, p.queryEvery
	{
		cache := mocrelay.NewEventCache(capacity)
		var s []*mocrelay.Event
		var history []*mocrelay.Event
		var trace []storeStep
		var pending []*mocrelay.Event
		byID := map[string]*mocrelay.Event{}
		left := 0 // events that have left the store so far
		sawReplace, sawEvict, sawDeletionHit := false, false, false
		c03nontriv := false
		var c03sample any

		caseJSON := func() any { return map[string]any{"cap": capacity, "history": trace} }

		for i := 0; i < steps; i++ {
			var e *mocrelay.Event
			op := rapid.IntRange(0, 20).Draw(t, "op")
			if len(pending) == 0 && op == 20 {
				pending = cfg.DrawBurst(t)
			}
			switch {
			case len(pending) > 0:
				e, pending = pending[0], pending[1:]
				op = 1
			case op < 10 || len(world.Events) == 0:
				e = cfg.DrawEvent(t)
				op = 0
			case op < 14:
				e = cfg.DrawVersion(t)
				op = 1
			case op < 17:
				e = rapid.SampledFrom(world.Events).Draw(t, "reoffer")
				// half of the time: an event that a retained deletion request names (in a long
				// history a uniform choice almost never hits one)
				var named []*mocrelay.Event
				for _, k := range s {
					if k.Kind != 5 {
						continue
					}
					for _, tg := range k.Tags {
						if len(tg) >= 2 && tg[0] == "e" {
							if x := byID[tg[1]]; x != nil {
								named = append(named, x)
							}
						}
					}
				}
				if len(named) > 0 && rapid.Bool().Draw(t, "reoffer_named") {
					e = rapid.SampledFrom(named).Draw(t, "reoffer_named_which")
				}
				if rapid.Bool().Draw(t, "reofferclone") {
					e = gen.CloneEvent(e)
				}
				op = 2
			default:
				if len(s) == 0 {
					e = cfg.DrawEvent(t)
					op = 0
				} else {
					e = drawTargetedKind5(t, cfg, s)
					op = 3
				}
			}
			opName := [...]string{"new", "version", "reoffer", "delete"}[op]

			// classify the step for the evidence (from the spec's point of view)
			stepLabel := "fresh"
			beforeIDs := map[string]bool{}
			for _, x := range s {
				beforeIDs[x.ID] = true
			}
			for _, x := range s {
				if model.Refs(x, e) {
					stepLabel = "suppressed"
				}
			}
			if beforeIDs[e.ID] {
				stepLabel = "dup"
			} else if gen.ClassOf(e.Kind) == gen.Ephemeral {
				stepLabel = "ephemeral"
			}
			if e.Kind == 5 {
				for _, x := range s {
					if model.Refs(e, x) {
						sawDeletionHit = true
						c05.Label("deletion:target-present")
					} else if x.Pubkey != e.Pubkey && (refersTo(e, x)) {
						sawDeletionHit = true
						c05.Label("deletion:foreign-target-present")
					}
				}
			}
			for _, k := range history {
				if k.Kind == 5 && (model.Refs(k, e) || (k.Pubkey != e.Pubkey && refersTo(k, e))) {
					sawDeletionHit = true
					if beforeIDs[k.ID] {
						c05.Label("deletion:target-offered-while-request-retained")
					} else {
						c05.Label("deletion:target-offered-after-request-left")
					}
					break
				}
			}

			flag := cache.Add(e)
			history = append(history, e)
			byID[e.ID] = e
			trace = append(trace, storeStep{Op: opName, Event: gen.Brief(e), Flag: flag})

			s2, p := safeFind(cache, []*mocrelay.ReqFilter{{}})
			if p != nil {
				if focusOn("C03") {
					hx.Fail(t, ev.Failure{Property: "C03", Signature: "find-panic", Clause: "the match-everything query panicked", Case: caseJSON(), Observed: fmt.Sprint(p)})
				}
				return
			}
			if why := model.CheckListing(s2); why != "" && focusOn("C03") {
				hx.Fail(t, ev.Failure{Property: "C03", Signature: "listing-order", Clause: "the match-everything listing is ordered and duplicate-free", Case: caseJSON(), Observed: why})
			}
			if n := cache.Len(); n != len(s2) && focusOn("C04") {
				hx.Fail(t, ev.Failure{Property: "C04", Signature: "len-mismatch", Clause: "Len() equals the size of the listing", Case: caseJSON(), Observed: fmt.Sprintf("Len()=%d listing=%d", n, len(s2))})
			}
			v := model.CheckTransition(s, capacity, e, s2, flag, history[:len(history)-1])
			if !v.OK {
				if focusOn(v.Property) {
					hx.Fail(t, ev.Failure{Property: v.Property, Signature: v.Sig, Clause: v.Clause,
						Case:     map[string]any{"cap": capacity, "history": trace, "step": i},
						Observed: fmt.Sprintf("flag=%v retained after=%v", flag, gen.SortedIDsShort(s2)), Expected: "a transition the specification allows from " + fmt.Sprint(gen.SortedIDsShort(s))})
				}
				ev.For(os.Getenv("VERIF_FOCUS")).Label("other-property-violation:" + v.Property + ":" + v.Sig)
			}
			// evidence classification
			gone := 0
			afterIDs := map[string]bool{}
			for _, x := range s2 {
				afterIDs[x.ID] = true
			}
			for _, x := range s {
				if !afterIDs[x.ID] {
					gone++
					if d, _ := sameAddrExported(x, e); d {
						sawReplace = true
						stepLabel = "newer-replaces"
					}
				}
			}
			if len(s)+1-gone > capacity || (flag && !afterIDs[e.ID] && gen.ClassOf(e.Kind) != gen.Ephemeral && stepLabel == "fresh") {
				// overflow happened
			}
			if flag && len(s2) == capacity && len(s)-gone+1 > capacity {
				sawEvict = true
				c04.Label("step:overflow-eviction")
			}
			left += gone
			if !flag && stepLabel == "fresh" {
				stepLabel = "older-or-equal-version"
			}
			c04.Label("step:" + stepLabel)
			s = s2

			// C03 queries
			if focusOn("C03") && (i%queryEvery == 0 || i == steps-1) {
				pool := gen.PoolFromEvents(world.Events, world.Authors)
				pool.AllowEmptyTagsMap = true
				pool.BigLimits = true
				pool.LongLists = true
				pool.MaxLimit = int64(min(len(s)+1, 6))
				nq := 2
				for q := 0; q < nq; q++ {
					fs := pool.DrawFilters(t, fmt.Sprintf("q%d.%d.", i, q), 1, 3)
					r, p := safeFind(cache, fs)
					if p != nil {
						hx.Fail(t, ev.Failure{Property: "C03", Signature: "find-panic", Clause: "Find panicked",
							Case: map[string]any{"cap": capacity, "history": trace, "filters": gen.BriefFilters(fs)}, Observed: fmt.Sprint(p)})
					}
					if why := model.AllowedAnswer(s, fs, r); why != "" {
						hx.Fail(t, ev.Failure{Property: "C03", Signature: "query-answer", Clause: "Find(filters) is the union of the limit newest retained matches per filter, ordered, without duplicates: " + why,
							Case:     map[string]any{"cap": capacity, "history": trace, "filters": gen.BriefFilters(fs), "retained": briefAll(s)},
							Observed: fmt.Sprint(gen.IDsShort(r)), Expected: "an allowed answer over the retained set"})
					}
					for _, f := range fs {
						if f.IDs == nil && f.Authors == nil && f.Kinds == nil && f.Tags == nil {
							c03.Label("path:scan")
						} else {
							c03.Label("path:index")
						}
					}
					if left > 0 && len(r) > 0 && len(r) < len(s) {
						c03nontriv = true
						if c03sample == nil {
							c03sample = map[string]any{"cap": capacity, "steps_so_far": len(trace), "left_store": left, "filters": gen.BriefFilters(fs), "answer": gen.IDsShort(r), "retained": len(s)}
						}
					}
					c03.Add("queries", 1)
				}
			}
		}
		key := hx.JSON(trace)
		if focusOn("C03") {
			c03.Case(c03nontriv, key, func() any { return c03sample })
		}
		if focusOn("C04") {
			c04.Case(sawReplace && sawEvict, key, caseJSON)
			c04.Add("transitions", int64(len(trace)))
		}
		if focusOn("C05") {
			c05.Case(sawDeletionHit, key, caseJSON)
		}
	}
}

// refersTo: k (kind 5) names x by id or address, regardless of authorship.
func refersTo(k, x *mocrelay.Event) bool {
	if k.Kind != 5 {
		return false
	}
	for _, t := range k.Tags {
		if len(t) >= 2 && t[0] == "e" && t[1] == x.ID {
			return true
		}
		if len(t) >= 2 && t[0] == "a" {
			if ak, ok, hasD := gen.AddrOf(x); ok && hasD && ak.Param && t[1] == gen.AddrString(ak.Kind, ak.Pubkey, ak.D) {
				return true
			}
		}
	}
	return false
}

func sameAddrExported(a, b *mocrelay.Event) (bool, bool) {
	ka, oka, hasA := gen.AddrOf(a)
	kb, okb, hasB := gen.AddrOf(b)
	if !oka || !okb || !hasA || !hasB {
		return false, false
	}
	return ka == kb, false
}
