package core

import (
	"os"
	"testing"

	"verifharness/ev"
)

func TestMain(m *testing.M) {
	code := m.Run()
	ev.Flush()
	os.Exit(code)
}
