package session

import (
	"bytes"
	"context"
	"encoding/json"
	"fmt"
	"sort"
	"strings"
	"sync"
	"testing"
	"time"

	"github.com/coder/websocket"
	"github.com/high-moctane/mocrelay"
	"pgregory.net/rapid"

	"verifharness/ev"
	"verifharness/gen"
	"verifharness/hx"
)

const c12Rule = "cases = one relay (real NewRelay behind httptest, loopback WebSocket, rate limiter opened up, size limit kept) and 1-2 connections, each sending a generated sequence of 1-25 frames: valid messages of all 5 types (EVENTs really signed, whitespace/escape variants), binary frames, invalid UTF-8, non-JSON, JSON non-arrays, unknown labels, wrong arity/types, every constructed field corruption, forged signatures, altered copies of genuine events reusing their id and sig (also of events sent earlier on this or another connection), events carrying another event's id; oracle: the recording handler receives exactly the valid authentic frames, once, in order, equal to the written value; every other frame is answered by exactly one rejection (NOTICE, or OK-false / CLOSED naming the id), in frame order; a final sentinel still round-trips; then the handler emits 0-12 generated server messages of all 7 types and the client must receive exactly as many text frames decoding (independent decoder) to the same messages in order; non-trivial = sequence with >=1 valid and >=2 different invalid classes and a valid frame after an invalid one; distinct by hash of the frame list"

type frame struct {
	Class  string `json:"class"`
	Frags  []int  `json:"fragment_cuts,omitempty"`
	Binary bool   `json:"binary,omitempty"`
	Text   string `json:"text"`
	Valid  bool   `json:"valid"`
	norm   string
	evID   string
	subID  string
}

func normOfWire(m *gen.WireMsg) string {
	var v any
	switch m.Label {
	case "EVENT":
		v = &mocrelay.ClientEventMsg{Event: m.Event}
	case "AUTH":
		v = &mocrelay.ClientAuthMsg{Event: m.Event}
	case "REQ":
		v = &mocrelay.ClientReqMsg{SubscriptionID: m.SubID, ReqFilters: m.Fs}
	case "COUNT":
		v = &mocrelay.ClientCountMsg{SubscriptionID: m.SubID, ReqFilters: m.Fs}
	case "CLOSE":
		v = &mocrelay.ClientCloseMsg{SubscriptionID: m.SubID}
	}
	b, _ := json.Marshal(gen.Norm(v))
	return string(b)
}

// genuine collects correctly signed events sent so far.
// maxFrame keeps generated frames inside the relay's default MaxMessageLength
// (100 000 bytes, inclusive): a longer frame is answered by closing the connection with
// StatusMessageTooBig, which is the documented size limit and outside C12's domain.
const maxFrame = 100000

// drawFrame draws one frame of at most maxFrame bytes (escaped spellings of a
// re-used large event can multiply its size; such a draw is repeated).
func drawFrame(t *rapid.T, label string, genuine *[]*mocrelay.Event) frame {
	for attempt := 0; ; attempt++ {
		n := len(*genuine)
		f := drawFrame1(t, fmt.Sprintf("%s%d.", label, attempt), genuine)
		if len(f.Text) <= maxFrame {
			return f
		}
		*genuine = (*genuine)[:n]
	}
}

func drawFrame1(t *rapid.T, label string, genuine *[]*mocrelay.Event) frame {
	render := func(doc gen.J) string {
		return gen.Render(doc, &gen.RenderOpts{T: t, Whitespace: rapid.IntRange(0, 3).Draw(t, label+"ws") == 0, EscapeVar: rapid.IntRange(0, 5).Draw(t, label+"esc") == 0})
	}
	evDoc := func(e *mocrelay.Event) gen.JArr {
		return gen.JArr{gen.JStr("EVENT"), gen.WireEventDoc(t, e, label+"doc.")}
	}
	k := rapid.IntRange(0, 24).Draw(t, label+"class")
	switch {
	case k == 24: // a genuine event signed over U+FFFD, sent with an invalid byte in its place
		e := gen.WireEvent(t, label+"fffd.", false)
		e.Content += "\ufffd" + rapid.SampledFrom([]string{"", "tail", "\ufffd"}).Draw(t, label+"fffdtail")
		gen.Sign(e, gen.Keys[rapid.IntRange(0, gen.NKeys-1).Draw(t, label+"fffdkey")])
		text := gen.Render(gen.JArr{gen.JStr("EVENT"), gen.WireEventDoc(t, e, label+"fffddoc.")}, nil)
		bad := rapid.SampledFrom([]string{"\xff", "\xc3", "\xc0\xaf", "\xed\xa0\x80"}).Draw(t, label+"fffdbad")
		text = strings.Replace(text, "\xef\xbf\xbd", bad, 1)
		return frame{Class: "forged:utf8-substitution", Text: text, evID: e.ID}
	case k == 22: // a valid message padded with insignificant whitespace up to the size limit
		m := gen.WireClientMsg(t, rapid.SampledFrom([]string{"CLOSE", "REQ"}).Draw(t, label+"nearlabel"), false)
		if strings.HasPrefix(m.SubID, sentinelPrefix) {
			m.SubID = "x"
		}
		text := gen.Render(m.Doc, nil)
		total := rapid.SampledFrom([]int{81920, 90111, 90112, 95000, 98304, 99990, 99999, 100000}).Draw(t, label+"neartotal")
		if total > len(text) {
			text = text[:1] + strings.Repeat(" ", total-len(text)) + text[1:]
		}
		return frame{Class: "valid:near-limit-" + m.Label, Text: text, Valid: true, norm: normOfWire(m)}
	case k == 23: // an invalid message just inside the size limit (its rejection may be longer than the limit)
		total := rapid.SampledFrom([]int{99950, 99990, 99993, 99999, 100000}).Draw(t, label+"neartotal")
		head, tail := `["REQ","big",{"ids":["`, `"]}]`
		unit := rapid.SampledFrom([]string{"a", "<", "\\\\"}).Draw(t, label+"nearunit")
		n := (total - len(head) - len(tail)) / len(unit)
		return frame{Class: "corrupt:near-limit-invalid", Text: head + strings.Repeat(unit, n) + tail, subID: "big"}
	case k == 20: // large valid EVENT (tens of kilobytes, still inside the relay's default size limit)
		unit := rapid.SampledFrom([]string{"x", "é", "<>&", "😀", "\n", "😀\n\""}).Draw(t, label+"unit")
		count := rapid.IntRange(12000, 28000).Draw(t, label+"biglen")
		shift := strings.Repeat("s", rapid.IntRange(0, 7).Draw(t, label+"shift"))
		key := gen.Keys[rapid.IntRange(0, gen.NKeys-1).Draw(t, label+"key")]
		for attempt := 0; ; attempt++ {
			e := &mocrelay.Event{Kind: 1, CreatedAt: 1700000000, Tags: []mocrelay.Tag{}, Content: shift + strings.Repeat(unit, count)}
			gen.Sign(e, key)
			m := &gen.WireMsg{Label: "EVENT", Event: e}
			m.Doc = gen.JArr{gen.JStr("EVENT"), gen.WireEventDoc(t, e, fmt.Sprintf("%sdoc%d.", label, attempt))}
			text := gen.Render(m.Doc, nil)
			if len(text) > maxFrame {
				// escaped spellings can multiply the size; a frame over MaxMessageLength is
				// legitimately answered by closing the connection, which is not this class
				count /= 2
				continue
			}
			*genuine = append(*genuine, e)
			return frame{Class: "valid:large-EVENT", Text: text, Valid: true, norm: normOfWire(m)}
		}
	case k == 21: // large invalid message: the rejection may echo it
		junk := strings.Repeat("ab", rapid.IntRange(17000, 40000).Draw(t, label+"junklen"))
		return frame{Class: "corrupt:large-invalid", Text: `["REQ","big",{"ids":["` + junk + `"]}]`, subID: "big"}
	case k < 7: // valid
		m := gen.WireClientMsg(t, "", true)
		if m.Label == "EVENT" {
			*genuine = append(*genuine, m.Event)
		}
		// the subscription id must not look like one of the harness's sentinels
		if strings.HasPrefix(m.SubID, sentinelPrefix) {
			m.SubID = "x"
		}
		return frame{Class: "valid:" + m.Label, Text: render(m.Doc), Valid: true, norm: normOfWire(m)}
	case k < 11: // field corruption of a well-formed message
		m := gen.WireClientMsg(t, "", true)
		var app []gen.Corruption
		for _, c := range gen.Corruptions {
			// JSON null in place of a value is not claimed either way (Go decoders treat it as absent)
			if c.Applies(m) && (!strings.HasSuffix(c.Name, "-null") || strings.HasSuffix(c.Name, "-element-null")) && !(c.Name == "subid-not-string") {
				app = append(app, c)
			}
		}
		c := app[rapid.IntRange(0, len(app)-1).Draw(t, label+"corruption")]
		f := frame{Class: "corrupt:" + c.Name, Text: render(c.Apply(t, m))}
		if m.Event != nil {
			f.evID = m.Event.ID
		}
		f.subID = m.SubID
		return f
	case k < 12:
		m := gen.WireClientMsg(t, "", true)
		return frame{Class: "binary", Binary: true, Text: gen.Render(m.Doc, nil)}
	case k < 13:
		bad := rapid.SampledFrom([]string{"[\"CLOSE\",\"\xff\"]", "\xc3\x28", "[\"REQ\",\"a\",{}]\x80", "\xed\xa0\x80"}).Draw(t, label+"badutf8")
		return frame{Class: "invalid-utf8", Text: bad}
	case k < 14:
		s := rapid.SampledFrom([]string{"", "hello", "[", "[\"CLOSE\",\"a\"", "[\"CLOSE\",\"a\"]]", "{\"a\":}", "[\"CLOSE\" \"a\"]", "['CLOSE','a']", "[\"REQ\",\"a\",{},]"}).Draw(t, label+"nonjson")
		return frame{Class: "not-json", Text: s}
	case k < 15:
		s := rapid.SampledFrom([]string{"{}", "\"CLOSE\"", "1", "true", "{\"0\":\"CLOSE\",\"1\":\"a\"}", "[]", "[[\"CLOSE\",\"a\"]]"}).Draw(t, label+"nonarray")
		return frame{Class: "json-not-a-client-msg", Text: s}
	case k < 17: // forged / altered events
		base := gen.WireEvent(t, label+"base.", true)
		if len(*genuine) > 0 && rapid.Bool().Draw(t, label+"reuse") {
			base = (*genuine)[rapid.IntRange(0, len(*genuine)-1).Draw(t, label+"which")]
		}
		x := gen.CloneEvent(base)
		how := rapid.SampledFrom([]string{"content", "created_at", "kind", "tag", "sig-digit", "id-digit", "pubkey", "sig-of-other", "pubkey-off-curve", "sig-out-of-range"}).Draw(t, label+"how")
		switch how {
		case "content":
			x.Content += "!"
		case "created_at":
			x.CreatedAt++
		case "kind":
			x.Kind = (x.Kind + 1) % 65536
		case "tag":
			x.Tags = append(x.Tags, mocrelay.Tag{"t", "added"})
		case "sig-digit":
			x.Sig = flipHex(x.Sig, rapid.IntRange(0, 127).Draw(t, label+"pos"))
		case "id-digit":
			x.ID = flipHex(x.ID, rapid.IntRange(0, 63).Draw(t, label+"pos"))
		case "pubkey":
			for _, kk := range gen.Keys {
				if kk.Pub != x.Pubkey {
					x.Pubkey = kk.Pub
					break
				}
			}
		case "pubkey-off-curve":
			// well-formed and with the right id, but the pubkey is no curve point
			x.Pubkey = rapid.SampledFrom(gen.OffCurvePubkeys).Draw(t, label+"off")
			x.ID = gen.ComputeID(x)
		case "sig-out-of-range":
			if rapid.Bool().Draw(t, label+"rs") {
				x.Sig = gen.FieldPrimeHex + x.Sig[64:]
			} else {
				x.Sig = x.Sig[:64] + gen.GroupOrderHex
			}
		case "sig-of-other":
			o := gen.CloneEvent(base)
			o.Content += "?"
			kk, _ := gen.KeyFor(base.Pubkey)
			gen.Sign(o, kk)
			x.Sig = o.Sig
		}
		return frame{Class: "forged:" + how, Text: render(evDoc(x)), evID: x.ID}
	case k < 18: // whitespace-padded valid CLOSE / REQ
		m := gen.WireClientMsg(t, rapid.SampledFrom([]string{"CLOSE", "REQ"}).Draw(t, label+"padlabel"), false)
		if strings.HasPrefix(m.SubID, sentinelPrefix) {
			m.SubID = "x"
		}
		pad := rapid.SampledFrom([]string{" ", "\n", "\t \r\n", "  "}).Draw(t, label+"pad")
		return frame{Class: "valid:padded-" + m.Label, Text: pad + gen.Render(m.Doc, nil) + pad, Valid: true, norm: normOfWire(m)}
	default: // unsigned (sealed) EVENT: well-formed and valid but not authentic
		e := gen.WireEvent(t, label+"unsigned.", false)
		e.Pubkey = gen.Keys[0].Pub
		gen.Seal(e)
		return frame{Class: "forged:unsigned", Text: render(evDoc(e)), evID: e.ID}
	}
}

func flipHex(s string, pos int) string {
	c := s[pos]
	n := byte('0')
	if c == '0' {
		n = '1'
	}
	return s[:pos] + string(n) + s[pos+1:]
}

// isRejection: a NOTICE, or an OK-false / CLOSED frame.
func isRejection(b []byte) (ok bool, names string) {
	var a []any
	if json.Unmarshal(b, &a) != nil || len(a) < 2 {
		return false, ""
	}
	switch a[0] {
	case "NOTICE":
		return len(a) == 2, ""
	case "OK":
		if len(a) == 4 {
			if acc, isb := a[2].(bool); isb && !acc {
				id, _ := a[1].(string)
				return true, id
			}
		}
	case "CLOSED":
		if len(a) == 3 {
			id, _ := a[1].(string)
			return true, id
		}
	}
	return false, ""
}

// expectedServerJSON renders a server message as the generic JSON structure it
// must decode to (written from NIP-01, independent of the code's MarshalJSON).
func expectedServerJSON(m mocrelay.ServerMsg) string {
	evObj := func(e *mocrelay.Event) any {
		tags := [][]string{}
		for _, tg := range e.Tags {
			tags = append(tags, append([]string{}, tg...))
		}
		return map[string]any{"id": e.ID, "pubkey": e.Pubkey, "created_at": json.Number(fmt.Sprint(e.CreatedAt)), "kind": json.Number(fmt.Sprint(e.Kind)), "tags": tags, "content": e.Content, "sig": e.Sig}
	}
	var v any
	switch x := m.(type) {
	case *mocrelay.ServerEOSEMsg:
		v = []any{"EOSE", x.SubscriptionID}
	case *mocrelay.ServerEventMsg:
		v = []any{"EVENT", x.SubscriptionID, evObj(x.Event)}
	case *mocrelay.ServerNoticeMsg:
		v = []any{"NOTICE", x.Message}
	case *mocrelay.ServerOKMsg:
		v = []any{"OK", x.EventID, x.Accepted, x.Message()}
	case *mocrelay.ServerAuthMsg:
		v = []any{"AUTH", x.Challenge}
	case *mocrelay.ServerCountMsg:
		o := map[string]any{"count": json.Number(fmt.Sprint(x.Count))}
		if x.Approximate != nil {
			o["approximate"] = *x.Approximate
		}
		v = []any{"COUNT", x.SubscriptionID, o}
	case *mocrelay.ServerClosedMsg:
		v = []any{"CLOSED", x.SubscriptionID, x.Message()}
	}
	b, _ := json.Marshal(v)
	return string(b)
}

func canonicalFrame(b []byte) (string, error) {
	dec := json.NewDecoder(bytes.NewReader(b))
	dec.UseNumber()
	var v any
	if err := dec.Decode(&v); err != nil {
		return "", err
	}
	if dec.More() {
		return "", fmt.Errorf("trailing data")
	}
	out, _ := json.Marshal(v)
	return string(out), nil
}

func TestC12Session(t *testing.T) {
	col := ev.For("C12").SetRule(c12Rule)
	col.Assume("frames stay within the configured size limit; JSON null in place of a value is not generated (Go decoders treat it as absent; not claimed either way)")
	rapid.Check(t, func(t *rapid.T) { c12Case(t, col, false) })
}

// TestC12LongLivedRelay: the same check on a relay that serves dozens of connections one
// after the other (whatever a relay keeps beyond a connection has time to fill up).
func TestC12LongLivedRelay(t *testing.T) {
	col := ev.For("C12").SetRule(c12Rule)
	rapid.Check(t, func(t *rapid.T) { c12Case(t, col, true) })
}

func c12Case(t *rapid.T, col *ev.Collector, longLived bool) {
	{
		h := newRecHandler()
		opt := openOptions()
		if rapid.Bool().Draw(t, "default_burst") {
			// the default burst of the receive limiter with a refill rate that never makes a case wait
			opt.RecvRateLimitBurst = mocrelay.NewDefaultRelayOption().RecvRateLimitBurst
			opt.RecvRateLimitRate = 1e6
		}
		// keep-alive pings every minute (default), every few milliseconds, or never
		opt.PingDuration = rapid.SampledFrom([]time.Duration{time.Minute, time.Minute, 3 * time.Millisecond, 0}).Draw(t, "ping")
		if rapid.Bool().Draw(t, "logger") {
			opt.Logger = discardLogger()
		}
		rig := newWSRig(opt, h)
		defer rig.close()
		var genuine []*mocrelay.Event
		nconn := rapid.IntRange(1, 2).Draw(t, "connections")
		if longLived {
			nconn = rapid.IntRange(25, 60).Draw(t, "connections_long")
			col.Label("relay:long-lived")
		}
		var allFrames [][]frame
		nontrivial := false
		var pastMsgs []mocrelay.ServerMsg // everything handlers emitted on earlier connections of the case
		var pastWant []string
		for ci := 0; ci < nconn; ci++ {
			if longLived && rapid.IntRange(0, 3).Draw(t, fmt.Sprintf("c%d.abrupt", ci)) == 0 {
				// a client that fires a few EVENTs and hangs up at once: the session ends while its
				// events are being checked; what the relay does with them is not judged, but the
				// connections after it must be served as if it had never been there
				ac, err := dial(rig.url)
				if err != nil {
					t.Fatalf("dial: %v", err)
				}
				for j, na := 0, rapid.IntRange(1, 6).Draw(t, fmt.Sprintf("c%d.abruptn", ci)); j < na; j++ {
					x := gen.WireEvent(t, fmt.Sprintf("c%d.ab%d.", ci, j), true)
					if rapid.Bool().Draw(t, fmt.Sprintf("c%d.ab%d.forged", ci, j)) {
						x.Content += "!"
					}
					ac.Write(context.Background(), websocket.MessageText, []byte(gen.Render(gen.JArr{gen.JStr("EVENT"), gen.WireEventDoc(t, x, fmt.Sprintf("c%d.ab%d.doc.", ci, j))}, nil)))
				}
				ac.CloseNow()
				select {
				case <-h.ends:
				case <-time.After(waitLong):
					hx.Fail(t, ev.Failure{Property: "C12", Signature: "connection-lost", Clause: "a session ends when its client hangs up", Case: map[string]any{"connection": ci, "kind": "abrupt"}, Observed: "session did not end"})
				}
				h.take()
				col.Label("connection:abrupt")
			}
			c, err := dial(rig.url)
			if err != nil {
				t.Fatalf("dial: %v", err)
			}
			startReader(c)
			n := rapid.IntRange(1, 25).Draw(t, fmt.Sprintf("c%d.nframes", ci))
			var frames []frame
			for i := 0; i < n; i++ {
				var f frame
				if longLived && rapid.IntRange(0, 3).Draw(t, fmt.Sprintf("c%d.f%d.unverifiable", ci, i)) == 0 {
					// an event the verifier cannot even evaluate (no curve point / r, s out of range)
					x := gen.WireEvent(t, fmt.Sprintf("c%d.f%d.uv.", ci, i), true)
					if rapid.Bool().Draw(t, fmt.Sprintf("c%d.f%d.uvhow", ci, i)) {
						x.Pubkey = rapid.SampledFrom(gen.OffCurvePubkeys).Draw(t, fmt.Sprintf("c%d.f%d.uvoff", ci, i))
						x.ID = gen.ComputeID(x)
					} else {
						x.Sig = gen.FieldPrimeHex + x.Sig[64:]
					}
					f = frame{Class: "forged:unverifiable", Text: gen.Render(gen.JArr{gen.JStr("EVENT"), gen.WireEventDoc(t, x, fmt.Sprintf("c%d.f%d.uvdoc.", ci, i))}, nil), evID: x.ID}
				} else {
					f = drawFrame(t, fmt.Sprintf("c%d.f%d.", ci, i), &genuine)
				}
				if len(f.Text) >= 2 && rapid.IntRange(0, 5).Draw(t, fmt.Sprintf("c%d.f%d.frag?", ci, i)) == 0 {
					nc := rapid.IntRange(1, 3).Draw(t, fmt.Sprintf("c%d.f%d.nfrag", ci, i))
					cuts := map[int]bool{}
					for j := 0; j < nc; j++ {
						cuts[rapid.IntRange(1, len(f.Text)-1).Draw(t, fmt.Sprintf("c%d.f%d.cut%d", ci, i, j))] = true
					}
					for c := range cuts {
						f.Frags = append(f.Frags, c)
					}
					sort.Ints(f.Frags)
				}
				frames = append(frames, f)
			}
			allFrames = append(allFrames, frames)
			desc := func() any { return map[string]any{"connection": ci, "frames": allFrames} }
			ctx := context.Background()
			for _, f := range frames {
				typ := websocket.MessageText
				if f.Binary {
					typ = websocket.MessageBinary
				}
				var err error
				if len(f.Frags) == 0 {
					err = c.Write(ctx, typ, []byte(f.Text))
				} else {
					// one message sent as several WebSocket frames (continuation frames)
					var w interface {
						Write([]byte) (int, error)
						Close() error
					}
					w, err = c.Writer(ctx, typ)
					if err == nil {
						prev := 0
						for _, cut := range append(append([]int{}, f.Frags...), len(f.Text)) {
							if _, err = w.Write([]byte(f.Text[prev:cut])); err != nil {
								break
							}
							prev = cut
						}
						if cerr := w.Close(); err == nil {
							err = cerr
						}
					}
				}
				if err != nil {
					hx.Fail(t, ev.Failure{Property: "C12", Signature: "connection-lost", Clause: "the connection stays usable", Case: desc(), Observed: "write: " + err.Error()})
				}
			}
			sentinel := fmt.Sprintf("%s%d", sentinelPrefix, ci)
			sb, _ := json.Marshal([]string{"CLOSE", sentinel})
			if err := c.Write(ctx, websocket.MessageText, sb); err != nil {
				hx.Fail(t, ev.Failure{Property: "C12", Signature: "connection-lost", Clause: "the connection stays usable", Case: desc(), Observed: "write sentinel: " + err.Error()})
			}
			replies, err := readUntilNotice(c, sentinel)
			if err != nil {
				hx.Fail(t, ev.Failure{Property: "C12", Signature: "connection-lost", Clause: "after any frame sequence the connection stays usable (a final sentinel message still reaches the handler and its answer the client)", Case: desc(), Observed: err.Error()})
			}
			got := h.take()
			var wantGot []string
			var invalid []frame
			classes := map[string]bool{}
			sawInvalid, validAfterInvalid, nvalid := false, false, 0
			for _, f := range frames {
				col.Label("frame:" + strings.SplitN(f.Class, ":", 2)[0])
				if f.Valid {
					wantGot = append(wantGot, f.norm)
					nvalid++
					if sawInvalid {
						validAfterInvalid = true
					}
				} else {
					invalid = append(invalid, f)
					classes[f.Class] = true
					sawInvalid = true
				}
			}
			if hx.JSON(got) != hx.JSON(wantGot) {
				sig := "handler-input-mismatch"
				if len(got) > len(wantGot) {
					sig = "invalid-frame-reached-handler"
				}
				hx.Fail(t, ev.Failure{Property: "C12", Signature: sig, Clause: "the handler receives exactly the frames that are well-formed valid client messages (EVENT also authentic), once each, in the order sent",
					Case: desc(), Observed: hx.JSON(got), Expected: hx.JSON(wantGot)})
			}
			if len(replies) != len(invalid) {
				var rs []string
				for _, r := range replies {
					rs = append(rs, string(r))
				}
				hx.Fail(t, ev.Failure{Property: "C12", Signature: "rejection-count", Clause: "every frame that is not a valid authentic client message is answered with exactly one rejection",
					Case: desc(), Observed: fmt.Sprintf("%d replies: %s", len(replies), hx.JSON(rs)), Expected: fmt.Sprintf("%d rejections", len(invalid))})
			}
			for i, r := range replies {
				ok, names := isRejection(r)
				if !ok {
					hx.Fail(t, ev.Failure{Property: "C12", Signature: "not-a-rejection", Clause: "the answer to an invalid frame is a NOTICE or a rejecting OK / CLOSED", Case: desc(), Observed: string(r)})
				}
				if names != "" && names != invalid[i].evID && names != invalid[i].subID {
					hx.Fail(t, ev.Failure{Property: "C12", Signature: "rejection-names-other", Clause: "a rejecting OK / CLOSED names the event or subscription of the rejected frame", Case: desc(), Observed: string(r), Expected: invalid[i].evID + invalid[i].subID})
				}
			}
			if nvalid >= 1 && len(classes) >= 2 && validAfterInvalid {
				nontrivial = true
			}

			// output direction
			nout := rapid.IntRange(0, 12).Draw(t, fmt.Sprintf("c%d.nout", ci))
			var outMsgs []mocrelay.ServerMsg
			var want []string
			for i := 0; i < nout; i++ {
				// a handler may hand over the very same message object again (a prebuilt NOTICE, an
				// event it fans out), on this or on a later connection: it reads as it did the first time
				if len(pastMsgs) > 0 && rapid.IntRange(0, 3).Draw(t, fmt.Sprintf("c%d.out%d.again?", ci, i)) == 0 {
					k := rapid.IntRange(0, len(pastMsgs)-1).Draw(t, fmt.Sprintf("c%d.out%d.again", ci, i))
					outMsgs = append(outMsgs, pastMsgs[k])
					want = append(want, pastWant[k])
					col.Label("output:same-object-again")
					continue
				}
				m := gen.ServerMsgValue(t, fmt.Sprintf("c%d.out%d.", ci, i))
				if rapid.IntRange(0, 7).Draw(t, fmt.Sprintf("c%d.out%d.big?", ci, i)) == 0 {
					// also beyond what the relay itself accepts: the size limit is on what it reads
					m = mocrelay.NewServerNoticeMsg(strings.Repeat("n", rapid.IntRange(33000, 150000).Draw(t, fmt.Sprintf("c%d.out%d.biglen", ci, i))))
				}
				if n, is := m.(*mocrelay.ServerNoticeMsg); is && strings.HasPrefix(n.Message, sentinelPrefix) {
					n.Message = "x"
				}
				outMsgs = append(outMsgs, m)
				want = append(want, expectedServerJSON(m))
				pastMsgs = append(pastMsgs, m)
				pastWant = append(pastWant, want[len(want)-1])
			}
			h.setEmit(outMsgs)
			emitSentinel := fmt.Sprintf("%s%d-emit", sentinelPrefix, ci)
			eb, _ := json.Marshal([]string{"CLOSE", emitSentinel})
			if err := c.Write(ctx, websocket.MessageText, eb); err != nil {
				hx.Fail(t, ev.Failure{Property: "C12", Signature: "connection-lost", Clause: "the connection stays usable", Case: desc(), Observed: err.Error()})
			}
			outFrames, err := readUntilNotice(c, emitSentinel)
			if err != nil {
				hx.Fail(t, ev.Failure{Property: "C12", Signature: "output-lost", Clause: "every message the handler emits reaches the client", Case: map[string]any{"emitted": want}, Observed: err.Error()})
			}
			var gotOut []string
			for _, fb := range outFrames {
				cf, err := canonicalFrame(fb)
				if err != nil {
					hx.Fail(t, ev.Failure{Property: "C12", Signature: "output-not-json", Clause: "every emitted message reaches the client as one JSON text frame", Case: map[string]any{"emitted": want}, Observed: fmt.Sprintf("%q: %v", fb, err)})
				}
				gotOut = append(gotOut, cf)
			}
			if hx.JSON(gotOut) != hx.JSON(want) {
				hx.Fail(t, ev.Failure{Property: "C12", Signature: "output-mismatch", Clause: "every message the handler emits reaches the client as one JSON text frame decoding to the same message, in emission order",
					Case: map[string]any{"emitted": want}, Observed: hx.JSON(gotOut), Expected: hx.JSON(want)})
			}
			col.Add("output_messages", int64(nout))
			c.Close(websocket.StatusNormalClosure, "")
			select { // the session is over before the next connection starts
			case <-h.ends:
			case <-time.After(waitLong):
				hx.Fail(t, ev.Failure{Property: "C12", Signature: "connection-lost", Clause: "a session ends when its client closes the connection", Case: map[string]any{"connection": ci}, Observed: "session did not end"})
			}
		}
		col.Case(nontrivial, hx.JSON(allFrames), func() any { return allFrames })
	}
}

// TestC12RegressPingDeadlock is the plain replay of a defect found by TestC12Session
// (fixed in /repo 732255f): with keep-alive pings enabled the write loop waited for a
// pong while the read loop waited for the write loop to take a rejection; the session
// stalled for SendTimeout and was then closed.
func TestC12RegressPingDeadlock(t *testing.T) {
	col := ev.For("C12").SetRule(c12Rule)
	opt := openOptions()
	opt.PingDuration = 2 * time.Millisecond
	opt.SendTimeout = 2 * time.Second
	h := newRecHandler()
	rig := newWSRig(opt, h)
	defer rig.close()
	c, err := dial(rig.url)
	if err != nil {
		t.Fatalf("dial: %v", err)
	}
	defer c.CloseNow()
	startReader(c)
	const n = 1500
	start := time.Now()
	for i := 0; i < n; i++ {
		if err := c.Write(context.Background(), websocket.MessageText, []byte("not json")); err != nil {
			hx.Fail(t, ev.Failure{Property: "C12", Signature: "connection-lost", Clause: "every invalid frame is answered with one rejection and the connection stays usable (keep-alive pings every 2 ms)",
				Case: map[string]any{"frames": n, "ping": "2ms"}, Observed: fmt.Sprintf("write %d failed after %v: %v", i, time.Since(start), err)})
		}
		time.Sleep(50 * time.Microsecond)
	}
	if err := c.Write(context.Background(), websocket.MessageText, []byte(`["CLOSE","`+sentinelPrefix+`ping"]`)); err != nil {
		hx.Fail(t, ev.Failure{Property: "C12", Signature: "connection-lost", Clause: "the connection stays usable", Case: map[string]any{"frames": n, "ping": "2ms"}, Observed: err.Error()})
	}
	replies, err := readUntilNotice(c, sentinelPrefix+"ping")
	if err != nil || len(replies) != n {
		hx.Fail(t, ev.Failure{Property: "C12", Signature: "connection-lost", Clause: "every invalid frame is answered with exactly one rejection and the connection stays usable (keep-alive pings every 2 ms)",
			Case: map[string]any{"frames": n, "ping": "2ms"}, Observed: fmt.Sprintf("%d rejections, err=%v", len(replies), err)})
	}
	col.Label("regression:ping-deadlock")
	col.Case(true, "regress-ping-deadlock", nil)
}

// fanHandler keeps the outgoing channel of every live session and emits on request.
type fanHandler struct {
	mu    sync.Mutex
	sends []chan<- mocrelay.ServerMsg
	ready chan struct{}
}

func (h *fanHandler) ServeNostr(ctx context.Context, send chan<- mocrelay.ServerMsg, recv <-chan mocrelay.ClientMsg) error {
	h.mu.Lock()
	h.sends = append(h.sends, send)
	h.mu.Unlock()
	h.ready <- struct{}{}
	for {
		select {
		case <-ctx.Done():
			return ctx.Err()
		case _, ok := <-recv:
			if !ok {
				return mocrelay.ErrRecvClosed
			}
		}
	}
}

// TestC12FanOut: the same event is emitted to several sessions at the same moment (what a
// router does with every published event), each labelled with that session's subscription
// id. Every client receives one JSON text frame that decodes to its own message.
func TestC12FanOut(t *testing.T) {
	col := ev.For("C12").SetRule(c12Rule)
	rapid.Check(t, func(t *rapid.T) {
		n := rapid.IntRange(2, 8).Draw(t, "sessions")
		rounds := rapid.IntRange(10, 60).Draw(t, "rounds")
		size := rapid.SampledFrom([]int{10, 200, 5000, 120000}).Draw(t, "content_length")
		desc := map[string]any{"mode": "fan-out of one event to several sessions at once", "sessions": n, "rounds": rounds, "content_length": size}
		h := &fanHandler{ready: make(chan struct{}, 64)}
		rig := newWSRig(openOptions(), h)
		defer rig.close()
		conns := make([]*websocket.Conn, n)
		for i := range conns {
			c, err := dial(rig.url)
			if err != nil {
				t.Fatalf("dial: %v", err)
			}
			defer c.CloseNow()
			conns[i] = c
			select {
			case <-h.ready:
			case <-time.After(waitLong):
				t.Fatalf("session %d did not start", i)
			}
		}
		h.mu.Lock()
		sends := append([]chan<- mocrelay.ServerMsg{}, h.sends...)
		h.mu.Unlock()
		for r := 0; r < rounds; r++ {
			e := &mocrelay.Event{Kind: 1, CreatedAt: int64(1700000000 + r), Tags: []mocrelay.Tag{{"t", fmt.Sprint("round", r)}}, Content: fmt.Sprint("round ", r, " ") + strings.Repeat("f", size)}
			gen.Sign(e, gen.Keys[r%gen.NKeys])
			gate := make(chan struct{})
			var wg sync.WaitGroup
			want := make([]string, len(sends))
			for i, sch := range sends {
				msg := mocrelay.NewServerEventMsg(fmt.Sprint("sub-", i, "-", r), e)
				want[i] = expectedServerJSON(msg)
				wg.Add(1)
				go func(sch chan<- mocrelay.ServerMsg) {
					defer wg.Done()
					<-gate
					select {
					case sch <- msg:
					case <-time.After(waitLong):
					}
				}(sch)
			}
			close(gate)
			// which connection belongs to which session is not known: every client must get
			// exactly one of the expected frames and every expected frame must go to one client
			got := map[string]int{}
			for i, c := range conns {
				ctx, cancel := context.WithTimeout(context.Background(), waitLong)
				typ, b, err := c.Read(ctx)
				cancel()
				if err != nil || typ != websocket.MessageText {
					hx.Fail(t, ev.Failure{Property: "C12", Signature: "output-lost", Clause: "every message the handler emits reaches the client", Case: desc, Observed: fmt.Sprintf("round %d, client %d: %v", r, i, err)})
				}
				cf, err := canonicalFrame(b)
				if err != nil {
					hx.Fail(t, ev.Failure{Property: "C12", Signature: "output-not-json", Clause: "every emitted message reaches the client as one JSON text frame", Case: desc, Observed: fmt.Sprintf("round %d, client %d: %q", r, i, firstBytes(b, 200))})
				}
				got[cf]++
			}
			wg.Wait()
			for _, w := range want {
				if got[w] != 1 {
					var other []string
					for g := range got {
						other = append(other, firstBytes([]byte(g), 120))
					}
					sort.Strings(other)
					hx.Fail(t, ev.Failure{Property: "C12", Signature: "output-mismatch", Clause: "every message the handler emits reaches the client as one JSON text frame decoding to the same message (the same event emitted to several sessions at the same moment)",
						Case: desc, Observed: fmt.Sprintf("round %d: frames received: %s", r, hx.JSON(other)), Expected: firstBytes([]byte(w), 120)})
				}
			}
		}
		col.Label("mode:fan-out")
		col.Case(true, hx.JSON(desc), func() any { return desc })
	})
}

func firstBytes(b []byte, n int) string {
	if len(b) > n {
		return string(b[:n]) + "..."
	}
	return string(b)
}

// TestC12SlowReader: a client on a slow link. The handler emits several messages of many
// megabytes; the client lets each of them wait for a good part of the send timeout before it
// reads it (never longer, so no write times out), and sends an invalid frame in between. The
// rejection is queued behind the handler's messages for longer than one send timeout; it
// must arrive all the same. If the connection is lost (a loaded machine may stretch a stall
// past the send timeout) the case decides nothing.
func TestC12SlowReader(t *testing.T) {
	col := ev.For("C12").SetRule(c12Rule)
	rapid.Check(t, func(t *rapid.T) {
		opt := openOptions()
		opt.SendTimeout = time.Duration(rapid.SampledFrom([]int{1000, 1400}).Draw(t, "send_timeout_ms")) * time.Millisecond
		stall := opt.SendTimeout * 7 / 10
		nmsg := rapid.IntRange(3, 4).Draw(t, "messages")
		desc := map[string]any{"send_timeout": opt.SendTimeout.String(), "stall_before_each_read": stall.String(), "handler_messages": nmsg, "message_bytes": 8 << 20}
		h := newRecHandler()
		rig := newWSRig(opt, h)
		defer rig.close()
		c, err := dial(rig.url)
		if err != nil {
			t.Fatalf("dial: %v", err)
		}
		defer c.CloseNow()
		var out []mocrelay.ServerMsg
		for i := 0; i < nmsg; i++ {
			out = append(out, mocrelay.NewServerNoticeMsg(fmt.Sprint("big", i, " ")+strings.Repeat("b", 8<<20)))
		}
		h.setEmit(out)
		ctx := context.Background()
		inconclusive := func(why string) {
			col.Exclude("slow-reader:connection-lost")
			t.Skipf("decides nothing: %s", why)
		}
		if err := c.Write(ctx, websocket.MessageText, []byte(`["CLOSE","`+sentinelPrefix+`slow-emit"]`)); err != nil {
			inconclusive(err.Error())
		}
		time.Sleep(100 * time.Millisecond) // the first message fills the socket buffers; the handler waits with the second
		if err := c.Write(ctx, websocket.MessageText, []byte(`this is not json`)); err != nil {
			inconclusive(err.Error())
		}
		var small []string
		read := func() (string, bool) {
			rctx, cancel := context.WithTimeout(ctx, waitLong)
			defer cancel()
			_, b, err := c.Read(rctx)
			if err != nil {
				return err.Error(), false
			}
			if len(b) < 1000 {
				small = append(small, string(b))
			}
			return "", true
		}
		big := 0
		for big < nmsg {
			time.Sleep(stall)
			for {
				n := len(small)
				if why, ok := read(); !ok {
					inconclusive(why)
				}
				if len(small) == n {
					big++
					break
				}
			}
		}
		// the emit sentinel's NOTICE ends the output; then a last round trip shows the connection alive
		for len(small) == 0 || !strings.Contains(small[len(small)-1], "slow-emit") {
			if why, ok := read(); !ok {
				inconclusive(why)
			}
		}
		rej := 0
		for _, s := range small[:len(small)-1] {
			if ok, _ := isRejection([]byte(s)); ok {
				rej++
			}
		}
		if rej != 1 {
			hx.Fail(t, ev.Failure{Property: "C12", Signature: "rejection-count", Clause: "every frame that is not a valid client message is answered with exactly one rejection (a slow reader: the rejection waits behind large handler messages for longer than the send timeout, no single write times out)",
				Case: desc, Observed: fmt.Sprintf("%d rejections; small frames received: %s", rej, hx.JSON(small)), Expected: "1 rejection"})
		}
		col.Label("mode:slow-reader")
		col.Case(true, hx.JSON(desc), func() any { return desc })
	})
}

// TestC12SteadyReader: a long answer to a client that keeps reading, a few milliseconds per
// frame. The whole run of output takes several send timeouts, but no single write is blocked
// for anywhere near the send timeout, so nothing may be dropped: every message arrives, in
// order. (The send timeout bounds one blocked write, not an uninterrupted run of output.) A case
// in which the reader itself was held up for more than a third of the send timeout between two
// reads decides nothing.
func TestC12SteadyReader(t *testing.T) {
	col := ev.For("C12").SetRule(c12Rule)
	rapid.Check(t, func(t *rapid.T) {
		opt := openOptions()
		opt.SendTimeout = time.Duration(rapid.SampledFrom([]int{600, 900}).Draw(t, "send_timeout_ms")) * time.Millisecond
		// pings stay at their default of one minute: a ping's pong queues behind the buffered
		// output, and the relay gives a pong the send timeout to arrive - with seconds of output
		// in the socket buffers a fast ping fails by design, which is not what is judged here
		perFrame := time.Duration(rapid.IntRange(2, 5).Draw(t, "reader_ms_per_frame")) * time.Millisecond
		// enough output that the writer is kept busy for well over the send timeout even though the
		// socket buffers (a few megabytes on loopback) let it run ahead of the reader
		size := rapid.SampledFrom([]int{48 << 10, 64 << 10}).Draw(t, "message_bytes")
		nmsg := int(3*opt.SendTimeout/perFrame) + (12<<20)/size // the buffers on the way may hold ~10 MB before a write blocks at all
		desc := map[string]any{"mode": "steady-reader", "send_timeout": opt.SendTimeout.String(), "ping": opt.PingDuration.String(), "reader_per_frame": perFrame.String(), "handler_messages": nmsg, "message_bytes": size}
		// several goroutines of the handler emit their share each: the next message is always
		// waiting when the relay has written one, whatever the scheduler does
		streams := rapid.IntRange(2, 4).Draw(t, "emitting_goroutines")
		desc["emitting_goroutines"] = streams
		h := &steadyHandler{streams: streams, perStream: (nmsg + streams - 1) / streams, pad: strings.Repeat("s", size)}
		nmsg = h.perStream * streams
		rig := newWSRig(opt, h)
		defer rig.close()
		c, err := dial(rig.url)
		if err != nil {
			t.Fatalf("dial: %v", err)
		}
		defer c.CloseNow()
		ctx := context.Background()
		if err := c.Write(ctx, websocket.MessageText, []byte(`["CLOSE","`+sentinelPrefix+`steady-emit"]`)); err != nil {
			t.Skipf("decides nothing: %v", err)
		}
		next, worstGap := 0, time.Duration(0)
		nextOf := make([]int, streams)
		t0 := time.Now()
		lastRead := t0
		for {
			rctx, cancel := context.WithTimeout(ctx, waitLong)
			_, b, err := c.Read(rctx)
			cancel()
			// the time from one completed read to the next (pause plus waiting for the frame): output is
			// always pending, so a long one means this process was held up, the relay's timers included
			if g := time.Since(lastRead); g > worstGap && err == nil {
				worstGap = g
			}
			lastRead = time.Now()
			if err != nil {
				if worstGap > opt.SendTimeout/3 {
					col.Exclude("steady-reader:reader-held-up")
					t.Skipf("decides nothing: the reader was held up for %v", worstGap)
				}
				hx.Fail(t, ev.Failure{Property: "C12", Signature: "output-lost-steady-reader", Clause: "every message the handler emits reaches the client, in emission order (the client reads steadily; no write was blocked for the send timeout)",
					Case: desc, Observed: fmt.Sprintf("connection lost after %d of %d messages, %v after the start: %v (longest pause of the reader %v)", next, nmsg, time.Since(t0).Round(time.Millisecond), err, worstGap), Expected: "all messages"})
			}
			if len(b) < 1000 {
				if strings.Contains(string(b), "steady-emit") {
					break
				}
				continue
			}
			var g, i int
			if _, err := fmt.Sscanf(string(b[:40]), `["NOTICE","steady %d %d `, &g, &i); err != nil || g < 0 || g >= streams || i != nextOf[g] {
				hx.Fail(t, ev.Failure{Property: "C12", Signature: "output-order", Clause: "every message the handler emits reaches the client, in emission order (per emitting goroutine)", Case: desc,
					Observed: "frame starts with " + string(b[:40]), Expected: fmt.Sprintf("the next message of one of the %d streams (%v)", streams, nextOf)})
			}
			nextOf[g]++
			next++
			time.Sleep(perFrame)
		}
		if next != nmsg {
			hx.Fail(t, ev.Failure{Property: "C12", Signature: "output-lost-steady-reader", Clause: "every message the handler emits reaches the client", Case: desc, Observed: fmt.Sprintf("%d of %d messages before the end marker", next, nmsg), Expected: "all"})
		}
		col.Label("mode:steady-reader")
		col.Case(time.Since(t0) > opt.SendTimeout, hx.JSON(desc), func() any { return desc })
	})
}

// steadyHandler: on the sentinel CLOSE, `streams` goroutines emit perStream large NOTICEs each
// ("steady <stream> <index> <padding>"); when all are done the sentinel is echoed as a NOTICE.
type steadyHandler struct {
	streams, perStream int
	pad                string
}

func (h *steadyHandler) ServeNostr(ctx context.Context, send chan<- mocrelay.ServerMsg, recv <-chan mocrelay.ClientMsg) error {
	for {
		select {
		case <-ctx.Done():
			return ctx.Err()
		case m, ok := <-recv:
			if !ok {
				return mocrelay.ErrRecvClosed
			}
			c, is := m.(*mocrelay.ClientCloseMsg)
			if !is {
				continue
			}
			var wg sync.WaitGroup
			for g := 0; g < h.streams; g++ {
				wg.Add(1)
				go func(g int) {
					defer wg.Done()
					for i := 0; i < h.perStream; i++ {
						select {
						case send <- mocrelay.NewServerNoticeMsg(fmt.Sprintf("steady %d %d %s", g, i, h.pad)):
						case <-ctx.Done():
							return
						}
					}
				}(g)
			}
			wg.Wait()
			select {
			case send <- mocrelay.NewServerNoticeMsg(c.SubscriptionID):
			case <-ctx.Done():
				return ctx.Err()
			}
		}
	}
}

// slowRec takes a little time per message, as a handler that stores does.
type slowRec struct {
	mu    sync.Mutex
	got   []string
	delay time.Duration
	ended chan struct{}
}

func (h *slowRec) ServeNostr(ctx context.Context, send chan<- mocrelay.ServerMsg, recv <-chan mocrelay.ClientMsg) error {
	defer func() { h.ended <- struct{}{} }()
	for {
		select {
		case <-ctx.Done():
			return ctx.Err()
		case m, ok := <-recv:
			if !ok {
				return mocrelay.ErrRecvClosed
			}
			time.Sleep(h.delay)
			if c, is := m.(*mocrelay.ClientCloseMsg); is {
				h.mu.Lock()
				h.got = append(h.got, c.SubscriptionID)
				h.mu.Unlock()
			}
		}
	}
}

// TestC12CloseAfterBurst: a client sends a burst of valid frames and closes the connection
// properly right behind them, without waiting for anything. Every frame was sent before the
// close, so the handler receives every one of them, once each, in order - however slow it is.
func TestC12CloseAfterBurst(t *testing.T) {
	col := ev.For("C12").SetRule(c12Rule)
	rapid.Check(t, func(t *rapid.T) {
		n := rapid.IntRange(2, 40).Draw(t, "frames")
		delay := time.Duration(rapid.SampledFrom([]int{0, 200, 1000, 3000}).Draw(t, "handler_delay_us")) * time.Microsecond
		desc := map[string]any{"mode": "burst of valid frames, then a proper close", "frames": n, "handler_delay": delay.String()}
		h := &slowRec{delay: delay, ended: make(chan struct{}, 1)}
		rig := newWSRig(openOptions(), h)
		defer rig.close()
		c, err := dial(rig.url)
		if err != nil {
			t.Fatalf("dial: %v", err)
		}
		defer c.CloseNow()
		startReader(c)
		var want []string
		for i := 0; i < n; i++ {
			id := fmt.Sprint("burst-", i)
			want = append(want, id)
			if err := c.Write(context.Background(), websocket.MessageText, []byte(`["CLOSE","`+id+`"]`)); err != nil {
				hx.Fail(t, ev.Failure{Property: "C12", Signature: "connection-lost", Clause: "the connection takes valid frames", Case: desc, Observed: err.Error()})
			}
		}
		go c.Close(websocket.StatusNormalClosure, "")
		select {
		case <-h.ended:
		case <-time.After(waitLong):
			hx.Fail(t, ev.Failure{Property: "C12", Signature: "connection-lost", Clause: "the session ends after the client closed the connection", Case: desc, Observed: "handler still running"})
		}
		h.mu.Lock()
		got := append([]string{}, h.got...)
		h.mu.Unlock()
		if hx.JSON(got) != hx.JSON(want) {
			hx.Fail(t, ev.Failure{Property: "C12", Signature: "handler-input-mismatch", Clause: "the handler receives exactly the frames that are well-formed valid client messages, once each, in the order sent (burst followed by a proper close)",
				Case: desc, Observed: fmt.Sprintf("%d of %d received: %s", len(got), n, hx.JSON(got)), Expected: "all of them, in order"})
		}
		col.Label("mode:close-after-burst")
		col.Case(true, hx.JSON(desc), func() any { return desc })
	})
}
