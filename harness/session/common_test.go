package session

import (
	"context"
	"encoding/json"
	"fmt"
	"io"
	"log/slog"
	"net/http/httptest"
	"os"
	"strings"
	"sync"
	"testing"
	"time"

	"github.com/coder/websocket"
	"github.com/high-moctane/mocrelay"

	"verifharness/ev"
	"verifharness/gen"
)

func TestMain(m *testing.M) {
	code := m.Run()
	ev.Flush()
	os.Exit(code)
}

const (
	sentinelPrefix = "~verif-sentinel-"
	waitLong       = 20 * time.Second
)

// recHandler records what reaches the handler behind the relay, answers
// sentinel CLOSEs with a NOTICE marker and emits queued server messages when
// asked by an "emit" sentinel.
type recHandler struct {
	mu    sync.Mutex
	got   []string // canonical JSON (gen.Norm) of received client messages, per session id
	emitQ []mocrelay.ServerMsg
	ends  chan struct{}
}

func newRecHandler() *recHandler { return &recHandler{ends: make(chan struct{}, 1024)} }

func (h *recHandler) take() []string {
	h.mu.Lock()
	defer h.mu.Unlock()
	out := h.got
	h.got = nil
	return out
}

func (h *recHandler) setEmit(msgs []mocrelay.ServerMsg) {
	h.mu.Lock()
	defer h.mu.Unlock()
	h.emitQ = msgs
}

func (h *recHandler) ServeNostr(ctx context.Context, send chan<- mocrelay.ServerMsg, recv <-chan mocrelay.ClientMsg) error {
	defer func() { h.ends <- struct{}{} }()
	out := func(m mocrelay.ServerMsg) bool {
		select {
		case send <- m:
			return true
		case <-ctx.Done():
			return false
		}
	}
	for {
		select {
		case <-ctx.Done():
			return ctx.Err()
		case m, ok := <-recv:
			if !ok {
				return mocrelay.ErrRecvClosed
			}
			if c, is := m.(*mocrelay.ClientCloseMsg); is && strings.HasPrefix(c.SubscriptionID, sentinelPrefix) {
				if strings.HasSuffix(c.SubscriptionID, "-emit") {
					h.mu.Lock()
					q := h.emitQ
					h.emitQ = nil
					h.mu.Unlock()
					for _, sm := range q {
						if !out(sm) {
							return ctx.Err()
						}
					}
				}
				if !out(mocrelay.NewServerNoticeMsg(c.SubscriptionID)) {
					return ctx.Err()
				}
				continue
			}
			b, _ := json.Marshal(gen.Norm(m))
			h.mu.Lock()
			h.got = append(h.got, string(b))
			h.mu.Unlock()
		}
	}
}

type wsRig struct {
	srv   *httptest.Server
	relay *mocrelay.Relay
	h     *recHandler
	url   string
}

func newWSRig(opt *mocrelay.RelayOption, h mocrelay.Handler) *wsRig {
	r := &wsRig{}
	r.relay = mocrelay.NewRelay(h, opt)
	r.srv = httptest.NewServer(r.relay)
	r.url = "ws" + strings.TrimPrefix(r.srv.URL, "http")
	return r
}

func (r *wsRig) close() {
	r.srv.CloseClientConnections()
	r.srv.Close()
}

// discardLogger logs at debug level into nothing (the relay formats its log arguments all the same).
func discardLogger() *slog.Logger {
	return slog.New(slog.NewTextHandler(io.Discard, &slog.HandlerOptions{Level: slog.LevelDebug}))
}

func openOptions() *mocrelay.RelayOption {
	o := mocrelay.NewDefaultRelayOption()
	o.RecvRateLimitRate = 1e9
	o.RecvRateLimitBurst = 1 << 30
	return o
}

func dial(url string) (*websocket.Conn, error) {
	ctx, cancel := context.WithTimeout(context.Background(), waitLong)
	defer cancel()
	c, _, err := websocket.Dial(ctx, url, nil)
	if err != nil {
		return nil, err
	}
	c.SetReadLimit(-1)
	return c, nil
}

type wsFrame struct {
	typ websocket.MessageType
	b   []byte
	err error
}

// readers: connections whose frames are read by a goroutine of their own (as a real
// client does: it keeps reading while it writes, which also answers the relay's pings).
var readers sync.Map // *websocket.Conn -> chan wsFrame

func startReader(c *websocket.Conn) {
	ch := make(chan wsFrame, 4096)
	readers.Store(c, ch)
	go func() {
		for {
			typ, b, err := c.Read(context.Background())
			ch <- wsFrame{typ, b, err}
			if err != nil {
				readers.Delete(c)
				return
			}
		}
	}()
}

// readUntilNotice reads text frames until a NOTICE with the given text arrives.
func readUntilNotice(c *websocket.Conn, text string) (frames [][]byte, err error) {
	ctx, cancel := context.WithTimeout(context.Background(), waitLong)
	defer cancel()
	chv, concurrent := readers.Load(c)
	for {
		var typ websocket.MessageType
		var b []byte
		var err error
		if concurrent {
			select {
			case f := <-chv.(chan wsFrame):
				typ, b, err = f.typ, f.b, f.err
			case <-ctx.Done():
				err = ctx.Err()
			}
		} else {
			typ, b, err = c.Read(ctx)
		}
		if err != nil {
			return frames, fmt.Errorf("read: %w (after %d frames)", err, len(frames))
		}
		if typ != websocket.MessageText {
			return frames, fmt.Errorf("server sent a non-text frame")
		}
		var a []any
		if json.Unmarshal(b, &a) == nil && len(a) == 2 && a[0] == "NOTICE" && a[1] == text {
			return frames, nil
		}
		frames = append(frames, b)
	}
}
