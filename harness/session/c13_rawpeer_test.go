package session

import (
	"bufio"
	"encoding/binary"
	"fmt"
	"io"
	"net"
	"strings"
	"testing"
	"time"

	"pgregory.net/rapid"

	"verifharness/ev"
	"verifharness/hx"
)

// rawPeer is a WebSocket client written against the socket, so that the test decides when a
// frame is read and when a pong is sent (client libraries answer pings on their own).
type rawPeer struct {
	c net.Conn
	r *bufio.Reader
}

func dialRaw(wsURL string) (*rawPeer, error) {
	host := strings.TrimPrefix(wsURL, "ws://")
	c, err := net.DialTimeout("tcp", host, 5*time.Second)
	if err != nil {
		return nil, err
	}
	req := "GET / HTTP/1.1\r\nHost: " + host + "\r\nUpgrade: websocket\r\nConnection: Upgrade\r\nSec-WebSocket-Key: dGhlIHNhbXBsZSBub25jZQ==\r\nSec-WebSocket-Version: 13\r\n\r\n"
	if _, err := io.WriteString(c, req); err != nil {
		c.Close()
		return nil, err
	}
	p := &rawPeer{c: c, r: bufio.NewReaderSize(c, 4096)}
	c.SetReadDeadline(time.Now().Add(5 * time.Second))
	status, err := p.r.ReadString('\n')
	if err != nil || !strings.Contains(status, "101") {
		c.Close()
		return nil, fmt.Errorf("upgrade refused: %q %v", status, err)
	}
	for {
		line, err := p.r.ReadString('\n')
		if err != nil {
			c.Close()
			return nil, err
		}
		if line == "\r\n" {
			break
		}
	}
	c.SetReadDeadline(time.Time{})
	return p, nil
}

// writeFrame sends one masked frame (mask 0: the payload goes out as it is).
func (p *rawPeer) writeFrame(opcode byte, payload []byte) error {
	if len(payload) > 125 {
		return fmt.Errorf("rawPeer writes short frames only")
	}
	b := append([]byte{0x80 | opcode, 0x80 | byte(len(payload)), 0, 0, 0, 0}, payload...)
	_, err := p.c.Write(b)
	return err
}

// readFrame reads one server frame (unmasked) and returns its opcode and payload.
func (p *rawPeer) readFrame() (byte, []byte, error) {
	var h [2]byte
	if _, err := io.ReadFull(p.r, h[:]); err != nil {
		return 0, nil, err
	}
	n := uint64(h[1] & 0x7f)
	switch n {
	case 126:
		var x [2]byte
		if _, err := io.ReadFull(p.r, x[:]); err != nil {
			return 0, nil, err
		}
		n = uint64(binary.BigEndian.Uint16(x[:]))
	case 127:
		var x [8]byte
		if _, err := io.ReadFull(p.r, x[:]); err != nil {
			return 0, nil, err
		}
		n = binary.BigEndian.Uint64(x[:])
	}
	payload := make([]byte, n)
	if _, err := io.ReadFull(p.r, payload); err != nil {
		return 0, nil, err
	}
	return h[0] & 0x0f, payload, nil
}

// TestC13WebSocketLatePong: the peer reads until it has seen a keep-alive ping, then stops
// reading for good; the relay's next writes fill the socket buffers and one of them blocks. While
// that write is blocked the peer answers the ping it still owes (it does not read anything for
// that). The blocked write is judged on its own: the peer is dropped once it has been blocked
// for the send timeout - an answered ping says nothing about a write that is stuck.
func TestC13WebSocketLatePong(t *testing.T) {
	col := ev.For("C13").SetRule(c13Rule)
	rapid.Check(t, func(t *rapid.T) {
		opt := openOptions()
		opt.SendTimeout = time.Duration(rapid.SampledFrom([]int{1200, 1600}).Draw(t, "send_timeout_ms")) * time.Millisecond
		opt.PingDuration = time.Duration(rapid.SampledFrom([]int{10, 30, 60}).Draw(t, "ping_ms")) * time.Millisecond
		pongDelay := time.Duration(rapid.IntRange(0, 300).Draw(t, "pong_after_stall_ms")) * time.Millisecond
		desc := map[string]any{"mode": "late-pong", "send_timeout_ms": opt.SendTimeout.Milliseconds(), "ping": opt.PingDuration.String(), "pong_sent_after_the_write_blocked_ms": pongDelay.Milliseconds()}
		f := &flooder{started: make(chan struct{}), ended: make(chan time.Time, 1)}
		rig := newWSRig(opt, f)
		defer rig.close()
		p, err := dialRaw(rig.url)
		if err != nil {
			t.Skipf("decides nothing: %v", err)
		}
		defer p.c.Close()
		if err := p.writeFrame(0x1, []byte(`["CLOSE","go"]`)); err != nil {
			t.Skipf("decides nothing: %v", err)
		}
		<-f.started
		// read the flood until a ping shows up, then never read again
		var ping []byte
		p.c.SetReadDeadline(time.Now().Add(5 * time.Second))
		for ping == nil {
			op, payload, err := p.readFrame()
			if err != nil {
				t.Skipf("decides nothing: no ping within 5 s: %v", err)
			}
			if op == 0x9 {
				ping = payload
			}
		}
		if !f.waitBlocked() {
			t.Skip("decides nothing: the flood did not stall")
		}
		t0 := time.Now() // the write has been blocked for 150-200 ms already
		time.Sleep(pongDelay)
		if err := p.writeFrame(0xA, ping); err != nil {
			t.Skipf("decides nothing: %v", err)
		}
		bound := opt.SendTimeout + 3*time.Second
		select {
		case <-f.ended:
			col.Label("dropped:late-pong")
			col.Add("drop_latency_ms_sum", time.Since(t0).Milliseconds())
		case <-time.After(bound):
			hx.Fail(t, ev.Failure{Property: "C13", Signature: "stalled-peer-not-dropped", Clause: "a WebSocket peer that stops reading is dropped once a write has been blocked for the send timeout, whatever the other relay options are (the peer answered an outstanding ping while the write was blocked)",
				Case: desc, Observed: fmt.Sprintf("handler session still running %v after the write had blocked", bound), Expected: "ended within send timeout + 3 s"})
		}
		col.Case(true, hx.JSON(desc), func() any { return desc })
	})
}
