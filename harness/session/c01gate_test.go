package session

import (
	"context"
	"encoding/json"
	"fmt"
	"runtime"
	"strings"
	"testing"

	"github.com/coder/websocket"
	"github.com/high-moctane/mocrelay"
	"pgregory.net/rapid"

	"verifharness/ev"
	"verifharness/gen"
	"verifharness/hx"
)

// TestC01Gate is C01's third observation point: the admission gate of a real
// relay. Correctly signed events with arbitrary text in content and tag values
// (written by the harness's own JSON writer, escaped spellings included) must
// reach the handler behind Relay.ServeHTTP; an altered copy must not.
const c01GateRule = "gate: per case one WebSocket connection to a relay with a recording handler, 1-6 EVENT frames each carrying a freshly signed event (content and tag values over all Unicode scalar values plus snippets that look like JSON syntax, member names or escapes) or an altered copy of one (content, created_at, kind, tag, pubkey, id digit, sig digit); the handler must have received exactly the genuine ones, in order, equal in all seven fields; non-trivial = at least one genuine event with a character outside printable ASCII or a backslash and at least one altered copy; distinct by hash of the frames ; concurrent twins: 3-8 connections to one relay send, at the same moment and for 20-60 rounds, one or two genuine copies of a freshly signed event and copies with the same id whose signature, content or created_at was altered: exactly the genuine copies reach the handler"

func TestC01Gate(t *testing.T) {
	col := ev.For("C01").SetRule(c01GateRule)
	rapid.Check(t, func(t *rapid.T) {
		h := newRecHandler()
		opt := openOptions()
		if rapid.Bool().Draw(t, "logger") {
			opt.Logger = discardLogger()
		}
		rig := newWSRig(opt, h)
		defer rig.close()
		c, err := dial(rig.url)
		if err != nil {
			t.Fatalf("dial: %v", err)
		}
		defer c.CloseNow()
		startReader(c)
		n := rapid.IntRange(1, 6).Draw(t, "n")
		var texts []string
		var want []string
		var kinds []string
		special, altered := false, false
		for i := 0; i < n; i++ {
			lab := fmt.Sprintf("e%d.", i)
			e := &mocrelay.Event{Kind: gen.AnyKind().Draw(t, lab+"kind"), CreatedAt: rapid.Int64Range(0, 1<<40).Draw(t, lab+"ts"), Tags: []mocrelay.Tag{}}
			for j, nt := 0, rapid.IntRange(0, 3).Draw(t, lab+"ntags"); j < nt; j++ {
				name := rapid.OneOf(rapid.SampledFrom([]string{"e", "p", "t", "é", "日", "😀"}), gen.UnicodeString(4)).Draw(t, fmt.Sprintf("%st%d.name", lab, j))
				if name == "" {
					name = "x"
				}
				tag := mocrelay.Tag{name}
				for k, ne := 0, rapid.IntRange(0, 2).Draw(t, fmt.Sprintf("%st%d.n", lab, j)); k < ne; k++ {
					tag = append(tag, gen.UnicodeString(8).Draw(t, fmt.Sprintf("%st%d.%d", lab, j, k)))
				}
				e.Tags = append(e.Tags, tag)
			}
			e.Content = gen.UnicodeString(24).Draw(t, lab+"content")
			if rapid.IntRange(0, 5).Draw(t, lab+"long?") == 0 {
				// frames of several kilobytes whose multi-byte characters / escapes fall on every
				// alignment to a 4096-byte block
				unit := rapid.SampledFrom([]string{"😀", "\n", "漢", "é", "x", "\"", "😀\n"}).Draw(t, lab+"longunit")
				e.Content = strings.Repeat("s", rapid.IntRange(0, 7).Draw(t, lab+"longshift")) + strings.Repeat(unit, rapid.IntRange(1100, 5000).Draw(t, lab+"longlen"))
			}
			gen.Sign(e, gen.Keys[rapid.IntRange(0, gen.NKeys-1).Draw(t, lab+"key")])
			x := gen.CloneEvent(e)
			how := rapid.SampledFrom([]string{"genuine", "genuine", "genuine", "content", "created_at", "kind", "tag", "pubkey", "id-digit", "sig-digit", "pubkey-off-curve", "sig-r-out-of-range", "utf8-substitution"}).Draw(t, lab+"how")
			if how == "utf8-substitution" {
				// signed over U+FFFD; the wire text carries an invalid byte in its place
				e.Content += "\ufffd"
				gen.Sign(e, gen.Keys[0])
				x = gen.CloneEvent(e)
			}
			switch how {
			case "content":
				x.Content += "!"
			case "created_at":
				x.CreatedAt++
			case "kind":
				x.Kind = (x.Kind + 1) % 65536
			case "tag":
				x.Tags = append(x.Tags, mocrelay.Tag{"t", "added"})
			case "pubkey":
				for _, kk := range gen.Keys {
					if kk.Pub != x.Pubkey {
						x.Pubkey = kk.Pub
						break
					}
				}
			case "id-digit":
				x.ID = flipHex(x.ID, rapid.IntRange(0, 63).Draw(t, lab+"pos"))
			case "sig-digit":
				x.Sig = flipHex(x.Sig, rapid.IntRange(0, 127).Draw(t, lab+"pos"))
			case "pubkey-off-curve":
				x.Pubkey = rapid.SampledFrom(gen.OffCurvePubkeys).Draw(t, lab+"off")
				x.ID = gen.ComputeID(x)
			case "sig-r-out-of-range":
				x.Sig = gen.FieldPrimeHex + x.Sig[64:]
			}
			doc := gen.JArr{gen.JStr("EVENT"), gen.WireEventDoc(t, x, lab+"doc.")}
			text := gen.Render(doc, &gen.RenderOpts{T: t, EscapeVar: rapid.IntRange(0, 3).Draw(t, lab+"esc") == 0})
			if how == "utf8-substitution" {
				text = strings.Replace(gen.Render(doc, nil), "\xef\xbf\xbd", "\xff", 1)
			}
			texts = append(texts, text)
			kinds = append(kinds, how)
			if how == "genuine" {
				b, _ := json.Marshal(gen.Norm(&mocrelay.ClientEventMsg{Event: e}))
				want = append(want, string(b))
				for _, r := range e.Content + fmt.Sprint(e.Tags) {
					if r < 0x20 || r > 0x7e || r == '\\' {
						special = true
					}
				}
			} else {
				altered = true
			}
		}
		desc := func() any { return map[string]any{"frames": texts, "kinds": kinds} }
		ctx := context.Background()
		for _, tx := range texts {
			if err := c.Write(ctx, websocket.MessageText, []byte(tx)); err != nil {
				hx.Fail(t, ev.Failure{Property: "C01", Signature: "gate-connection-lost", Clause: "the connection accepts EVENT frames", Case: desc(), Observed: err.Error()})
			}
		}
		sentinel := sentinelPrefix + "c01"
		if err := c.Write(ctx, websocket.MessageText, []byte(`["CLOSE","`+sentinel+`"]`)); err != nil {
			hx.Fail(t, ev.Failure{Property: "C01", Signature: "gate-connection-lost", Clause: "the connection accepts frames", Case: desc(), Observed: err.Error()})
		}
		if _, err := readUntilNotice(c, sentinel); err != nil {
			hx.Fail(t, ev.Failure{Property: "C01", Signature: "gate-connection-lost", Clause: "the connection stays usable after EVENT frames", Case: desc(), Observed: err.Error()})
		}
		got := h.take()
		if hx.JSON(got) != hx.JSON(want) {
			hx.Fail(t, ev.Failure{Property: "C01", Signature: "gate-authenticity", Clause: "exactly the correctly signed events reach the handler behind the relay (every correctly signed event is reported authentic, an altered one is not)",
				Case: desc(), Observed: hx.JSON(got), Expected: hx.JSON(want)})
		}
		col.Label("path:relay-gate")
		col.Case(special && altered, hx.JSON(texts), desc)
	})
}

// TestC01TwinsGate: the same signed event and copies of it that differ only in the
// signature (same id) arrive on several connections of one relay at the same moment. The
// verdict on one frame must not depend on what another connection is sending: the genuine
// copies reach the handler, the altered ones never do. Sequential traffic cannot tell a
// verdict computed per frame from one shared between frames that look alike.
func TestC01TwinsGate(t *testing.T) {
	col := ev.For("C01").SetRule(c01GateRule)
	rapid.Check(t, func(t *rapid.T) {
		h := newRecHandler()
		rig := newWSRig(openOptions(), h)
		defer rig.close()
		nc := rapid.IntRange(3, 8).Draw(t, "connections")
		rounds := rapid.IntRange(20, 60).Draw(t, "rounds")
		ngenuine := rapid.IntRange(1, 2).Draw(t, "genuine_copies")
		alter := rapid.SampledFrom([]string{"sig-digit", "sig-digit", "content", "created_at"}).Draw(t, "alteration")
		desc := map[string]any{"mode": "concurrent-twins", "connections": nc, "rounds": rounds, "genuine_copies_per_round": ngenuine, "alteration": alter}
		conns := make([]*websocket.Conn, nc)
		for i := range conns {
			c, err := dial(rig.url)
			if err != nil {
				t.Fatalf("dial: %v", err)
			}
			defer c.CloseNow()
			startReader(c)
			conns[i] = c
		}
		ctx := context.Background()
		for r := 0; r < rounds; r++ {
			e := &mocrelay.Event{Kind: 1, CreatedAt: int64(1700000000 + r), Tags: []mocrelay.Tag{}, Content: fmt.Sprintf("twin %d", r)}
			gen.Sign(e, gen.Keys[r%gen.NKeys])
			texts := make([]string, nc)
			for i := range texts {
				x := gen.CloneEvent(e)
				if (i+r)%nc >= ngenuine {
					switch alter {
					case "sig-digit":
						x.Sig = flipHex(x.Sig, (i*17+r)%128)
					case "content": // same id and signature, another content
						x.Content += "!"
					case "created_at":
						x.CreatedAt++
					}
				}
				b, _ := json.Marshal([]any{"EVENT", x})
				texts[i] = string(b)
			}
			gate := make(chan struct{})
			errs := make(chan error, nc)
			for i, c := range conns {
				go func(i int, c *websocket.Conn) {
					<-gate
					for y := 0; y < (i*7+r)%23; y++ { // stagger by a few scheduler yields
						runtime.Gosched()
					}
					errs <- c.Write(ctx, websocket.MessageText, []byte(texts[i]))
				}(i, c)
			}
			close(gate)
			for range conns {
				if err := <-errs; err != nil {
					hx.Fail(t, ev.Failure{Property: "C01", Signature: "gate-connection-lost", Clause: "the connection accepts EVENT frames", Case: desc, Observed: err.Error()})
				}
			}
			sentinel := fmt.Sprintf("%stwins%d", sentinelPrefix, r)
			for _, c := range conns {
				if err := c.Write(ctx, websocket.MessageText, []byte(`["CLOSE","`+sentinel+`"]`)); err != nil {
					hx.Fail(t, ev.Failure{Property: "C01", Signature: "gate-connection-lost", Clause: "the connection accepts frames", Case: desc, Observed: err.Error()})
				}
				if _, err := readUntilNotice(c, sentinel); err != nil {
					hx.Fail(t, ev.Failure{Property: "C01", Signature: "gate-connection-lost", Clause: "the connection stays usable after EVENT frames", Case: desc, Observed: err.Error()})
				}
			}
			got := h.take()
			b, _ := json.Marshal(gen.Norm(&mocrelay.ClientEventMsg{Event: e}))
			var want []string
			for i := 0; i < ngenuine; i++ {
				want = append(want, string(b))
			}
			if hx.JSON(got) != hx.JSON(want) {
				desc["round"] = r
				desc["frames"] = texts
				hx.Fail(t, ev.Failure{Property: "C01", Signature: "gate-authenticity-concurrent", Clause: "exactly the correctly signed events reach the handler behind the relay, whatever other connections send at the same moment (an altered copy is not authentic, the genuine one is)",
					Case: desc, Observed: hx.JSON(got), Expected: hx.JSON(want)})
			}
		}
		col.Label("path:relay-gate-concurrent-twins")
		col.Case(true, hx.JSON(desc), func() any { return desc })
	})
}
