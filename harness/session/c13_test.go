package session

import (
	"context"
	"database/sql"
	"fmt"
	"io"
	"log/slog"
	"net"
	"net/http"
	"net/http/httptest"
	"os"
	"runtime"
	"strings"
	"sync/atomic"
	"testing"
	"time"

	"github.com/coder/websocket"
	"github.com/high-moctane/mocrelay"
	mocsqlite "github.com/high-moctane/mocrelay/handler/sqlite"
	mocprom "github.com/high-moctane/mocrelay/middleware/prometheus"
	_ "github.com/mattn/go-sqlite3"
	"github.com/prometheus/client_golang/prometheus"
	"pgregory.net/rapid"

	"verifharness/ev"
	"verifharness/gen"
	"verifharness/hx"
)

const c13Rule = "cases = (a) a generated handler composition (base in {default, cache, router, SQLite, merge of 2-3 bases}, wrapped in 0-4 of the provided middlewares: quota, limits, created_at window, allow/deny, unique filters, logging, Prometheus, NIP-11 chain), a generated client history of 0-30 messages (REQs with large replies, EVENTs that fan out, CLOSE, COUNT), a cut point, an ending mode (cancel / inbound close) and a peer behaviour (draining / stalled, stalled only with cancel); after the cut ServeNostr must return within 5 s (normal << 10 ms), the set of goroutines with a mocrelay frame must be back to its pre-session baseline, router registry and Prometheus gauges back to their previous values; (b) WebSocket: generated SendTimeout 100-400 ms x PingDuration in {0, 50 ms, 1 h}, a client that stops reading while the handler floods large messages must be dropped (handler's ServeNostr returns) within SendTimeout + 3 s; non-trivial = cut while >= 1 subscription is open and output is pending (stalled peer or mid-reply) in a composition of depth >= 2; distinct by hash of composition+history+cut"

var dbSeq int64

type compo struct {
	h       mocrelay.Handler
	desc    any
	routers []*mocrelay.RouterHandler
	reg     *prometheus.Registry
	cleanup []func()
	depth   int
}

// warmUp stores n regular events through a session of its own, which has ended when it returns.
func warmUp(t *rapid.T, h mocrelay.Handler, n int) {
	ctx, cancel := context.WithCancel(context.Background())
	recv := make(chan mocrelay.ClientMsg)
	send := make(chan mocrelay.ServerMsg)
	ret := make(chan error, 1)
	go func() { ret <- h.ServeNostr(ctx, send, recv) }()
	now := time.Now().Unix()
	for i := 0; i < n; i++ {
		e := &mocrelay.Event{Pubkey: gen.Keys[i%2].Pub, Kind: 1, CreatedAt: now - int64(i%90), Tags: []mocrelay.Tag{}, Content: fmt.Sprint("warm-up ", i)}
		gen.Seal(e)
		select {
		case recv <- &mocrelay.ClientEventMsg{Event: e}:
		case <-time.After(10 * time.Second):
			t.Fatalf("warm-up: EVENT not taken")
		}
		select {
		case <-send:
		case <-time.After(10 * time.Second):
			t.Fatalf("warm-up: no OK")
		}
	}
	cancel()
	select {
	case <-ret:
	case <-time.After(10 * time.Second):
		t.Fatalf("warm-up session did not end")
	}
}

func buildBase(t *rapid.T, label string, allowMerge bool, c *compo) (mocrelay.Handler, any) {
	kinds := []string{"default", "cache", "router", "router", "sqlite"}
	if allowMerge {
		kinds = append(kinds, "merge", "merge")
	}
	switch k := rapid.SampledFrom(kinds).Draw(t, label+"base"); k {
	case "default":
		return mocrelay.NewDefaultHandler(), "default"
	case "cache":
		capa := rapid.SampledFrom([]int{1, 5, 20, 50, 300}).Draw(t, label+"cap")
		h := mocrelay.NewCacheHandler(capa)
		// some caches already hold events, so that a REQ answer is much longer than any buffer on the way
		pre := 0
		if capa >= 50 && rapid.Bool().Draw(t, label+"prefill") {
			pre = rapid.IntRange(30, capa).Draw(t, label+"prefilln")
			warmUp(t, h, pre)
		}
		return h, map[string]any{"cache": capa, "prefilled": pre}
	case "router":
		r := mocrelay.NewRouterHandler(rapid.IntRange(1, 8).Draw(t, label+"buflen"))
		c.routers = append(c.routers, r)
		return r, "router"
	case "sqlite":
		n := atomic.AddInt64(&dbSeq, 1)
		db, err := sql.Open("sqlite3", fmt.Sprintf("file:verifc13_%d_%d?mode=memory&cache=shared", os.Getpid(), n))
		if err != nil {
			t.Fatalf("open sqlite: %v", err)
		}
		ctx, cancel := context.WithCancel(context.Background())
		opt := mocsqlite.NewDefaultSQLiteHandlerOption()
		opt.EventBulkInsertNum = rapid.SampledFrom([]int{1, 3}).Draw(t, label+"bulk")
		opt.EventBulkInsertDur = 0
		h, err := mocsqlite.NewSQLiteHandler(ctx, db, opt)
		if err != nil {
			cancel()
			t.Fatalf("sqlite handler: %v", err)
		}
		c.cleanup = append(c.cleanup, func() { cancel(); time.Sleep(5 * time.Millisecond); db.Close() })
		return h, "sqlite"
	default:
		n := rapid.SampledFrom([]int{2, 2, 3, 3, 4, 5}).Draw(t, label+"mergen")
		var hs []mocrelay.Handler
		var ds []any
		for i := 0; i < n; i++ {
			h, d := buildBase(t, fmt.Sprintf("%sm%d.", label, i), false, c)
			hs = append(hs, h)
			ds = append(ds, d)
		}
		c.depth++
		return mocrelay.NewMergeHandler(hs...), map[string]any{"merge": ds}
	}
}

func buildCompo(t *rapid.T) *compo {
	c := &compo{}
	h, d := buildBase(t, "", true, c)
	c.depth++
	var mws []string
	n := rapid.SampledFrom([]int{0, 0, 1, 2, 3, 4}).Draw(t, "nmw")
	authors := gen.Pubkeys(2)
	for i := 0; i < n; i++ {
		lab := fmt.Sprintf("mw%d.", i)
		k := rapid.SampledFrom([]string{"maxsubs", "maxfilters", "maxlimit", "maxsubid", "maxtags", "maxcontent", "window", "lower", "upper", "allow", "deny", "recvunique", "sendunique", "logging", "prometheus", "nip11"}).Draw(t, lab+"kind")
		var mw mocrelay.Middleware
		switch k {
		case "maxsubs":
			mw = mocrelay.Middleware(mocrelay.NewMaxSubscriptionsMiddleware(rapid.IntRange(1, 3).Draw(t, lab+"n")))
		case "maxfilters":
			mw = mocrelay.Middleware(mocrelay.NewMaxReqFiltersMiddleware(rapid.IntRange(1, 3).Draw(t, lab+"n")))
		case "maxlimit":
			mw = mocrelay.Middleware(mocrelay.NewMaxLimitMiddleware(rapid.IntRange(1, 50).Draw(t, lab+"n")))
		case "maxsubid":
			mw = mocrelay.Middleware(mocrelay.NewMaxSubIDLengthMiddleware(rapid.IntRange(1, 4).Draw(t, lab+"n")))
		case "maxtags":
			mw = mocrelay.Middleware(mocrelay.NewMaxEventTagsMiddleware(rapid.IntRange(1, 3).Draw(t, lab+"n")))
		case "maxcontent":
			mw = mocrelay.Middleware(mocrelay.NewMaxContentLengthMiddleware(rapid.IntRange(1, 2000).Draw(t, lab+"n")))
		case "window":
			mw = mocrelay.Middleware(mocrelay.NewEventCreatedAtMiddleware(-time.Hour, time.Hour))
		case "lower":
			mw = mocrelay.Middleware(mocrelay.NewCreatedAtLowerLimitMiddleware(3600))
		case "upper":
			mw = mocrelay.Middleware(mocrelay.NewCreatedAtUpperLimitMiddleware(3600))
		case "allow":
			mw = mocrelay.Middleware(mocrelay.NewRecvEventAllowFilterMiddleware(mocrelay.NewReqFiltersEventLimitMatcher([]*mocrelay.ReqFilter{{Authors: authors[:1]}})))
		case "deny":
			mw = mocrelay.Middleware(mocrelay.NewRecvEventDenyFilterMiddleware(mocrelay.NewReqFiltersEventLimitMatcher([]*mocrelay.ReqFilter{{Kinds: []int64{7}}})))
		case "recvunique":
			mw = mocrelay.Middleware(mocrelay.NewRecvEventUniqueFilterMiddleware(rapid.IntRange(1, 4).Draw(t, lab+"n")))
		case "sendunique":
			mw = mocrelay.Middleware(mocrelay.NewSendEventUniqueFilterMiddleware(rapid.IntRange(1, 4).Draw(t, lab+"n")))
		case "logging":
			mw = mocrelay.Middleware(mocrelay.NewLoggingMiddleware(slog.New(slog.NewTextHandler(io.Discard, nil))))
		case "prometheus":
			if c.reg != nil {
				continue
			}
			c.reg = prometheus.NewRegistry()
			mw = mocrelay.Middleware(mocprom.NewPrometheusMiddleware(c.reg))
		case "nip11":
			mw = mocrelay.BuildMiddlewareFromNIP11(&mocrelay.NIP11{Limitation: &mocrelay.NIP11Limitation{MaxSubscriptions: 3, MaxFilters: 3, MaxLimit: 100, MaxEventTags: 5, MaxContentLength: 3000, CreatedAtLowerLimit: 3600, CreatedAtUpperLimit: 3600}})
		}
		h = mw(h)
		mws = append(mws, k)
		c.depth++
	}
	c.h = h
	c.desc = map[string]any{"base": d, "middlewares_inner_to_outer": mws}
	return c
}

// mocrelayGoroutines counts goroutines whose stack has a frame of the code under test.
func mocrelayGoroutines() (int, string) {
	buf := make([]byte, 1<<20)
	for {
		n := runtime.Stack(buf, true)
		if n < len(buf) {
			buf = buf[:n]
			break
		}
		buf = make([]byte, 2*len(buf))
	}
	cnt := 0
	var sample string
	for _, g := range strings.Split(string(buf), "\n\n") {
		if strings.Contains(g, "github.com/high-moctane/mocrelay") {
			cnt++
			if sample == "" || strings.Contains(g, "handler.go") {
				sample = g
			}
		}
	}
	return cnt, sample
}

func gauges(reg *prometheus.Registry) (conn, req float64) {
	if reg == nil {
		return 0, 0
	}
	fams, _ := reg.Gather()
	for _, f := range fams {
		for _, m := range f.GetMetric() {
			if g := m.GetGauge(); g != nil {
				switch f.GetName() {
				case "mocrelay_connection_count":
					conn = g.GetValue()
				case "mocrelay_req_count":
					req = g.GetValue()
				}
			}
		}
	}
	return
}

func TestC13Termination(t *testing.T) {
	col := ev.For("C13").SetRule(c13Rule)
	col.Assume("'promptly' is checked as: ServeNostr returns within 5 s and goroutines are gone within a further 5 s (two orders of magnitude above normal latency)")
	rapid.Check(t, func(t *rapid.T) {
		c := buildCompo(t)
		defer func() {
			for _, f := range c.cleanup {
				f()
			}
		}()
		authors := gen.Pubkeys(2)
		now := time.Now().Unix()
		n := rapid.IntRange(0, 30).Draw(t, "nmsgs")
		var msgs []mocrelay.ClientMsg
		var briefs []any
		for i := 0; i < n; i++ {
			lab := fmt.Sprintf("m%d.", i)
			switch rapid.IntRange(0, 9).Draw(t, lab+"type") {
			case 0, 1, 2, 3:
				e := &mocrelay.Event{Pubkey: rapid.SampledFrom(authors).Draw(t, lab+"pk"), Kind: rapid.SampledFrom([]int64{1, 1, 7, 0, 30000, 5}).Draw(t, lab+"kind"),
					CreatedAt: now - int64(rapid.IntRange(0, 100).Draw(t, lab+"age")), Tags: []mocrelay.Tag{{"d", "x"}},
					Content: strings.Repeat("x", rapid.SampledFrom([]int{1, 10, 1000}).Draw(t, lab+"len")) + fmt.Sprint(i)}
				gen.Seal(e)
				msgs = append(msgs, &mocrelay.ClientEventMsg{Event: e})
				briefs = append(briefs, map[string]any{"EVENT": gen.Short(e.ID), "kind": e.Kind})
			case 4, 5, 6:
				id := rapid.SampledFrom([]string{"a", "b", "c", "dd", "eeeee"}).Draw(t, lab+"sub")
				nf := rapid.SampledFrom([]int{1, 1, 1, 2, 4}).Draw(t, lab+"nf")
				var fs []*mocrelay.ReqFilter
				for j := 0; j < nf; j++ {
					f := &mocrelay.ReqFilter{}
					if rapid.IntRange(0, 3).Draw(t, fmt.Sprintf("%sf%dlim?", lab, j)) == 0 {
						f.Limit = gen.Ptr(int64(rapid.SampledFrom([]int{0, 1, 60, 1000}).Draw(t, fmt.Sprintf("%sf%dlim", lab, j))))
					}
					fs = append(fs, f)
				}
				msgs = append(msgs, &mocrelay.ClientReqMsg{SubscriptionID: id, ReqFilters: fs})
				briefs = append(briefs, map[string]any{"REQ": id, "filters": nf})
			case 7:
				id := rapid.SampledFrom([]string{"a", "b", "c", "dd"}).Draw(t, lab+"sub")
				msgs = append(msgs, &mocrelay.ClientCloseMsg{SubscriptionID: id})
				briefs = append(briefs, map[string]any{"CLOSE": id})
			default:
				id := rapid.SampledFrom([]string{"a", "b", "eeeee"}).Draw(t, lab+"sub")
				fs := []*mocrelay.ReqFilter{{}}
				if rapid.IntRange(0, 2).Draw(t, lab+"cntmany") == 0 {
					fs = []*mocrelay.ReqFilter{{}, {}, {}, {Limit: gen.Ptr(int64(1000))}}
				}
				msgs = append(msgs, &mocrelay.ClientCountMsg{SubscriptionID: id, ReqFilters: fs})
				briefs = append(briefs, map[string]any{"COUNT": id, "filters": len(fs)})
			}
		}
		cut := rapid.IntRange(0, n).Draw(t, "cut")
		mode := rapid.SampledFrom([]string{"cancel-draining", "cancel-stalled", "cancel-stalled-from-start", "close-draining"}).Draw(t, "ending")
		desc := map[string]any{"composition": c.desc, "history": briefs, "cut_after": cut, "ending": mode}

		time.Sleep(time.Millisecond)
		base, _ := mocrelayGoroutines()
		var rsub, rconn []int
		for _, r := range c.routers {
			s, cn := r.VerifSubscriptionCount()
			rsub, rconn = append(rsub, s), append(rconn, cn)
		}
		gc0, gr0 := gauges(c.reg)

		ctx, cancel := context.WithCancel(context.Background())
		defer cancel()
		recv := make(chan mocrelay.ClientMsg)
		send := make(chan mocrelay.ServerMsg)
		ret := make(chan error, 1)
		go func() { ret <- c.h.ServeNostr(ctx, send, recv) }()

		// companion session on the same handler: publishes events that match the main
		// session's subscriptions while it runs and ends (shared routers fan them out),
		// so that deliveries are in flight at the moment of the cut
		companion := rapid.IntRange(0, 2).Draw(t, "companion") != 0
		var compDone chan struct{}
		compCtx, compCancel := context.WithCancel(context.Background())
		defer compCancel()
		if companion {
			compDone = make(chan struct{})
			crecv := make(chan mocrelay.ClientMsg)
			csend := make(chan mocrelay.ServerMsg)
			cret := make(chan error, 1)
			go func() { cret <- c.h.ServeNostr(compCtx, csend, crecv) }()
			go func() {
				defer close(compDone)
				i := 0
				for {
					i++
					e := &mocrelay.Event{Pubkey: authors[0], Kind: 1, CreatedAt: now, Tags: []mocrelay.Tag{}, Content: fmt.Sprintf("companion-%d", i)}
					gen.Seal(e)
					select {
					case crecv <- &mocrelay.ClientEventMsg{Event: e}:
					case <-csend:
					case <-cret:
						return
					case <-compCtx.Done():
						select {
						case <-cret:
						case <-time.After(5 * time.Second):
						}
						return
					}
				}
			}()
			desc["companion_publisher"] = true
		}

		// reader
		stopRead := make(chan struct{})
		readerDone := make(chan int, 1)
		go func() {
			cnt := 0
			if mode == "cancel-stalled-from-start" {
				readerDone <- 0
				return
			}
			for {
				select {
				case <-send:
					cnt++
				case <-stopRead:
					readerDone <- cnt
					return
				}
			}
		}()
		openSubs := map[string]bool{}
		blocked := false
		for i := 0; i < cut; i++ {
			select {
			case recv <- msgs[i]:
				switch x := msgs[i].(type) {
				case *mocrelay.ClientReqMsg:
					openSubs[x.SubscriptionID] = true
				case *mocrelay.ClientCloseMsg:
					delete(openSubs, x.SubscriptionID)
				}
			case <-time.After(30 * time.Millisecond):
				blocked = true
			case err := <-ret:
				hx.Fail(t, ev.Failure{Property: "C13", Signature: "ended-early", Clause: "the session keeps serving until it is ended", Case: desc, Observed: fmt.Sprint(err)})
			}
			if blocked {
				break
			}
		}
		// the cut
		pending := blocked || mode == "cancel-stalled" || mode == "cancel-stalled-from-start"
		switch mode {
		case "cancel-draining":
			cancel()
		case "cancel-stalled", "cancel-stalled-from-start":
			close(stopRead) // the peer stops reading, then the context is cancelled
			<-readerDone
			cancel()
		case "close-draining":
			if blocked {
				// the writer is stuck because the handler is busy replying; closing now is still legal
			}
			close(recv)
		}
		t0 := time.Now()
		select {
		case <-ret:
		case <-time.After(5 * time.Second):
			_, sample := mocrelayGoroutines()
			hx.Fail(t, ev.Failure{Property: "C13", Signature: "serve-does-not-return", Clause: "after the session is ended (" + mode + ") ServeNostr returns promptly", Case: desc, Observed: "not returned after 5 s; a goroutine: " + firstLines(sample, 12)})
		}
		col.Add("return_latency_us_sum", time.Since(t0).Microseconds())
		if mode == "cancel-draining" || mode == "close-draining" {
			close(stopRead)
			<-readerDone
		}
		// after an inbound close the surrounding context stays alive: the session's
		// goroutines must be gone without it being cancelled (it is cancelled by the
		// deferred call at the end of the case)
		if mode != "close-draining" {
			cancel()
		}
		if companion {
			// the main session's registry entries must be gone while the companion still runs
			time.Sleep(2 * time.Millisecond)
			compCancel()
			select {
			case <-compDone:
			case <-time.After(6 * time.Second):
				hx.Fail(t, ev.Failure{Property: "C13", Signature: "serve-does-not-return", Clause: "the companion session ends after cancel", Case: desc, Observed: "not returned"})
			}
		}
		// goroutines back to baseline
		deadline := time.Now().Add(5 * time.Second)
		for {
			cur, sample := mocrelayGoroutines()
			if cur <= base {
				break
			}
			if time.Now().After(deadline) {
				hx.Fail(t, ev.Failure{Property: "C13", Signature: "goroutine-leak", Clause: "every goroutine the session started has exited", Case: desc,
					Observed: fmt.Sprintf("%d goroutines with a mocrelay frame, baseline %d; one of them: %s", cur, base, firstLines(sample, 14))})
			}
			time.Sleep(2 * time.Millisecond)
		}
		for i, r := range c.routers {
			s, cn := r.VerifSubscriptionCount()
			if s != rsub[i] || cn != rconn[i] {
				hx.Fail(t, ev.Failure{Property: "C13", Signature: "router-registry-leak", Clause: "the session's live subscriptions are gone from the router", Case: desc,
					Observed: fmt.Sprintf("router %d: %d subscriptions / %d connections registered, before the session %d / %d", i, s, cn, rsub[i], rconn[i])})
			}
		}
		if c.reg != nil {
			gc, gr := gauges(c.reg)
			if gc != gc0 || gr != gr0 {
				hx.Fail(t, ev.Failure{Property: "C13", Signature: "gauge-leak", Clause: "connection/subscription gauges are back to their previous values", Case: desc,
					Observed: fmt.Sprintf("connection gauge %v (was %v), subscription gauge %v (was %v)", gc, gc0, gr, gr0)})
			}
		}
		col.Label("ending:" + mode)
		col.Case(len(openSubs) > 0 && pending && c.depth >= 2, hx.JSON(desc), func() any { return desc })
	})
}

func firstLines(s string, n int) string {
	lines := strings.Split(s, "\n")
	if len(lines) > n {
		lines = lines[:n]
	}
	return strings.Join(lines, " | ")
}

// flooder floods large NOTICEs until its context ends and reports when ServeNostr returns.
type flooder struct {
	started chan struct{}
	ended   chan time.Time
	sent    atomic.Int64 // messages the relay's write loop has taken so far
}

// waitBlocked returns once the flood has made no progress for 150 ms (the write loop is
// stuck in a write to a peer that does not read), or after 5 s.
func (f *flooder) waitBlocked() bool {
	deadline := time.Now().Add(5 * time.Second)
	last, still := f.sent.Load(), 0
	for time.Now().Before(deadline) {
		time.Sleep(50 * time.Millisecond)
		cur := f.sent.Load()
		if cur == last && cur > 0 {
			still++
			if still >= 3 {
				return true
			}
		} else {
			still = 0
		}
		last = cur
	}
	return false
}

func (f *flooder) ServeNostr(ctx context.Context, send chan<- mocrelay.ServerMsg, recv <-chan mocrelay.ClientMsg) error {
	defer func() { f.ended <- time.Now() }()
	big := mocrelay.NewServerNoticeMsg(strings.Repeat("x", 64*1024))
	select {
	case <-recv: // wait for the client's go
	case <-ctx.Done():
		return ctx.Err()
	}
	close(f.started)
	for {
		select {
		case send <- big:
			f.sent.Add(1)
		case <-ctx.Done():
			return ctx.Err()
		}
	}
}

func TestC13WebSocketSendTimeout(t *testing.T) {
	col := ev.For("C13").SetRule(c13Rule)
	rapid.Check(t, func(t *rapid.T) {
		sendTimeout := time.Duration(rapid.IntRange(100, 400).Draw(t, "send_timeout_ms")) * time.Millisecond
		// every ping setting for every generated send timeout
		for _, ping := range []time.Duration{0, 50 * time.Millisecond, time.Hour} {
			opt := openOptions()
			opt.SendTimeout = sendTimeout
			opt.PingDuration = ping
			desc := map[string]any{"send_timeout_ms": opt.SendTimeout.Milliseconds(), "ping": opt.PingDuration.String()}
			f := &flooder{started: make(chan struct{}), ended: make(chan time.Time, 1)}
			time.Sleep(time.Millisecond)
			baseG, _ := mocrelayGoroutines()
			rig := newWSRig(opt, f)
			c, err := dial(rig.url)
			if err != nil {
				rig.close()
				t.Fatalf("dial: %v", err)
			}
			if err := c.Write(context.Background(), websocket.MessageText, []byte(`["CLOSE","go"]`)); err != nil {
				c.CloseNow()
				rig.close()
				t.Fatalf("write: %v", err)
			}
			<-f.started
			t0 := time.Now()
			// the client never reads; the kernel buffers absorb a few MB first (milliseconds on loopback)
			bound := opt.SendTimeout + 3*time.Second
			dropped := false
			select {
			case <-f.ended:
				dropped = true
				col.Label("dropped:ping=" + opt.PingDuration.String())
				col.Add("drop_latency_ms_sum", time.Since(t0).Milliseconds())
			case <-time.After(bound + 2*time.Second):
			}
			c.CloseNow()
			rig.close()
			// whatever the session started (write loop, read loop, a keep-alive ping still waiting
			// for its pong) is gone afterwards
			if dropped {
				deadline := time.Now().Add(5 * time.Second)
				for {
					cur, sample := mocrelayGoroutines()
					if cur <= baseG {
						break
					}
					if time.Now().After(deadline) {
						hx.Fail(t, ev.Failure{Property: "C13", Signature: "goroutine-leak", Clause: "every goroutine the session started has exited (WebSocket session dropped for a peer that stopped reading)", Case: desc,
							Observed: fmt.Sprintf("%d goroutines with a mocrelay frame, baseline %d; one of them: %s", cur, baseG, firstLines(sample, 14))})
					}
					time.Sleep(2 * time.Millisecond)
				}
			}
			if !dropped {
				hx.Fail(t, ev.Failure{Property: "C13", Signature: "stalled-peer-not-dropped", Clause: "a WebSocket peer that stops reading is dropped once a write has been blocked for the send timeout, whatever the other relay options are",
					Case: desc, Observed: fmt.Sprintf("handler session still running %v after the flood started", bound+2*time.Second), Expected: "ended within send timeout + 3 s"})
			}
			col.Case(true, hx.JSON(desc), func() any { return desc })
		}
	})
}

// TestC13WebSocketCancel: the request context is cancelled while the write loop,
// the handler and the read loop are all blocked (peer keeps sending, never reads):
// Relay.ServeHTTP must return promptly.
func TestC13WebSocketCancel(t *testing.T) {
	col := ev.For("C13").SetRule(c13Rule)
	rapid.Check(t, func(t *rapid.T) {
		opt := openOptions()
		opt.SendTimeout = rapid.SampledFrom([]time.Duration{10 * time.Second, 30 * time.Second}).Draw(t, "send_timeout")
		opt.PingDuration = rapid.SampledFrom([]time.Duration{0, time.Hour}).Draw(t, "ping")
		peerSends := rapid.Bool().Draw(t, "peer_keeps_sending")
		// a strict receive limit: one frame every 10-20 s after a burst of 1-2; the peer that keeps
		// sending has used the burst up, so the read loop is waiting for a token at the cancellation
		for _, rateLimited := range []bool{false, true} {
			opt, peerSends := *opt, peerSends
			if rateLimited {
				opt.RecvRateLimitRate = rapid.SampledFrom([]float64{0.1, 0.05}).Draw(t, "rate")
				opt.RecvRateLimitBurst = rapid.IntRange(1, 2).Draw(t, "burst")
				peerSends = true
			}
			desc := map[string]any{"send_timeout": opt.SendTimeout.String(), "ping": opt.PingDuration.String(), "peer_keeps_sending": peerSends, "recv_rate": opt.RecvRateLimitRate, "recv_burst": opt.RecvRateLimitBurst, "ending": "request context cancelled while every loop is blocked"}
			attempt := func() (time.Duration, bool) {
				f := &flooder{started: make(chan struct{}), ended: make(chan time.Time, 1)}
				relay := mocrelay.NewRelay(f, &opt)
				returned := make(chan time.Time, 1)
				baseCtx, cancelBase := context.WithCancel(context.Background())
				defer cancelBase()
				srv := httptest.NewUnstartedServer(http.HandlerFunc(func(w http.ResponseWriter, r *http.Request) {
					relay.ServeHTTP(w, r)
					returned <- time.Now()
				}))
				srv.Config.BaseContext = func(net.Listener) context.Context { return baseCtx }
				srv.Start()
				defer func() {
					srv.CloseClientConnections()
					srv.Close()
				}()
				c, err := dial("ws" + strings.TrimPrefix(srv.URL, "http"))
				if err != nil {
					t.Fatalf("dial: %v", err)
				}
				defer c.CloseNow()
				if err := c.Write(context.Background(), websocket.MessageText, []byte(`["CLOSE","go"]`)); err != nil {
					t.Fatalf("write: %v", err)
				}
				<-f.started
				stopSend := make(chan struct{})
				if peerSends {
					go func() {
						for i := 0; ; i++ {
							select {
							case <-stopSend:
								return
							default:
							}
							wctx, wcancel := context.WithTimeout(context.Background(), 200*time.Millisecond)
							c.Write(wctx, websocket.MessageText, []byte(`["CLOSE","more"]`))
							wcancel()
							time.Sleep(5 * time.Millisecond)
						}
					}()
				}
				defer close(stopSend)
				// buffers fill; the write loop is blocked in conn.Write. Only then is the cancellation
				// judged against a tight bound: with no I/O in flight the relay's graceful close waits
				// for the peer's close frame, for which the WebSocket library allows 5 s
				if !f.waitBlocked() {
					return 0, true
				}
				t0 := time.Now()
				cancelBase()
				select {
				case at := <-returned:
					return at.Sub(t0), true
				case <-time.After(15 * time.Second):
					return 15 * time.Second, false
				}
			}
			// here a write is blocked when the context is cancelled: the cancelled write closes
			// the connection at once, so the library's close handshake (which may wait 5 s for a
			// silent peer) has nothing to wait for
			d, ok := attempt()
			if !ok || d > 3*time.Second {
				// a loaded machine must not raise a false alarm: once more
				d2, ok2 := attempt()
				if !ok2 || d2 > 3*time.Second {
					hx.Fail(t, ev.Failure{Property: "C13", Signature: "websocket-cancel-slow", Clause: "whenever a session's context is cancelled - whether or not the peer is still reading - serving returns promptly (WebSocket session)",
						Case: desc, Observed: fmt.Sprintf("Relay.ServeHTTP returned %v / %v after the cancellation (two attempts)", d, d2), Expected: "well under 3 s (normal: milliseconds)"})
				}
				d = d2
			}
			col.Label("websocket-cancel")
			col.Add("ws_cancel_latency_ms_sum", d.Milliseconds())
			col.Case(true, hx.JSON(desc), func() any { return desc })
		}
	})
}

// TestC13RouterInboundClose concentrates on one corner of the composition space:
// a router (bare or wrapped) whose session has an open subscription, a companion
// session flooding matching events, and the session ending by inbound-channel
// close while the surrounding context stays alive.
func TestC13RouterInboundClose(t *testing.T) {
	col := ev.For("C13").SetRule(c13Rule)
	rapid.Check(t, func(t *rapid.T) {
		router := mocrelay.NewRouterHandler(rapid.IntRange(1, 4).Draw(t, "buflen"))
		var h mocrelay.Handler = router
		wrap := rapid.SampledFrom([]string{"bare", "bare", "logging", "sendunique"}).Draw(t, "wrap")
		switch wrap {
		case "logging":
			h = mocrelay.Middleware(mocrelay.NewLoggingMiddleware(slog.New(slog.NewTextHandler(io.Discard, nil))))(h)
		case "sendunique":
			h = mocrelay.Middleware(mocrelay.NewSendEventUniqueFilterMiddleware(4))(h)
		}
		nsub := rapid.IntRange(1, 3).Draw(t, "subs")
		desc := map[string]any{"composition": wrap + " router", "subscriptions": nsub, "ending": "close-draining with a companion publisher", "parent_context": "alive"}
		authors := gen.Pubkeys(1)
		time.Sleep(time.Millisecond)
		base, _ := mocrelayGoroutines()
		parent, cancelParent := context.WithCancel(context.Background())
		defer cancelParent()
		recv := make(chan mocrelay.ClientMsg)
		send := make(chan mocrelay.ServerMsg)
		ret := make(chan error, 1)
		go func() { ret <- h.ServeNostr(parent, send, recv) }()
		stopRead := make(chan struct{})
		readerDone := make(chan struct{})
		go func() {
			defer close(readerDone)
			for {
				select {
				case <-send:
				case <-stopRead:
					return
				}
			}
		}()
		for i := 0; i < nsub; i++ {
			recv <- &mocrelay.ClientReqMsg{SubscriptionID: fmt.Sprint("s", i), ReqFilters: []*mocrelay.ReqFilter{{}}}
		}
		// companion publisher
		compCtx, compCancel := context.WithCancel(context.Background())
		crecv := make(chan mocrelay.ClientMsg)
		csend := make(chan mocrelay.ServerMsg)
		cret := make(chan error, 1)
		go func() { cret <- h.ServeNostr(compCtx, csend, crecv) }()
		compDone := make(chan struct{})
		go func() {
			defer close(compDone)
			for i := 0; ; i++ {
				e := &mocrelay.Event{Pubkey: authors[0], Kind: 1, CreatedAt: 1, Tags: []mocrelay.Tag{}, Content: fmt.Sprint("flood", i)}
				gen.Seal(e)
				select {
				case crecv <- &mocrelay.ClientEventMsg{Event: e}:
				case <-csend:
				case <-compCtx.Done():
					<-cret
					return
				}
			}
		}()
		time.Sleep(time.Duration(rapid.IntRange(200, 2000).Draw(t, "flood_us")) * time.Microsecond)
		close(recv)
		select {
		case <-ret:
		case <-time.After(5 * time.Second):
			hx.Fail(t, ev.Failure{Property: "C13", Signature: "serve-does-not-return", Clause: "when the inbound channel is closed while output is being drained, serving returns", Case: desc, Observed: "not returned after 5 s"})
		}
		close(stopRead) // the peer stops reading once the session is over
		<-readerDone
		compCancel()
		<-compDone
		deadline := time.Now().Add(5 * time.Second)
		for {
			cur, sample := mocrelayGoroutines()
			if cur <= base {
				break
			}
			if time.Now().After(deadline) {
				hx.Fail(t, ev.Failure{Property: "C13", Signature: "goroutine-leak", Clause: "every goroutine the session started has exited (inbound close, surrounding context still alive)", Case: desc,
					Observed: fmt.Sprintf("%d goroutines with a mocrelay frame, baseline %d; one of them: %s", cur, base, firstLines(sample, 14))})
			}
			time.Sleep(2 * time.Millisecond)
		}
		if s, c := router.VerifSubscriptionCount(); s != 0 || c != 0 {
			hx.Fail(t, ev.Failure{Property: "C13", Signature: "router-registry-leak", Clause: "the session's live subscriptions are gone from the router", Case: desc, Observed: fmt.Sprintf("%d subscriptions / %d connections left", s, c)})
		}
		col.Label("router-inbound-close")
		col.Case(true, hx.JSON(desc), func() any { return desc })
	})
}

// TestC13SQLiteBlockedInserter: the bulk inserter is stuck behind a foreign write
// lock, the session's queue fills up, the session is cancelled: it must return
// promptly although the handler (and its inserter) stay alive.
func TestC13SQLiteBlockedInserter(t *testing.T) {
	col := ev.For("C13").SetRule(c13Rule)
	rapid.Check(t, func(t *rapid.T) {
		dir, err := os.MkdirTemp("", "verif-c13-")
		if err != nil {
			t.Fatalf("tempdir: %v", err)
		}
		defer os.RemoveAll(dir)
		dsn := "file:" + dir + "/relay.db?_busy_timeout=200"
		db, err := sql.Open("sqlite3", dsn)
		if err != nil {
			t.Fatalf("open: %v", err)
		}
		defer db.Close()
		bulk := rapid.IntRange(1, 2).Draw(t, "bulk")
		hctx, hcancel := context.WithCancel(context.Background())
		defer hcancel()
		opt := mocsqlite.NewDefaultSQLiteHandlerOption()
		opt.EventBulkInsertNum = bulk
		opt.EventBulkInsertDur = 0
		h, err := mocsqlite.NewSQLiteHandler(hctx, db, opt)
		if err != nil {
			t.Fatalf("handler: %v", err)
		}
		// a second connection takes the write lock and keeps it
		locker, err := sql.Open("sqlite3", dsn)
		if err != nil {
			t.Fatalf("open locker: %v", err)
		}
		defer locker.Close()
		conn, err := locker.Conn(context.Background())
		if err != nil {
			t.Fatalf("conn: %v", err)
		}
		defer conn.Close()
		if _, err := conn.ExecContext(context.Background(), "BEGIN IMMEDIATE"); err != nil {
			t.Fatalf("begin immediate: %v", err)
		}
		defer conn.ExecContext(context.Background(), "ROLLBACK")
		desc := map[string]any{"composition": "sqlite", "bulk_insert_num": bulk, "fault": "the database write lock is held by another connection, the bulk inserter cannot make progress", "ending": "cancel-draining"}
		ctx, cancel := context.WithCancel(context.Background())
		defer cancel()
		recv := make(chan mocrelay.ClientMsg)
		send := make(chan mocrelay.ServerMsg)
		ret := make(chan error, 1)
		go func() { ret <- h.ServeNostr(ctx, send, recv) }()
		stop := make(chan struct{})
		go func() {
			for {
				select {
				case <-send:
				case <-stop:
					return
				}
			}
		}()
		defer close(stop)
		// more events than the queue holds (capacity 2 x bulk): the session ends up blocked
		n := 2*bulk + 2 + rapid.IntRange(0, 3).Draw(t, "extra")
		blocked := false
		for i := 0; i < n && !blocked; i++ {
			e := &mocrelay.Event{Pubkey: gen.Keys[0].Pub, Kind: 1, CreatedAt: int64(i + 1), Tags: []mocrelay.Tag{}, Content: fmt.Sprint(i)}
			gen.Seal(e)
			select {
			case recv <- &mocrelay.ClientEventMsg{Event: e}:
			case <-time.After(100 * time.Millisecond):
				blocked = true
			}
		}
		time.Sleep(20 * time.Millisecond)
		t0 := time.Now()
		cancel()
		select {
		case <-ret:
		case <-time.After(3 * time.Second):
			hx.Fail(t, ev.Failure{Property: "C13", Signature: "serve-does-not-return", Clause: "whenever a session's context is cancelled, at any point of any message history, serving returns promptly (SQLite handler whose inserter is stuck)", Case: desc, Observed: "not returned 3 s after cancel"})
		}
		col.Add("sqlite_blocked_return_us_sum", time.Since(t0).Microseconds())
		col.Label("sqlite-blocked-inserter")
		col.Case(true, hx.JSON(desc), func() any { return desc })
	})
}

// TestC13SQLiteBlockedReaders: the database cannot serve queries (its only pooled connection is
// in use elsewhere) while two to four sessions have a REQ in progress - the same REQ or
// different ones. Each session that is cancelled returns promptly, whatever the others are
// waiting for and in whatever order they are cancelled.
func TestC13SQLiteBlockedReaders(t *testing.T) {
	col := ev.For("C13").SetRule(c13Rule)
	rapid.Check(t, func(t *rapid.T) {
		dir, err := os.MkdirTemp("", "verif-c13r-")
		if err != nil {
			t.Fatalf("tempdir: %v", err)
		}
		defer os.RemoveAll(dir)
		db, err := sql.Open("sqlite3", "file:"+dir+"/relay.db?_busy_timeout=200")
		if err != nil {
			t.Fatalf("open: %v", err)
		}
		defer db.Close()
		db.SetMaxOpenConns(1)
		hctx, hcancel := context.WithCancel(context.Background())
		defer hcancel()
		opt := mocsqlite.NewDefaultSQLiteHandlerOption()
		opt.EventBulkInsertDur = time.Hour
		h, err := mocsqlite.NewSQLiteHandler(hctx, db, opt)
		if err != nil {
			t.Fatalf("handler: %v", err)
		}
		held, err := db.Conn(context.Background())
		if err != nil {
			t.Fatalf("conn: %v", err)
		}
		defer held.Close()
		ns := rapid.IntRange(2, 4).Draw(t, "sessions")
		same := rapid.Bool().Draw(t, "same_req")
		order := rapid.Permutation([]int{0, 1, 2, 3}[:ns]).Draw(t, "cancel_order")
		desc := map[string]any{"composition": "sqlite", "fault": "the only pooled database connection is in use elsewhere: queries wait", "sessions": ns, "same_req_in_all_sessions": same, "cancel_order": order, "ending": "cancel-draining"}
		type sess struct {
			cancel context.CancelFunc
			ret    chan error
			stop   chan struct{}
		}
		ss := make([]*sess, ns)
		for i := range ss {
			ctx, cancel := context.WithCancel(context.Background())
			defer cancel()
			x := &sess{cancel: cancel, ret: make(chan error, 1), stop: make(chan struct{})}
			ss[i] = x
			recv := make(chan mocrelay.ClientMsg)
			send := make(chan mocrelay.ServerMsg)
			go func() { x.ret <- h.ServeNostr(ctx, send, recv) }()
			go func() {
				for {
					select {
					case <-send:
					case <-x.stop:
						return
					}
				}
			}()
			defer close(x.stop)
			f := &mocrelay.ReqFilter{Kinds: []int64{1}, Limit: gen.Ptr(int64(10))}
			if !same {
				f.Kinds = []int64{int64(i + 1)}
			}
			select {
			case recv <- &mocrelay.ClientReqMsg{SubscriptionID: "q", ReqFilters: []*mocrelay.ReqFilter{f}}:
			case <-time.After(2 * time.Second):
				t.Skip("the handler did not take the REQ: decides nothing")
			}
		}
		time.Sleep(time.Duration(rapid.IntRange(1, 30).Draw(t, "settle_ms")) * time.Millisecond)
		for k, i := range order {
			ss[i].cancel()
			select {
			case <-ss[i].ret:
			case <-time.After(3 * time.Second):
				hx.Fail(t, ev.Failure{Property: "C13", Signature: "serve-does-not-return", Clause: "whenever a session's context is cancelled, at any point of any message history, serving returns promptly (SQLite handler, a query waiting for the database)", Case: desc,
					Observed: fmt.Sprintf("session %d (cancelled as number %d) had not returned 3 s after its cancel", i, k+1)})
			}
		}
		col.Label("sqlite-blocked-readers")
		col.Case(true, hx.JSON(desc), func() any { return desc })
	})
}

// TestC13LargeAnswerCut: the session is cut while a REQ answer that is much
// longer than any buffer on the way (a prefilled cache, alone, wrapped or behind
// a merge) is being delivered to a peer that reads only its first k messages.
func TestC13LargeAnswerCut(t *testing.T) {
	col := ev.For("C13").SetRule(c13Rule)
	rapid.Check(t, func(t *rapid.T) {
		n := rapid.IntRange(34, 300).Draw(t, "stored")
		kind := rapid.SampledFrom([]string{"cache", "cache", "merge(cache,cache)", "merge(cache,default)", "merge(cache,router)"}).Draw(t, "base")
		cache := mocrelay.NewCacheHandler(n + 10)
		warmUp(t, cache, n)
		var h mocrelay.Handler = cache
		switch kind {
		case "merge(cache,cache)":
			other := mocrelay.NewCacheHandler(n + 10)
			warmUp(t, other, rapid.IntRange(0, n).Draw(t, "stored_other"))
			h = mocrelay.NewMergeHandler(cache, other)
		case "merge(cache,default)":
			h = mocrelay.NewMergeHandler(cache, mocrelay.NewDefaultHandler())
		case "merge(cache,router)":
			h = mocrelay.NewMergeHandler(mocrelay.NewRouterHandler(4), cache)
		}
		var reg *prometheus.Registry
		var wraps []string
		for i, nw := 0, rapid.IntRange(0, 2).Draw(t, "nwrap"); i < nw; i++ {
			w := rapid.SampledFrom([]string{"logging", "prometheus", "sendunique", "maxlimit"}).Draw(t, fmt.Sprintf("wrap%d", i))
			switch w {
			case "logging":
				h = mocrelay.Middleware(mocrelay.NewLoggingMiddleware(slog.New(slog.NewTextHandler(io.Discard, nil))))(h)
			case "prometheus":
				if reg != nil {
					continue
				}
				reg = prometheus.NewRegistry()
				h = mocrelay.Middleware(mocprom.NewPrometheusMiddleware(reg))(h)
			case "sendunique":
				h = mocrelay.Middleware(mocrelay.NewSendEventUniqueFilterMiddleware(1000))(h)
			case "maxlimit":
				h = mocrelay.Middleware(mocrelay.NewMaxLimitMiddleware(5000))(h)
			}
			wraps = append(wraps, w)
		}
		readK := rapid.SampledFrom([]int{0, 0, 1, 2, 10, 31, 32, 33, 40, 100}).Draw(t, "peer_reads")
		var fs []*mocrelay.ReqFilter
		switch rapid.IntRange(0, 2).Draw(t, "filters") {
		case 0:
			fs = []*mocrelay.ReqFilter{{}}
		case 1:
			fs = []*mocrelay.ReqFilter{{Limit: gen.Ptr(int64(rapid.IntRange(34, 400).Draw(t, "limit")))}}
		default:
			fs = []*mocrelay.ReqFilter{{Kinds: []int64{1}}, {Authors: []string{gen.Keys[0].Pub}}}
		}
		ending := rapid.SampledFrom([]string{"cancel", "cancel", "close-then-cancel"}).Draw(t, "ending")
		desc := map[string]any{"composition": kind, "wrapped_in": wraps, "stored": n, "peer_reads": readK, "filters": gen.BriefFilters(fs), "ending": ending}
		time.Sleep(time.Millisecond)
		base, _ := mocrelayGoroutines()
		gc0, gr0 := gauges(reg)
		ctx, cancel := context.WithCancel(context.Background())
		defer cancel()
		recv := make(chan mocrelay.ClientMsg)
		send := make(chan mocrelay.ServerMsg)
		ret := make(chan error, 1)
		go func() { ret <- h.ServeNostr(ctx, send, recv) }()
		select {
		case recv <- &mocrelay.ClientReqMsg{SubscriptionID: "big", ReqFilters: fs}:
		case <-time.After(5 * time.Second):
			hx.Fail(t, ev.Failure{Property: "C13", Signature: "ended-early", Clause: "the session takes a REQ", Case: desc, Observed: "REQ not taken"})
		}
		got := 0
		for got < readK {
			select {
			case m := <-send:
				got++
				if _, is := m.(*mocrelay.ServerEOSEMsg); is {
					readK = got
				}
			case <-time.After(time.Second):
				readK = got
			}
		}
		// the peer stops reading; give the reply a moment to pile up, then cut
		time.Sleep(time.Duration(rapid.SampledFrom([]int{0, 200, 2000}).Draw(t, "pause_us")) * time.Microsecond)
		if ending == "close-then-cancel" {
			close(recv)
			time.Sleep(200 * time.Microsecond)
		}
		cancel()
		select {
		case <-ret:
		case <-time.After(5 * time.Second):
			_, sample := mocrelayGoroutines()
			hx.Fail(t, ev.Failure{Property: "C13", Signature: "serve-does-not-return", Clause: "after cancel ServeNostr returns promptly, whether or not the peer is still reading", Case: desc, Observed: "not returned after 5 s; a goroutine: " + firstLines(sample, 12)})
		}
		deadline := time.Now().Add(5 * time.Second)
		for {
			cur, sample := mocrelayGoroutines()
			if cur <= base {
				break
			}
			if time.Now().After(deadline) {
				hx.Fail(t, ev.Failure{Property: "C13", Signature: "goroutine-leak", Clause: "every goroutine the session started has exited (cut in the middle of a long REQ answer, peer not reading)", Case: desc,
					Observed: fmt.Sprintf("%d goroutines with a mocrelay frame, baseline %d; one of them: %s", cur, base, firstLines(sample, 14))})
			}
			time.Sleep(2 * time.Millisecond)
		}
		if reg != nil {
			if gc, gr := gauges(reg); gc != gc0 || gr != gr0 {
				hx.Fail(t, ev.Failure{Property: "C13", Signature: "gauge-leak", Clause: "connection/subscription gauges are back to their previous values", Case: desc,
					Observed: fmt.Sprintf("connection gauge %v (was %v), subscription gauge %v (was %v)", gc, gc0, gr, gr0)})
			}
		}
		col.Label("scenario:large-answer-cut")
		col.Case(true, hx.JSON(desc), func() any { return desc })
	})
}

// TestC13RouterManySessions: hundreds of sessions come and go on one router (and hundreds of
// subscriptions within one session); after each of them nothing of it remains in the registry.
func TestC13RouterManySessions(t *testing.T) {
	col := ev.For("C13").SetRule(c13Rule)
	rapid.Check(t, func(t *rapid.T) {
		router := mocrelay.NewRouterHandler(rapid.IntRange(1, 4).Draw(t, "buflen"))
		var h mocrelay.Handler = router
		wrap := rapid.SampledFrom([]string{"bare", "bare", "logging", "maxsubs"}).Draw(t, "wrap")
		switch wrap {
		case "logging":
			h = mocrelay.Middleware(mocrelay.NewLoggingMiddleware(slog.New(slog.NewTextHandler(io.Discard, nil))))(h)
		case "maxsubs":
			h = mocrelay.Middleware(mocrelay.NewMaxSubscriptionsMiddleware(1000))(h)
		}
		sessions := rapid.SampledFrom([]int{255, 256, 257, 300, 520, 1030}).Draw(t, "sessions")
		closesInOne := rapid.SampledFrom([]int{0, 0, 256, 300, 600}).Draw(t, "closes_in_one_session")
		desc := map[string]any{"composition": wrap + " router", "sessions": sessions, "closes_in_one_session": closesInOne}
		time.Sleep(time.Millisecond)
		base, _ := mocrelayGoroutines()
		run := func(i int, nreq, nclose int, byClose bool) {
			ctx, cancel := context.WithCancel(context.Background())
			defer cancel()
			recv := make(chan mocrelay.ClientMsg)
			send := make(chan mocrelay.ServerMsg)
			ret := make(chan error, 1)
			go func() { ret <- h.ServeNostr(ctx, send, recv) }()
			put := func(m mocrelay.ClientMsg) {
				for {
					select {
					case recv <- m:
						return
					case <-send:
					case <-time.After(10 * time.Second):
						hx.Fail(t, ev.Failure{Property: "C13", Signature: "ended-early", Clause: "the session takes client messages", Case: desc, Observed: fmt.Sprintf("session %d stalled", i)})
					}
				}
			}
			for k := 0; k < nreq; k++ {
				put(&mocrelay.ClientReqMsg{SubscriptionID: fmt.Sprint("s", k), ReqFilters: []*mocrelay.ReqFilter{{Kinds: []int64{1}}}})
			}
			for k := 0; k < nclose; k++ {
				put(&mocrelay.ClientCloseMsg{SubscriptionID: fmt.Sprint("s", k)})
			}
			if byClose {
				close(recv)
			} else {
				cancel()
			}
			deadline := time.After(5 * time.Second)
			for {
				select {
				case <-ret:
					return
				case <-send:
				case <-deadline:
					hx.Fail(t, ev.Failure{Property: "C13", Signature: "serve-does-not-return", Clause: "after the session is ended ServeNostr returns promptly", Case: desc, Observed: fmt.Sprintf("session %d did not return", i)})
				}
			}
		}
		check := func(after string) {
			if s, c := router.VerifSubscriptionCount(); s != 0 || c != 0 {
				hx.Fail(t, ev.Failure{Property: "C13", Signature: "router-registry-leak", Clause: "afterwards nothing of the session remains: its live subscriptions are gone from the router", Case: desc,
					Observed: fmt.Sprintf("%s: %d subscriptions of %d connections still registered", after, s, c)})
			}
		}
		if closesInOne > 0 {
			run(-1, closesInOne+3, closesInOne, false)
			check(fmt.Sprintf("after a session with %d REQs and %d CLOSEs", closesInOne+3, closesInOne))
		}
		for i := 0; i < sessions; i++ {
			run(i, 1+i%3, i%2, i%5 == 4)
			if i%64 == 63 || i == sessions-1 || (i >= 250 && i < 262) {
				check(fmt.Sprintf("after session %d", i+1))
			}
		}
		deadline := time.Now().Add(5 * time.Second)
		for {
			cur, sample := mocrelayGoroutines()
			if cur <= base {
				break
			}
			if time.Now().After(deadline) {
				hx.Fail(t, ev.Failure{Property: "C13", Signature: "goroutine-leak", Clause: "every goroutine the sessions started has exited", Case: desc,
					Observed: fmt.Sprintf("%d goroutines with a mocrelay frame, baseline %d; one of them: %s", cur, base, firstLines(sample, 14))})
			}
			time.Sleep(2 * time.Millisecond)
		}
		col.Label("scenario:router-many-sessions")
		col.Case(true, hx.JSON(desc), func() any { return desc })
	})
}

// TestC13WebSocketIdlePing: an idle session with keep-alive pings whose peer has stopped
// reading (so a ping is waiting for its pong) ends by a peer disconnect or by cancellation
// of the request context: ServeHTTP returns promptly and nothing of the session stays behind.
func TestC13WebSocketIdlePing(t *testing.T) {
	col := ev.For("C13").SetRule(c13Rule)
	rapid.Check(t, func(t *rapid.T) {
		opt := openOptions()
		opt.PingDuration = time.Duration(rapid.IntRange(5, 40).Draw(t, "ping_ms")) * time.Millisecond
		opt.SendTimeout = rapid.SampledFrom([]time.Duration{10 * time.Second, time.Minute}).Draw(t, "send_timeout")
		ending := rapid.SampledFrom([]string{"peer-disconnect", "server-cancel"}).Draw(t, "ending")
		wait := time.Duration(rapid.IntRange(1, 4).Draw(t, "pings_before_the_end")) * opt.PingDuration
		desc := map[string]any{"ping": opt.PingDuration.String(), "send_timeout": opt.SendTimeout.String(), "ending": ending, "peer": "connected, never reads", "handler": "idle"}
		time.Sleep(time.Millisecond)
		baseG, _ := mocrelayGoroutines()
		relay := mocrelay.NewRelay(newRecHandler(), opt)
		returned := make(chan time.Time, 1)
		baseCtx, cancelBase := context.WithCancel(context.Background())
		defer cancelBase()
		srv := httptest.NewUnstartedServer(http.HandlerFunc(func(w http.ResponseWriter, r *http.Request) {
			relay.ServeHTTP(w, r)
			returned <- time.Now()
		}))
		srv.Config.BaseContext = func(net.Listener) context.Context { return baseCtx }
		srv.Start()
		defer func() {
			srv.CloseClientConnections()
			srv.Close()
		}()
		c, err := dial("ws" + strings.TrimPrefix(srv.URL, "http"))
		if err != nil {
			t.Fatalf("dial: %v", err)
		}
		defer c.CloseNow()
		time.Sleep(wait + 2*time.Millisecond)
		t0 := time.Now()
		if ending == "peer-disconnect" {
			c.CloseNow()
		} else {
			cancelBase()
		}
		// the WebSocket library's own close handshake may wait up to 5 s for a peer that does not
		// answer (it usually does not get that far: the read loop closes the connection first);
		// "promptly" is therefore judged with a bound well above that
		select {
		case <-returned:
		case <-time.After(15 * time.Second):
			hx.Fail(t, ev.Failure{Property: "C13", Signature: "websocket-cancel-slow", Clause: "when the peer goes away or the context is cancelled, serving returns promptly (idle WebSocket session with a ping in flight)", Case: desc, Observed: "Relay.ServeHTTP has not returned after 15 s"})
		}
		col.Add("ws_idle_end_latency_ms_sum", time.Since(t0).Milliseconds())
		deadline := time.Now().Add(5 * time.Second)
		for {
			cur, sample := mocrelayGoroutines()
			if cur <= baseG {
				break
			}
			if time.Now().After(deadline) {
				hx.Fail(t, ev.Failure{Property: "C13", Signature: "goroutine-leak", Clause: "every goroutine the session started has exited (a keep-alive ping was waiting for its pong when the session ended)", Case: desc,
					Observed: fmt.Sprintf("%d goroutines with a mocrelay frame, baseline %d; one of them: %s", cur, baseG, firstLines(sample, 14))})
			}
			time.Sleep(2 * time.Millisecond)
		}
		col.Label("websocket-idle-ping:" + ending)
		col.Case(true, hx.JSON(desc), func() any { return desc })
	})
}

// TestC13WebSocketFloodingPeer: the peer stops reading and floods the relay with frames that
// each earn a rejection (large invalid messages, whose NOTICE echoes them). The blocked write
// is a rejection, not handler output: the peer is dropped after the send timeout all the
// same, for every ping setting.
func TestC13WebSocketFloodingPeer(t *testing.T) {
	col := ev.For("C13").SetRule(c13Rule)
	rapid.Check(t, func(t *rapid.T) {
		sendTimeout := time.Duration(rapid.IntRange(150, 400).Draw(t, "send_timeout_ms")) * time.Millisecond
		for _, ping := range []time.Duration{0, time.Hour} {
			opt := openOptions()
			opt.SendTimeout = sendTimeout
			opt.PingDuration = ping
			desc := map[string]any{"send_timeout_ms": sendTimeout.Milliseconds(), "ping": ping.String(), "peer": "never reads, floods 60 kB invalid REQs", "handler": "idle"}
			h := newRecHandler()
			rig := newWSRig(opt, h)
			c, err := dial(rig.url)
			if err != nil {
				rig.close()
				t.Fatalf("dial: %v", err)
			}
			junk := []byte(`["REQ","flood",{"ids":["` + strings.Repeat("zz", 30000) + `"]}]`)
			stop := make(chan struct{})
			go func() {
				for {
					select {
					case <-stop:
						return
					default:
					}
					// a plain blocking write: a write that times out would make the client library
					// close the connection itself
					if err := c.Write(context.Background(), websocket.MessageText, junk); err != nil {
						return
					}
				}
			}()
			bound := sendTimeout + 4*time.Second
			dropped := false
			select {
			case <-h.ends:
				dropped = true
			case <-time.After(bound):
			}
			close(stop)
			c.CloseNow()
			rig.close()
			if !dropped {
				hx.Fail(t, ev.Failure{Property: "C13", Signature: "stalled-peer-not-dropped", Clause: "a WebSocket peer that stops reading is dropped once a write has been blocked for the send timeout, whatever the other relay options are (the blocked write is a rejection of the peer's own input)",
					Case: desc, Observed: fmt.Sprintf("session still running %v after the flood started", bound), Expected: "ended within send timeout + 4 s"})
			}
			col.Label("flooding-peer:ping=" + ping.String())
			col.Case(true, hx.JSON(desc), func() any { return desc })
		}
	})
}

// TestC13CancelWhileSending: the session is cancelled while the client is in the middle of
// sending (a REQ, EVENT or CLOSE is in flight in some middleware's inbound loop at the very
// moment). Round after round on one handler: ServeNostr returns, nothing panics, and the
// router registry and the gauges are back where they were.
func TestC13CancelWhileSending(t *testing.T) {
	col := ev.For("C13").SetRule(c13Rule)
	rapid.Check(t, func(t *rapid.T) {
		router := mocrelay.NewRouterHandler(4)
		var h mocrelay.Handler = router
		base := rapid.SampledFrom([]string{"router", "router", "cache", "merge(router,cache)"}).Draw(t, "base")
		switch base {
		case "cache":
			h = mocrelay.NewCacheHandler(20)
		case "merge(router,cache)":
			h = mocrelay.NewMergeHandler(router, mocrelay.NewCacheHandler(20))
		}
		reg := prometheus.NewRegistry()
		var wraps []string
		for i, nw := 0, rapid.IntRange(1, 3).Draw(t, "nwrap"); i < nw; i++ {
			w := rapid.SampledFrom([]string{"prometheus", "prometheus", "logging", "maxsubs", "sendunique", "nip11", "maxfilters"}).Draw(t, fmt.Sprintf("wrap%d", i))
			switch w {
			case "prometheus":
				if len(wraps) > 0 && wraps[0] == "prometheus-used" {
					continue
				}
				h = mocrelay.Middleware(mocprom.NewPrometheusMiddleware(reg))(h)
				wraps = append([]string{"prometheus-used"}, wraps...)
			case "logging":
				h = mocrelay.Middleware(mocrelay.NewLoggingMiddleware(slog.New(slog.NewTextHandler(io.Discard, nil))))(h)
			case "maxsubs":
				h = mocrelay.Middleware(mocrelay.NewMaxSubscriptionsMiddleware(50))(h)
			case "sendunique":
				h = mocrelay.Middleware(mocrelay.NewSendEventUniqueFilterMiddleware(8))(h)
			case "nip11":
				h = mocrelay.BuildMiddlewareFromNIP11(&mocrelay.NIP11{Limitation: &mocrelay.NIP11Limitation{MaxSubscriptions: 50, MaxFilters: 3, MaxLimit: 100}})(h)
			case "maxfilters":
				h = mocrelay.Middleware(mocrelay.NewMaxReqFiltersMiddleware(2))(h)
			}
			wraps = append(wraps, w)
		}
		rounds := rapid.IntRange(50, 300).Draw(t, "rounds")
		desc := map[string]any{"composition": base, "wrapped_in": wraps, "rounds": rounds, "scenario": "cancel while the client is sending"}
		time.Sleep(time.Millisecond)
		baseG, _ := mocrelayGoroutines()
		authors := gen.Pubkeys(1)
		for r := 0; r < rounds; r++ {
			ctx, cancel := context.WithCancel(context.Background())
			recv := make(chan mocrelay.ClientMsg)
			send := make(chan mocrelay.ServerMsg)
			ret := make(chan error, 1)
			go func() { ret <- h.ServeNostr(ctx, send, recv) }()
			stop := make(chan struct{})
			senderDone := make(chan struct{})
			go func() {
				defer close(senderDone)
				for i := 0; ; i++ {
					var m mocrelay.ClientMsg
					switch i % 4 {
					case 3:
						// a COUNT (and now and then a REQ) with more filters than an inner limit allows: refused with CLOSED
						fs := []*mocrelay.ReqFilter{{}, {}, {}, {}}
						if i%8 == 7 {
							m = &mocrelay.ClientReqMsg{SubscriptionID: fmt.Sprint("s", i%7), ReqFilters: fs}
						} else {
							m = &mocrelay.ClientCountMsg{SubscriptionID: fmt.Sprint("c", i%5), ReqFilters: fs}
						}
					case 0:
						m = &mocrelay.ClientReqMsg{SubscriptionID: fmt.Sprint("s", i%7), ReqFilters: []*mocrelay.ReqFilter{{Kinds: []int64{1}}}}
					case 1:
						e := &mocrelay.Event{Pubkey: authors[0], Kind: 1, CreatedAt: time.Now().Unix(), Tags: []mocrelay.Tag{}, Content: fmt.Sprint(r, i)}
						gen.Seal(e)
						m = &mocrelay.ClientEventMsg{Event: e}
					default:
						m = &mocrelay.ClientCloseMsg{SubscriptionID: fmt.Sprint("s", (i+3)%7)}
					}
					select {
					case recv <- m:
					case <-send:
					case <-stop:
						return
					}
				}
			}()
			// somewhere within the first few hundred microseconds of traffic
			for k := 0; k < (r*13)%200; k++ {
				runtime.Gosched()
			}
			cancel()
			select {
			case <-ret:
			case <-time.After(5 * time.Second):
				_, sample := mocrelayGoroutines()
				hx.Fail(t, ev.Failure{Property: "C13", Signature: "serve-does-not-return", Clause: "whenever a session's context is cancelled, at any point of any message history, serving returns promptly", Case: desc, Observed: fmt.Sprintf("round %d: not returned after 5 s; a goroutine: %s", r, firstLines(sample, 12))})
			}
			close(stop)
			<-senderDone
		}
		deadline := time.Now().Add(5 * time.Second)
		for {
			cur, sample := mocrelayGoroutines()
			if cur <= baseG {
				break
			}
			if time.Now().After(deadline) {
				hx.Fail(t, ev.Failure{Property: "C13", Signature: "goroutine-leak", Clause: "every goroutine the sessions started has exited", Case: desc,
					Observed: fmt.Sprintf("%d goroutines with a mocrelay frame, baseline %d; one of them: %s", cur, baseG, firstLines(sample, 14))})
			}
			time.Sleep(2 * time.Millisecond)
		}
		if s, c := router.VerifSubscriptionCount(); s != 0 || c != 0 {
			hx.Fail(t, ev.Failure{Property: "C13", Signature: "router-registry-leak", Clause: "afterwards nothing of the session remains: its live subscriptions are gone from the router", Case: desc,
				Observed: fmt.Sprintf("%d subscriptions of %d connections still registered", s, c)})
		}
		if gc, gr := gauges(reg); gc != 0 || gr != 0 {
			hx.Fail(t, ev.Failure{Property: "C13", Signature: "gauge-leak", Clause: "connection/subscription gauges are back to their previous values", Case: desc,
				Observed: fmt.Sprintf("connection gauge %v, subscription gauge %v after all sessions ended", gc, gr)})
		}
		col.Label("scenario:cancel-while-sending")
		col.Case(true, hx.JSON(desc), func() any { return desc })
	})
}
