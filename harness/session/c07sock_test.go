package session

import (
	"context"
	"encoding/json"
	"fmt"
	"net"
	"net/http"
	"os"
	"testing"
	"time"

	"github.com/coder/websocket"
	"github.com/high-moctane/mocrelay"
	"pgregory.net/rapid"

	"verifharness/ev"
	"verifharness/gen"
	"verifharness/hx"
)

// TestC07SameRemoteAddr: a relay with a router behind a unix-domain socket (the usual
// set-up behind a reverse proxy): every peer has the same remote address. Connections are
// still connections: each keeps its own subscriptions, also under the same subscription id,
// and one of them going away does not touch the others'.
func TestC07SameRemoteAddr(t *testing.T) {
	col := ev.For("C07").SetRule("unix-socket: a Relay(RouterHandler) listening on a unix-domain socket (all peers share one RemoteAddr), 2-4 WebSocket connections with subscriptions of the same and of different ids and different filters, published events, one connection closing in between; every open matching subscription receives each event exactly once under its own id, closed connections nothing; non-trivial = two connections use the same subscription id; distinct by hash of the plan")
	rapid.Check(t, func(t *rapid.T) {
		dir, err := os.MkdirTemp("", "verif-sock-")
		if err != nil {
			t.Fatalf("tempdir: %v", err)
		}
		defer os.RemoveAll(dir)
		sock := dir + "/relay.sock"
		ln, err := net.Listen("unix", sock)
		if err != nil {
			t.Fatalf("listen: %v", err)
		}
		router := mocrelay.NewRouterHandler(16)
		srv := &http.Server{Handler: mocrelay.NewRelay(router, openOptions())}
		go srv.Serve(ln)
		defer srv.Close()
		hc := &http.Client{Transport: &http.Transport{DialContext: func(ctx context.Context, _, _ string) (net.Conn, error) {
			return (&net.Dialer{}).DialContext(ctx, "unix", sock)
		}}}
		n := rapid.IntRange(2, 4).Draw(t, "connections")
		kinds := make([]int64, n)
		ids := make([]string, n)
		conns := make([]*websocket.Conn, n)
		sameID := false
		for i := range conns {
			ctx, cancel := context.WithTimeout(context.Background(), waitLong)
			c, _, err := websocket.Dial(ctx, "ws://relay.local/", &websocket.DialOptions{HTTPClient: hc})
			cancel()
			if err != nil {
				t.Fatalf("dial over the unix socket: %v", err)
			}
			defer c.CloseNow()
			c.SetReadLimit(-1)
			startReader(c)
			conns[i] = c
			kinds[i] = rapid.SampledFrom([]int64{1, 7}).Draw(t, fmt.Sprint("kind", i))
			ids[i] = rapid.SampledFrom([]string{"feed", "feed", "other"}).Draw(t, fmt.Sprint("sub", i))
			for j := 0; j < i; j++ {
				if ids[j] == ids[i] {
					sameID = true
				}
			}
		}
		desc := map[string]any{"listener": "unix socket", "connections": n, "subscription_ids": ids, "kinds": kinds}
		failf := func(sig, clause, obs string) {
			hx.Fail(t, ev.Failure{Property: "C07", Signature: sig, Clause: clause, Case: desc, Observed: obs})
		}
		write := func(c *websocket.Conn, v any) {
			b, _ := json.Marshal(v)
			if err := c.Write(context.Background(), websocket.MessageText, b); err != nil {
				failf("stalled", "the relay takes frames", err.Error())
			}
		}
		// next returns the next frame of kind want ("EVENT"/"EOSE"/"OK") on c, or "" on timeout
		next := func(c *websocket.Conn, d time.Duration) []any {
			chv, _ := readers.Load(c)
			select {
			case f := <-chv.(chan wsFrame):
				if f.err != nil {
					return []any{"ERR", f.err.Error()}
				}
				var a []any
				json.Unmarshal(f.b, &a)
				return a
			case <-time.After(d):
				return nil
			}
		}
		for i, c := range conns {
			write(c, []any{"REQ", ids[i], map[string]any{"kinds": []int64{kinds[i]}}})
			if a := next(c, waitLong); len(a) < 2 || a[0] != "EOSE" || a[1] != ids[i] {
				failf("no-eose", "every REQ is answered by EOSE", fmt.Sprint(a))
			}
		}
		alive := make([]bool, n)
		for i := range alive {
			alive[i] = true
		}
		pub := conns[0]
		publish := func(k int64, r int) {
			e := &mocrelay.Event{Kind: k, CreatedAt: int64(1700000000 + r), Tags: []mocrelay.Tag{}, Content: fmt.Sprint("unix ", r)}
			gen.Sign(e, gen.Keys[r%gen.NKeys])
			var doc map[string]any
			b, _ := json.Marshal(e)
			json.Unmarshal(b, &doc)
			write(pub, []any{"EVENT", doc})
			for i, c := range conns {
				if !alive[i] {
					continue
				}
				wantEvent := kinds[i] == k
				gotOK := i != 0
				gotEvent := !wantEvent
				for !(gotOK && gotEvent) {
					a := next(c, 3*time.Second)
					if a == nil {
						failf("delivery-missing", "every subscription of any connection that was open and matches receives the event (all peers share one remote address)", fmt.Sprintf("event %d (kind %d): connection %d (sub %q, kind %d) got OK=%v EVENT=%v", r, k, i, ids[i], kinds[i], gotOK, gotEvent))
					}
					switch a[0] {
					case "OK":
						gotOK = true
					case "EVENT":
						if !wantEvent || gotEvent && wantEvent && false || a[1] != ids[i] {
							failf("delivery-extra", "no subscription that does not match receives the event; deliveries carry the subscription's own id", fmt.Sprintf("connection %d (sub %q, kind %d) received %v", i, ids[i], kinds[i], a[:2]))
						}
						if m, ok := a[2].(map[string]any); !ok || m["id"] != e.ID {
							failf("delivery-extra", "each event is delivered exactly once", fmt.Sprintf("connection %d received another event", i))
						}
						gotEvent = true
					default:
						failf("unexpected-message", "only deliveries and the publisher's OK arrive", fmt.Sprint(a))
					}
				}
				if a := next(c, 2*time.Millisecond); a != nil {
					failf("delivery-extra", "every open matching subscription receives a published event exactly once", fmt.Sprintf("connection %d got an extra frame %v", i, a[:1]))
				}
			}
		}
		r := 0
		for ; r < 3; r++ {
			publish(rapid.SampledFrom([]int64{1, 7}).Draw(t, fmt.Sprint("k", r)), r)
		}
		// one subscriber (not the publisher) goes away; the others keep their subscriptions
		gone := rapid.IntRange(1, n-1).Draw(t, "disconnects")
		conns[gone].Close(websocket.StatusNormalClosure, "")
		alive[gone] = false
		time.Sleep(5 * time.Millisecond)
		for ; r < 6; r++ {
			publish(rapid.SampledFrom([]int64{1, 7}).Draw(t, fmt.Sprint("k", r)), r)
		}
		col.Label("listener:unix-socket")
		col.Case(sameID, hx.JSON(desc), func() any { return desc })
	})
}
