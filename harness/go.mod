module verifharness

go 1.23.0

require (
	github.com/btcsuite/btcd/btcec/v2 v2.3.4
	github.com/coder/websocket v1.8.13
	github.com/high-moctane/mocrelay v0.0.0
	github.com/mattn/go-sqlite3 v1.14.27
	github.com/prometheus/client_golang v1.22.0
	pgregory.net/rapid v1.3.0
)

require (
	github.com/anishathalye/porcupine v1.3.0
	github.com/beorn7/perks v1.0.1 // indirect
	github.com/btcsuite/btcd/chaincfg/chainhash v1.0.1 // indirect
	github.com/cespare/xxhash/v2 v2.3.0 // indirect
	github.com/decred/dcrd/crypto/blake256 v1.0.0 // indirect
	github.com/decred/dcrd/dcrec/secp256k1/v4 v4.0.1 // indirect
	github.com/doug-martin/goqu/v9 v9.19.0 // indirect
	github.com/google/uuid v1.6.0 // indirect
	github.com/hashicorp/golang-lru/v2 v2.0.7 // indirect
	github.com/igrmk/treemap/v2 v2.0.1 // indirect
	github.com/munnerz/goautoneg v0.0.0-20191010083416-a7dc8b61c822 // indirect
	github.com/pierrec/xxHash v0.1.5 // indirect
	github.com/prometheus/client_model v0.6.1 // indirect
	github.com/prometheus/common v0.62.0 // indirect
	github.com/prometheus/procfs v0.15.1 // indirect
	golang.org/x/exp v0.0.0-20220317015231-48e79f11773a // indirect
	golang.org/x/sys v0.30.0 // indirect
	golang.org/x/time v0.11.0 // indirect
	google.golang.org/protobuf v1.36.5 // indirect
)

replace github.com/high-moctane/mocrelay => /repo
