package gen

import (
	"strings"

	"pgregory.net/rapid"
)

// corruption classes ------------------------------------------------------------------------

type Corruption struct {
	Name    string
	Applies func(m *WireMsg) bool
	Apply   func(t *rapid.T, m *WireMsg) JArr
}

// two-byte characters; several have a code point whose low byte is an ASCII hex digit
var nonASCIIHexLookalikes = []string{"ı", "ɡ", "а", "é", "İ", "ö", "ß", "ĳ", "ƒ"}

func upperOneHex(t *rapid.T, s string) string {
	var pos []int
	for i := 0; i < len(s); i++ {
		if s[i] >= 'a' && s[i] <= 'f' {
			pos = append(pos, i)
		}
	}
	if len(pos) == 0 {
		return "A" + s[1:]
	}
	p := rapid.SampledFrom(pos).Draw(t, "uppos")
	return s[:p] + strings.ToUpper(s[p:p+1]) + s[p+1:]
}

func isEv(m *WireMsg) bool  { return m.Label == "EVENT" || m.Label == "AUTH" }
func isFil(m *WireMsg) bool { return m.Label == "REQ" || m.Label == "COUNT" }
func anyMsg(*WireMsg) bool  { return true }

func withEvent(m *WireMsg, f func(o JObj) J) JArr {
	doc := append(JArr(nil), m.Doc...)
	doc[m.EventIdx] = f(doc[m.EventIdx].(JObj))
	return doc
}

func withFilter(t *rapid.T, m *WireMsg, f func(o JObj) J) JArr {
	doc := append(JArr(nil), m.Doc...)
	i := rapid.SampledFrom(m.FilterIdxs).Draw(t, "whichfilter")
	doc[i] = f(doc[i].(JObj))
	return doc
}

func evField(name string, v func(t *rapid.T, old J) J) func(t *rapid.T, m *WireMsg) JArr {
	return func(t *rapid.T, m *WireMsg) JArr {
		return withEvent(m, func(o JObj) J {
			i := ObjGet(o, name)
			return ObjSet(o, name, v(t, o[i].V))
		})
	}
}

func filField(name string, v func(t *rapid.T) J) func(t *rapid.T, m *WireMsg) JArr {
	return func(t *rapid.T, m *WireMsg) JArr {
		return withFilter(t, m, func(o JObj) J { return ObjSet(o, name, v(t)) })
	}
}

func constJ(v J) func(t *rapid.T, old J) J {
	return func(*rapid.T, J) J { return v }
}

func badHexList(kind string) func(t *rapid.T) J {
	return func(t *rapid.T) J {
		good := rapid.StringMatching("[0-9a-f]{64}").Draw(t, "goodhex")
		var bad J
		switch kind {
		case "short":
			bad = JStr(good[:63])
		case "long":
			bad = JStr(good + "0")
		case "upper":
			bad = JStr(upperOneHex(t, good))
		case "nonhex":
			bad = JStr("g" + good[1:])
		case "nonascii":
			bad = JStr(good[:20] + rapid.SampledFrom(nonASCIIHexLookalikes).Draw(t, "nachar") + good[22:])
		case "number":
			bad = JRaw("5")
		case "empty":
			bad = JStr("")
		}
		if rapid.Bool().Draw(t, "badfirst") {
			return JArr{bad, JStr(good)}
		}
		return JArr{JStr(good), bad}
	}
}

// Corruptions is the list of single-point corruption classes of a well-formed client message.
var Corruptions = func() []Corruption {
	cs := []Corruption{
		{"label-unknown", anyMsg, func(t *rapid.T, m *WireMsg) JArr {
			doc := append(JArr(nil), m.Doc...)
			doc[0] = JStr(rapid.SampledFrom([]string{"EVENTS", "event", "", "NOTICE", "OK", "EOSE", "REQ ", " REQ", "CLOSED"}).Draw(t, "badlabel"))
			return doc
		}},
		{"label-not-string", anyMsg, func(t *rapid.T, m *WireMsg) JArr {
			doc := append(JArr(nil), m.Doc...)
			doc[0] = rapid.SampledFrom([]J{JRaw("1"), JRaw("null"), JArr{JStr(m.Label)}, JRaw("true")}).Draw(t, "badlabel")
			return doc
		}},
		{"arity-extra", anyMsg, func(t *rapid.T, m *WireMsg) JArr {
			return append(append(JArr(nil), m.Doc...), JStr("extra"))
		}},
		{"arity-missing", anyMsg, func(t *rapid.T, m *WireMsg) JArr {
			if isFil(m) {
				return append(JArr(nil), m.Doc[:2]...)
			}
			return append(JArr(nil), m.Doc[:len(m.Doc)-1]...)
		}},
		{"arity-label-only", anyMsg, func(t *rapid.T, m *WireMsg) JArr { return JArr{m.Doc[0]} }},
		{"subid-not-string", func(m *WireMsg) bool { return isFil(m) || m.Label == "CLOSE" }, func(t *rapid.T, m *WireMsg) JArr {
			doc := append(JArr(nil), m.Doc...)
			doc[1] = rapid.SampledFrom([]J{JRaw("1"), JRaw("null"), JArr{}, JObj{}}).Draw(t, "badsub")
			return doc
		}},
		// events
		{"event-not-object", isEv, func(t *rapid.T, m *WireMsg) JArr {
			doc := append(JArr(nil), m.Doc...)
			doc[m.EventIdx] = rapid.SampledFrom([]J{JStr("x"), JArr{}, JRaw("1"), JRaw("true")}).Draw(t, "badev")
			return doc
		}},
		{"event-member-missing", isEv, func(t *rapid.T, m *WireMsg) JArr {
			k := rapid.SampledFrom([]string{"id", "pubkey", "created_at", "kind", "tags", "content", "sig"}).Draw(t, "drop")
			return withEvent(m, func(o JObj) J { return ObjDel(o, k) })
		}},
		{"event-member-missing-and-duplicate", isEv, func(t *rapid.T, m *WireMsg) JArr {
			keys := []string{"id", "pubkey", "created_at", "kind", "tags", "content", "sig"}
			k := rapid.SampledFrom(keys).Draw(t, "drop")
			d := rapid.SampledFrom(keys).Draw(t, "dup")
			return withEvent(m, func(o JObj) J {
				out := ObjDel(o, k)
				if i := ObjGet(out, d); i >= 0 {
					out = append(out, out[i])
				}
				return out
			})
		}},
		{"event-member-extra", isEv, func(t *rapid.T, m *WireMsg) JArr {
			k := rapid.SampledFrom([]string{"foo", "ID", "Id", "", "kinds"}).Draw(t, "extra")
			return withEvent(m, func(o JObj) J { return append(append(JObj(nil), o...), JField{K: k, V: JRaw("1")}) })
		}},
		{"event-member-renamed", isEv, func(t *rapid.T, m *WireMsg) JArr {
			k := rapid.SampledFrom([]string{"id", "pubkey", "created_at", "kind", "tags", "content", "sig"}).Draw(t, "ren")
			return withEvent(m, func(o JObj) J {
				out := append(JObj(nil), o...)
				i := ObjGet(out, k)
				out[i] = JField{K: strings.ToUpper(k), V: out[i].V}
				return out
			})
		}},
	}
	for _, f := range []string{"id", "pubkey", "sig"} {
		f := f
		cs = append(cs,
			Corruption{"event-" + f + "-short", isEv, evField(f, func(t *rapid.T, old J) J { s := string(old.(JStr)); return JStr(s[:len(s)-1]) })},
			Corruption{"event-" + f + "-long", isEv, evField(f, func(t *rapid.T, old J) J { return JStr(string(old.(JStr)) + "0") })},
			Corruption{"event-" + f + "-upper", isEv, evField(f, func(t *rapid.T, old J) J { return JStr(upperOneHex(t, string(old.(JStr)))) })},
			Corruption{"event-" + f + "-nonhex", isEv, evField(f, func(t *rapid.T, old J) J { s := string(old.(JStr)); return JStr(s[:len(s)-1] + "z") })},
			Corruption{"event-" + f + "-nonascii", isEv, evField(f, func(t *rapid.T, old J) J {
				// one two-byte character in place of two hex digits: the byte length stays right
				s := string(old.(JStr))
				pos := rapid.IntRange(0, len(s)-2).Draw(t, "napos")
				return JStr(s[:pos] + rapid.SampledFrom(nonASCIIHexLookalikes).Draw(t, "nachar") + s[pos+2:])
			})},
			Corruption{"event-" + f + "-empty", isEv, evField(f, constJ(JStr("")))},
			Corruption{"event-" + f + "-number", isEv, evField(f, constJ(JRaw("12")))},
			Corruption{"event-" + f + "-null", isEv, evField(f, constJ(JRaw("null")))},
		)
	}
	cs = append(cs,
		Corruption{"event-kind-negative", isEv, evField("kind", func(t *rapid.T, old J) J {
			return JInt(rapid.SampledFrom([]int64{-1, -5, -65535, -1 << 40}).Draw(t, "k"))
		})},
		Corruption{"event-kind-too-large", isEv, evField("kind", func(t *rapid.T, old J) J {
			return JInt(rapid.SampledFrom([]int64{65536, 70000, 100000, 1 << 40}).Draw(t, "k"))
		})},
		Corruption{"event-kind-string", isEv, evField("kind", constJ(JStr("1")))},
		Corruption{"event-kind-float", isEv, evField("kind", constJ(JRaw("1.5")))},
		Corruption{"event-kind-null", isEv, evField("kind", constJ(JRaw("null")))},
		Corruption{"event-created_at-string", isEv, evField("created_at", constJ(JStr("1700000000")))},
		Corruption{"event-created_at-float", isEv, evField("created_at", constJ(JRaw("1700000000.5")))},
		Corruption{"event-created_at-bool", isEv, evField("created_at", constJ(JRaw("true")))},
		Corruption{"event-content-number", isEv, evField("content", constJ(JRaw("0")))},
		Corruption{"event-content-array", isEv, evField("content", constJ(JArr{JStr("x")}))},
		Corruption{"event-tags-object", isEv, evField("tags", constJ(JObj{}))},
		Corruption{"event-tags-string", isEv, evField("tags", constJ(JStr("[]")))},
		Corruption{"event-tags-member-string", isEv, evField("tags", constJ(JArr{JStr("e")}))},
		Corruption{"event-tag-element-number", isEv, evField("tags", constJ(JArr{JArr{JStr("e"), JRaw("1")}}))},
		Corruption{"event-tags-element-null", isEv, evField("tags", constJ(JArr{JRaw("null"), JArr{JStr("t"), JStr("x")}}))},
		Corruption{"event-tag-element-null", isEv, evField("tags", constJ(JArr{JArr{JStr("e"), JRaw("null")}}))},
		// filters
		Corruption{"filter-not-object", isFil, func(t *rapid.T, m *WireMsg) JArr {
			doc := append(JArr(nil), m.Doc...)
			i := rapid.SampledFrom(m.FilterIdxs).Draw(t, "whichfilter")
			doc[i] = rapid.SampledFrom([]J{JStr("x"), JArr{}, JRaw("1"), JRaw("false")}).Draw(t, "badfilter")
			return doc
		}},
		Corruption{"filter-tag-name-not-single-letter", isFil, func(t *rapid.T, m *WireMsg) JArr {
			k := rapid.SampledFrom([]string{"#ab", "#1", "#", "##", "#é", "#_", "#eE"}).Draw(t, "key")
			return withFilter(t, m, func(o JObj) J { return append(append(JObj(nil), o...), JField{K: k, V: JArr{}}) })
		}},
	)
	cs = append(cs, Corruption{"filter-member-unknown", isFil, func(t *rapid.T, m *WireMsg) JArr {
		k := rapid.SampledFrom([]string{"foo", "IDS", "Ids", "search", "", "e", "kind"}).Draw(t, "key")
		return withFilter(t, m, func(o JObj) J { return append(append(JObj(nil), o...), JField{K: k, V: JArr{}}) })
	}})
	for _, f := range []string{"ids", "authors", "#e", "#p"} {
		for _, kind := range []string{"short", "long", "upper", "nonhex", "nonascii", "number", "empty"} {
			cs = append(cs, Corruption{"filter-" + f + "-" + kind, isFil, filField(f, badHexList(kind))})
		}
		cs = append(cs, Corruption{"filter-" + f + "-not-array", isFil, filField(f, func(t *rapid.T) J {
			return JStr(rapid.StringMatching("[0-9a-f]{64}").Draw(t, "h"))
		})})
	}
	cs = append(cs,
		Corruption{"filter-kinds-negative", isFil, filField("kinds", func(t *rapid.T) J {
			return JArr{JInt(1), JInt(rapid.SampledFrom([]int64{-1, -5, -70000}).Draw(t, "k"))}
		})},
		Corruption{"filter-kinds-too-large", isFil, filField("kinds", func(t *rapid.T) J {
			return JArr{JInt(rapid.SampledFrom([]int64{65536, 70000, 1 << 33}).Draw(t, "k")), JInt(1)}
		})},
		Corruption{"filter-kinds-element-null", isFil, filField("kinds", func(t *rapid.T) J { return JArr{JInt(1), JRaw("null"), JInt(2)} })},
		Corruption{"filter-tag-value-element-null", isFil, filField("#t", func(t *rapid.T) J { return JArr{JStr("x"), JRaw("null")} })},
		Corruption{"filter-ids-element-null", isFil, filField("ids", func(t *rapid.T) J {
			return JArr{JStr(rapid.StringMatching("[0-9a-f]{64}").Draw(t, "h")), JRaw("null")}
		})},
		Corruption{"filter-kinds-string", isFil, filField("kinds", func(t *rapid.T) J { return JArr{JStr("1")} })},
		Corruption{"filter-kinds-float", isFil, filField("kinds", func(t *rapid.T) J { return JArr{JRaw("1.5")} })},
		Corruption{"filter-kinds-not-array", isFil, filField("kinds", func(t *rapid.T) J { return JInt(1) })},
		Corruption{"filter-tag-value-number", isFil, filField("#t", func(t *rapid.T) J { return JArr{JStr("x"), JRaw("1")} })},
		Corruption{"filter-tag-not-array", isFil, filField("#t", func(t *rapid.T) J { return JStr("x") })},
		Corruption{"filter-tag-object", isFil, filField("#t", func(t *rapid.T) J { return JObj{} })},
		Corruption{"filter-a-two-parts", isFil, filField("#a", func(t *rapid.T) J {
			return JArr{JStr("30000:" + rapid.StringMatching("[0-9a-f]{64}").Draw(t, "pk"))}
		})},
		Corruption{"filter-a-one-part", isFil, filField("#a", func(t *rapid.T) J { return JArr{JStr("30000")} })},
		Corruption{"filter-a-kind-not-number", isFil, filField("#a", func(t *rapid.T) J {
			return JArr{JStr("x:" + rapid.StringMatching("[0-9a-f]{64}").Draw(t, "pk") + ":d")}
		})},
		Corruption{"filter-a-kind-out-of-range", isFil, filField("#a", func(t *rapid.T) J {
			k := rapid.SampledFrom([]string{"70000", "-1", "65536"}).Draw(t, "k")
			return JArr{JStr(k + ":" + rapid.StringMatching("[0-9a-f]{64}").Draw(t, "pk") + ":d")}
		})},
		Corruption{"filter-a-pubkey-bad", isFil, filField("#a", func(t *rapid.T) J {
			pk := rapid.StringMatching("[0-9a-f]{64}").Draw(t, "pk")
			bad := rapid.SampledFrom([]string{pk[:63], pk + "0", upperOneHexNoDraw(pk), "abc"}).Draw(t, "badpk")
			return JArr{JStr("30000:" + bad + ":d")}
		})},
	)
	for _, f := range []string{"since", "until", "limit"} {
		f := f
		cs = append(cs,
			Corruption{"filter-" + f + "-negative", isFil, filField(f, func(t *rapid.T) J {
				return JInt(rapid.SampledFrom([]int64{-1, -1700000000}).Draw(t, "neg"))
			})},
			Corruption{"filter-" + f + "-string", isFil, filField(f, func(t *rapid.T) J { return JStr("10") })},
			Corruption{"filter-" + f + "-float", isFil, filField(f, func(t *rapid.T) J { return JRaw("10.5") })},
			Corruption{"filter-" + f + "-array", isFil, filField(f, func(t *rapid.T) J { return JArr{JInt(1)} })},
		)
	}
	return cs
}()

func upperOneHexNoDraw(s string) string {
	for i := 0; i < len(s); i++ {
		if s[i] >= 'a' && s[i] <= 'f' {
			return s[:i] + strings.ToUpper(s[i:i+1]) + s[i+1:]
		}
	}
	return "A" + s[1:]
}

// MustReject: corruptions after which the message contains an event or
// filter that breaks one of the constraints the property lists, so accepting it
// is a violation of the converse. The remaining (structural) classes - unknown
// label, arity, sub id type, extra/unknown members, JSON null - are only
// required to yield a sound value if accepted; their rejection is demanded by
// C12, not by C11.
func MustReject(name string) bool {
	// JSON null in place of a whole value is not claimed either way; a null *element* of a
	// list is a wrongly typed element and must be rejected
	if strings.HasSuffix(name, "-null") && !strings.HasSuffix(name, "-element-null") {
		return false
	}
	switch name {
	case "label-unknown", "label-not-string", "arity-extra", "arity-missing", "arity-label-only", "subid-not-string",
		"event-not-object", "filter-not-object", "event-member-extra":
		return false
	}
	if name == "filter-member-unknown" {
		return false
	}
	return strings.HasPrefix(name, "event-") || strings.HasPrefix(name, "filter-")
}
