package gen

import (
	"pgregory.net/rapid"
)

var mutTokens = []string{"null", "true", "1", "-1", "0", "1e400", "-0", "1.5", "\"\"", "[]", "{}", "[", "]", "{", "}", ",", ":", "\"", "\\",
	"\\ud800", "\\u0000", "\xff", "\xc3", " ", "\n", "[[[[[[[[", "]]]]]]]]", "65536", "-5", "A", "#"}

// MutateText applies 1-3 near-miss mutations to a JSON text: token deletion,
// duplication, replacement by hostile tokens, truncation, case flips.
func MutateText(t *rapid.T, s string) string {
	b := []byte(s)
	n := rapid.IntRange(1, 3).Draw(t, "nmut")
	for i := 0; i < n; i++ {
		if len(b) == 0 {
			b = []byte(rapid.SampledFrom(mutTokens).Draw(t, "tok"))
			continue
		}
		pos := rapid.IntRange(0, len(b)-1).Draw(t, "mpos")
		switch rapid.IntRange(0, 7).Draw(t, "mkind") {
		case 0: // delete a byte
			b = append(b[:pos:pos], b[pos+1:]...)
		case 1: // delete a span
			l := rapid.IntRange(1, 12).Draw(t, "mlen")
			end := pos + l
			if end > len(b) {
				end = len(b)
			}
			b = append(b[:pos:pos], b[end:]...)
		case 2: // duplicate a span
			l := rapid.IntRange(1, 20).Draw(t, "mlen")
			end := pos + l
			if end > len(b) {
				end = len(b)
			}
			span := append([]byte(nil), b[pos:end]...)
			b = append(b[:end:end], append(span, b[end:]...)...)
		case 3: // insert a hostile token
			tok := rapid.SampledFrom(mutTokens).Draw(t, "tok")
			b = append(b[:pos:pos], append([]byte(tok), b[pos:]...)...)
		case 4: // replace a byte by a token
			tok := rapid.SampledFrom(mutTokens).Draw(t, "tok")
			b = append(b[:pos:pos], append([]byte(tok), b[pos+1:]...)...)
		case 5: // truncate
			b = b[:pos]
		case 6: // flip case / digit
			c := b[pos]
			switch {
			case 'a' <= c && c <= 'z':
				b[pos] = c - 32
			case 'A' <= c && c <= 'Z':
				b[pos] = c + 32
			case '0' <= c && c <= '9':
				b[pos] = '0' + (c-'0'+1)%10
			default:
				b[pos] = byte(rapid.IntRange(0, 255).Draw(t, "byte"))
			}
		case 7: // arbitrary byte
			b[pos] = byte(rapid.IntRange(0, 255).Draw(t, "byte"))
		}
	}
	return string(b)
}
