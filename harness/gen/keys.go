package gen

import (
	"crypto/sha256"
	"encoding/hex"
	"fmt"

	"github.com/btcsuite/btcd/btcec/v2"
	"github.com/btcsuite/btcd/btcec/v2/schnorr"
	"github.com/high-moctane/mocrelay"
)

// Key is one of a fixed pool of secp256k1 key pairs (seed-pure: derived from
// constants, never from an RNG).
type Key struct {
	Priv *btcec.PrivateKey
	Pub  string // x-only public key, lower-case hex
}

// Keys is the fixed pool; NKeys real key pairs.
var Keys []Key

const NKeys = 6

func init() {
	for i := 0; i < NKeys; i++ {
		h := sha256.Sum256([]byte(fmt.Sprintf("verif-harness-key-%d", i)))
		priv, pub := btcec.PrivKeyFromBytes(h[:])
		Keys = append(Keys, Key{Priv: priv, Pub: hex.EncodeToString(schnorr.SerializePubKey(pub))})
	}
}

// OffCurvePubkeys are 32-byte values that are no x coordinate of a curve point (found
// by search at start-up, seed-pure), plus the field prime and the all-ones value.
var OffCurvePubkeys []string

// secp256k1's field prime p and group order n as 32-byte hex: out of range as r / s of a signature.
const (
	FieldPrimeHex = "fffffffffffffffffffffffffffffffffffffffffffffffffffffffefffffc2f"
	GroupOrderHex = "fffffffffffffffffffffffffffffffebaaedce6af48a03bbfd25e8cd0364141"
)

func init() {
	for i := 0; len(OffCurvePubkeys) < 4; i++ {
		h := sha256.Sum256([]byte(fmt.Sprintf("verif-off-curve-%d", i)))
		if _, err := schnorr.ParsePubKey(h[:]); err != nil {
			OffCurvePubkeys = append(OffCurvePubkeys, hex.EncodeToString(h[:]))
		}
	}
	OffCurvePubkeys = append(OffCurvePubkeys, FieldPrimeHex, "ffffffffffffffffffffffffffffffffffffffffffffffffffffffffffffffff")
}

// Pubkeys returns the first n pubkeys of the pool.
func Pubkeys(n int) []string {
	out := make([]string, n)
	for i := range out {
		out[i] = Keys[i].Pub
	}
	return out
}

// KeyFor finds the key pair of a pubkey of the pool.
func KeyFor(pub string) (Key, bool) {
	for _, k := range Keys {
		if k.Pub == pub {
			return k, true
		}
	}
	return Key{}, false
}

// Sign sets Pubkey, ID (own canonical serializer) and a real BIP-340
// signature (btcec, deterministic RFC6979 nonce).
func Sign(ev *mocrelay.Event, k Key) {
	ev.Pubkey = k.Pub
	if ev.Tags == nil {
		ev.Tags = []mocrelay.Tag{}
	}
	h := sha256.Sum256(Canonical(ev))
	ev.ID = hex.EncodeToString(h[:])
	sig, err := schnorr.Sign(k.Priv, h[:])
	if err != nil {
		panic(err)
	}
	ev.Sig = hex.EncodeToString(sig.Serialize())
}

// Seal makes the event structurally valid without the cost of signing:
// id = sha256(canonical) (so same id <=> same signed fields), sig = 128 hex
// chars derived from the id.
func Seal(ev *mocrelay.Event) {
	if ev.Tags == nil {
		ev.Tags = []mocrelay.Tag{}
	}
	h := sha256.Sum256(Canonical(ev))
	ev.ID = hex.EncodeToString(h[:])
	h2 := sha256.Sum256(h[:])
	ev.Sig = hex.EncodeToString(h[:]) + hex.EncodeToString(h2[:])
}

// DerivedKey returns the i-th key of an unbounded, seed-pure family (for checks that need
// more distinct authors than the fixed pool has).
func DerivedKey(i int) Key {
	h := sha256.Sum256([]byte(fmt.Sprintf("verif-derived-key-%d", i)))
	priv, pub := btcec.PrivKeyFromBytes(h[:])
	return Key{Priv: priv, Pub: hex.EncodeToString(schnorr.SerializePubKey(pub))}
}

// SignIDWith recomputes the id over the event's own fields (whatever pubkey it claims) and
// signs that id with k: a signature that is valid under k, not under the claimed pubkey.
func SignIDWith(ev *mocrelay.Event, k Key) {
	if ev.Tags == nil {
		ev.Tags = []mocrelay.Tag{}
	}
	h := sha256.Sum256(Canonical(ev))
	ev.ID = hex.EncodeToString(h[:])
	sig, err := schnorr.Sign(k.Priv, h[:])
	if err != nil {
		panic(err)
	}
	ev.Sig = hex.EncodeToString(sig.Serialize())
}
