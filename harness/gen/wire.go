package gen

import (
	"fmt"
	"math"
	"sort"
	"strings"

	"github.com/high-moctane/mocrelay"
	"pgregory.net/rapid"
)

// Wire-level generators: NIP-01 well-formed client messages as JSON document
// trees (jsontext.go) together with the value a correct decoder must produce.

// WireMsg is a generated well-formed client message.
type WireMsg struct {
	Label string
	Doc   JArr                  // the JSON document
	Event *mocrelay.Event       // EVENT / AUTH
	SubID string                // REQ / COUNT / CLOSE
	Fs    []*mocrelay.ReqFilter // REQ / COUNT
	// where the event / filter objects sit inside Doc (for corruptions)
	EventIdx   int
	FilterIdxs []int
	Optional   int // number of optional parts present (filter members)
}

func hex64(t *rapid.T, label string) string {
	return rapid.StringMatching("[0-9a-f]{64}").Draw(t, label)
}

// WireEventDoc renders an event as an object with members in a generated order.
func WireEventDoc(t *rapid.T, e *mocrelay.Event, label string) JObj {
	tags := JArr{}
	for _, tg := range e.Tags {
		a := JArr{}
		for _, s := range tg {
			a = append(a, JStr(s))
		}
		tags = append(tags, a)
	}
	fields := []JField{
		{"id", JStr(e.ID)}, {"pubkey", JStr(e.Pubkey)}, {"created_at", JInt(e.CreatedAt)},
		{"kind", JInt(e.Kind)}, {"tags", tags}, {"content", JStr(e.Content)}, {"sig", JStr(e.Sig)},
	}
	perm := rapid.Permutation(fields).Draw(t, label+"order")
	return JObj(perm)
}

// WireEvent draws a structurally well-formed event (sealed, not signed unless sign).
func WireEvent(t *rapid.T, label string, sign bool) *mocrelay.Event {
	e := &mocrelay.Event{}
	e.Kind = AnyKind().Draw(t, label+"kind")
	e.CreatedAt = rapid.OneOf(rapid.Int64Range(0, 1<<40), rapid.Just(int64(0)), rapid.Int64Range(1600000000, 1800000000),
		rapid.SampledFrom([]int64{math.MinInt64, math.MinInt64 + 1, -1, math.MaxInt64, 1<<53 + 1})).Draw(t, label+"ts")
	n := rapid.IntRange(0, 4).Draw(t, label+"ntags")
	e.Tags = []mocrelay.Tag{}
	for i := 0; i < n; i++ {
		ne := rapid.IntRange(1, 4).Draw(t, fmt.Sprintf("%st%dn", label, i))
		tag := mocrelay.Tag{}
		for j := 0; j < ne; j++ {
			var s string
			if j == 0 {
				s = rapid.OneOf(rapid.SampledFrom([]string{"e", "p", "d", "t", "a", "nonce", "E"}), UnicodeString(3)).Draw(t, fmt.Sprintf("%st%d.%d", label, i, j))
				if s == "" {
					s = "x"
				}
			} else {
				s = UnicodeString(8).Draw(t, fmt.Sprintf("%st%d.%d", label, i, j))
			}
			tag = append(tag, s)
		}
		e.Tags = append(e.Tags, tag)
	}
	e.Content = UnicodeString(24).Draw(t, label+"content")
	if sign {
		Sign(e, Keys[rapid.IntRange(0, NKeys-1).Draw(t, label+"key")])
	} else {
		e.Pubkey = rapid.OneOf(rapid.SampledFrom(Pubkeys(NKeys)), rapid.StringMatching("[0-9a-f]{64}"), rapid.SampledFrom(OffCurvePubkeys)).Draw(t, label+"pk")
		Seal(e)
		// a signature is 128 lower-case hex digits; whether it can be parsed or verified is not
		// a matter of form
		switch rapid.IntRange(0, 9).Draw(t, label+"sigshape") {
		case 0:
			e.Sig = strings.Repeat("f", 128)
		case 1:
			e.Sig = strings.Repeat("0", 128)
		case 2:
			e.Sig = FieldPrimeHex + GroupOrderHex
		}
	}
	return e
}

// WireFilter draws a well-formed filter and its document.
func WireFilter(t *rapid.T, label string) (*mocrelay.ReqFilter, JObj, int) {
	f := &mocrelay.ReqFilter{}
	var fields []JField
	opt := 0
	strs := func(vs []string) JArr {
		a := JArr{}
		for _, v := range vs {
			a = append(a, JStr(v))
		}
		return a
	}
	pres := func(name string) bool { return rapid.IntRange(0, 2).Draw(t, label+name+"?") == 0 }
	if pres("ids") {
		f.IDs = rapid.SliceOfN(rapid.StringMatching("[0-9a-f]{64}"), 0, 3).Draw(t, label+"ids")
		if f.IDs == nil {
			f.IDs = []string{}
		}
		fields = append(fields, JField{"ids", strs(f.IDs)})
		opt++
	}
	if pres("authors") {
		f.Authors = rapid.SliceOfN(rapid.StringMatching("[0-9a-f]{64}"), 0, 3).Draw(t, label+"authors")
		if f.Authors == nil {
			f.Authors = []string{}
		}
		fields = append(fields, JField{"authors", strs(f.Authors)})
		opt++
	}
	if pres("kinds") {
		f.Kinds = rapid.SliceOfN(AnyKind(), 0, 4).Draw(t, label+"kinds")
		if f.Kinds == nil {
			f.Kinds = []int64{}
		}
		a := JArr{}
		for _, k := range f.Kinds {
			a = append(a, JInt(k))
		}
		fields = append(fields, JField{"kinds", a})
		opt++
	}
	ntags := rapid.SampledFrom([]int{0, 0, 1, 1, 2, 3}).Draw(t, label+"ntags")
	for i := 0; i < ntags; i++ {
		name := rapid.OneOf(rapid.SampledFrom([]string{"e", "p", "a", "t", "d", "E", "P", "A"}), rapid.StringMatching("[a-zA-Z]")).Draw(t, fmt.Sprintf("%stag%d", label, i))
		if f.Tags != nil {
			if _, dup := f.Tags[name]; dup {
				continue
			}
		}
		var vals []string
		nv := rapid.IntRange(0, 3).Draw(t, fmt.Sprintf("%stag%dn", label, i))
		for j := 0; j < nv; j++ {
			l := fmt.Sprintf("%stag%d.%d", label, i, j)
			switch name {
			case "e", "p":
				vals = append(vals, hex64(t, l))
			case "a":
				d := rapid.OneOf(rapid.SampledFrom([]string{"", "x", "a:b", ":", "::x", "é:ü", "line1\nline2", "\n", "tab\there", "\r\n"}), UnicodeString(6)).Draw(t, l+"d")
				vals = append(vals, AddrString(AnyKind().Draw(t, l+"k"), hex64(t, l+"pk"), d))
			default:
				vals = append(vals, UnicodeString(6).Draw(t, l))
			}
		}
		if vals == nil {
			vals = []string{}
		}
		if f.Tags == nil {
			f.Tags = map[string][]string{}
		}
		f.Tags[name] = vals
		fields = append(fields, JField{"#" + name, strs(vals)})
		opt++
	}
	var since int64
	if pres("since") {
		since = rapid.OneOf(rapid.Int64Range(0, 1<<40), rapid.Just(int64(0)), rapid.SampledFrom(bigInts)).Draw(t, label+"since")
		f.Since = Ptr(since)
		fields = append(fields, JField{"since", JInt(since)})
		opt++
	}
	if pres("until") {
		// since <= until: the relay deliberately rejects since > until; the properties are
		// silent on it, so the class is not generated (see DESIGN.md, C11).
		until := since + rapid.OneOf(rapid.Int64Range(0, 1<<40), rapid.Just(int64(0))).Draw(t, label+"until")
		if rapid.IntRange(0, 5).Draw(t, label+"untilbig") == 0 {
			// integers a float64 cannot hold exactly
			if b := rapid.SampledFrom(bigInts).Draw(t, label+"untilbigv"); b >= since {
				until = b
			}
		}
		if until < since { // overflow of the sum
			until = math.MaxInt64
		}
		f.Until = Ptr(until)
		fields = append(fields, JField{"until", JInt(until)})
		opt++
	}
	if pres("limit") {
		l := rapid.OneOf(rapid.Int64Range(0, 5000), rapid.Just(int64(0)), rapid.SampledFrom(bigInts)).Draw(t, label+"limit")
		f.Limit = Ptr(l)
		fields = append(fields, JField{"limit", JInt(l)})
		opt++
	}
	perm := rapid.Permutation(fields).Draw(t, label+"order")
	return f, JObj(perm), opt
}

// FilterDoc writes an existing filter value as a JSON document (members in NIP-01 order,
// tag conditions sorted by name).
func FilterDoc(f *mocrelay.ReqFilter) JObj {
	var fields []JField
	strs := func(vs []string) JArr {
		a := JArr{}
		for _, v := range vs {
			a = append(a, JStr(v))
		}
		return a
	}
	if f.IDs != nil {
		fields = append(fields, JField{"ids", strs(f.IDs)})
	}
	if f.Authors != nil {
		fields = append(fields, JField{"authors", strs(f.Authors)})
	}
	if f.Kinds != nil {
		a := JArr{}
		for _, k := range f.Kinds {
			a = append(a, JInt(k))
		}
		fields = append(fields, JField{"kinds", a})
	}
	names := make([]string, 0, len(f.Tags))
	for n := range f.Tags {
		names = append(names, n)
	}
	sort.Strings(names)
	for _, n := range names {
		fields = append(fields, JField{"#" + n, strs(f.Tags[n])})
	}
	if f.Since != nil {
		fields = append(fields, JField{"since", JInt(*f.Since)})
	}
	if f.Until != nil {
		fields = append(fields, JField{"until", JInt(*f.Until)})
	}
	if f.Limit != nil {
		fields = append(fields, JField{"limit", JInt(*f.Limit)})
	}
	return JObj(fields)
}

// bigInts are valid NIP-01 integers that do not survive a detour through float64.
var bigInts = []int64{1<<53 + 1, 1<<53 - 1, 1 << 53, 1<<62 + 3, math.MaxInt64, math.MaxInt64 - 1, 9007199254740993}

// SubID draws a subscription id (1..64 characters).
func SubID(t *rapid.T, label string) string {
	s := rapid.OneOf(
		rapid.SampledFrom([]string{"a", "sub1", "x:y", "0"}),
		rapid.StringMatching("[a-zA-Z0-9_:-]{1,64}"),
		UnicodeString(10),
		// 64 characters, more than 64 bytes
		rapid.Map(rapid.SliceOfN(rapid.SampledFrom([]rune("éあ😀ß")), 20, 64), func(r []rune) string { return string(r) }),
	).Draw(t, label)
	if s == "" {
		s = "s"
	}
	return s
}

// WireClientMsg draws a well-formed client message of the given label ("" = any).
func WireClientMsg(t *rapid.T, label string, sign bool) *WireMsg {
	if label == "" {
		label = rapid.SampledFrom([]string{"EVENT", "REQ", "REQ", "CLOSE", "AUTH", "COUNT"}).Draw(t, "label")
	}
	m := &WireMsg{Label: label}
	switch label {
	case "EVENT", "AUTH":
		m.Event = WireEvent(t, "ev.", sign)
		m.Doc = JArr{JStr(label), WireEventDoc(t, m.Event, "ev.")}
		m.EventIdx = 1
	case "REQ", "COUNT":
		m.SubID = SubID(t, "subid")
		m.Doc = JArr{JStr(label), JStr(m.SubID)}
		n := rapid.IntRange(1, 3).Draw(t, "nfilters")
		for i := 0; i < n; i++ {
			f, doc, opt := WireFilter(t, fmt.Sprintf("f%d.", i))
			m.Fs = append(m.Fs, f)
			m.FilterIdxs = append(m.FilterIdxs, len(m.Doc))
			m.Doc = append(m.Doc, doc)
			m.Optional += opt
		}
	case "CLOSE":
		m.SubID = SubID(t, "subid")
		m.Doc = JArr{JStr(label), JStr(m.SubID)}
	}
	return m
}

// FilterEqual compares two filters semantically: absent vs present-empty lists
// are different (an empty list matches nothing), order inside lists matters
// not for matching but the codec preserves it, so it is compared exactly.
func FilterEqual(a, b *mocrelay.ReqFilter) bool {
	if a == nil || b == nil {
		return a == b
	}
	eqS := func(x, y []string) bool {
		if (x == nil) != (y == nil) || len(x) != len(y) {
			return false
		}
		for i := range x {
			if x[i] != y[i] {
				return false
			}
		}
		return true
	}
	if !eqS(a.IDs, b.IDs) || !eqS(a.Authors, b.Authors) {
		return false
	}
	if (a.Kinds == nil) != (b.Kinds == nil) || len(a.Kinds) != len(b.Kinds) {
		return false
	}
	for i := range a.Kinds {
		if a.Kinds[i] != b.Kinds[i] {
			return false
		}
	}
	if len(a.Tags) != len(b.Tags) {
		return false
	}
	for k, v := range a.Tags {
		w, ok := b.Tags[k]
		if !ok || !eqS(v, w) {
			return false
		}
	}
	eqP := func(x, y *int64) bool {
		if x == nil || y == nil {
			return x == y
		}
		return *x == *y
	}
	return eqP(a.Since, b.Since) && eqP(a.Until, b.Until) && eqP(a.Limit, b.Limit)
}

func FiltersEqual(a, b []*mocrelay.ReqFilter) bool {
	if len(a) != len(b) {
		return false
	}
	for i := range a {
		if !FilterEqual(a[i], b[i]) {
			return false
		}
	}
	return true
}

// StrictEvent is the NIP-01 well-formedness predicate for an event that passed
// the admission gate (C11 soundness), liberal exactly where the property is silent.
func StrictEvent(e *mocrelay.Event) (bool, string) {
	if e == nil {
		return false, "nil event"
	}
	if !IsHex64(e.ID) {
		return false, "id is not 64 lower-case hex"
	}
	if !IsHex64(e.Pubkey) {
		return false, "pubkey is not 64 lower-case hex"
	}
	if !IsHex128(e.Sig) {
		return false, "sig is not 128 lower-case hex"
	}
	if e.Kind < 0 || e.Kind > 65535 {
		return false, fmt.Sprintf("kind %d outside 0..65535", e.Kind)
	}
	if e.Tags == nil {
		return false, "tags missing"
	}
	for _, tg := range e.Tags {
		if tg == nil {
			return false, "nil tag"
		}
	}
	return true, ""
}

// StrictFilter is the NIP-01 well-formedness predicate for a filter.
func StrictFilter(f *mocrelay.ReqFilter) (bool, string) {
	if f == nil {
		return false, "nil filter"
	}
	for _, id := range f.IDs {
		if !IsHex64(id) {
			return false, "ids entry is not 64 lower-case hex"
		}
	}
	for _, a := range f.Authors {
		if !IsHex64(a) {
			return false, "authors entry is not 64 lower-case hex"
		}
	}
	for _, k := range f.Kinds {
		if k < 0 || k > 65535 {
			return false, fmt.Sprintf("filter kind %d outside 0..65535", k)
		}
	}
	for name, vals := range f.Tags {
		if len(name) != 1 || !isASCIILetter(name[0]) {
			return false, "tag filter name is not a single letter"
		}
		if vals == nil {
			return false, "tag filter without a list"
		}
		for _, v := range vals {
			switch name {
			case "e", "p":
				if !IsHex64(v) {
					return false, "#" + name + " value is not 64 lower-case hex"
				}
			case "a":
				parts := strings.SplitN(v, ":", 3)
				if len(parts) != 3 {
					return false, "#a value is not kind:pubkey:d"
				}
				if !IsHex64(parts[1]) {
					return false, "#a pubkey is not 64 lower-case hex"
				}
				// numeric form of the kind part: only the range is judged when it is a plain decimal
				if k, ok := parseDecimal(parts[0]); ok {
					if k < 0 || k > 65535 {
						return false, "#a kind outside 0..65535"
					}
				} else {
					return false, "#a kind is not a number"
				}
			}
		}
	}
	if f.Since != nil && *f.Since < 0 {
		return false, "negative since"
	}
	if f.Until != nil && *f.Until < 0 {
		return false, "negative until"
	}
	if f.Limit != nil && *f.Limit < 0 {
		return false, "negative limit"
	}
	return true, ""
}

func parseDecimal(s string) (int64, bool) {
	if s == "" || len(s) > 18 {
		return 0, false
	}
	neg := false
	i := 0
	if s[0] == '-' || s[0] == '+' {
		neg = s[0] == '-'
		i = 1
		if len(s) == 1 {
			return 0, false
		}
	}
	var v int64
	for ; i < len(s); i++ {
		if s[i] < '0' || s[i] > '9' {
			return 0, false
		}
		v = v*10 + int64(s[i]-'0')
	}
	if neg {
		v = -v
	}
	return v, true
}

// StrictClientMsg applies the predicates to a parsed client message.
func StrictClientMsg(m mocrelay.ClientMsg) (bool, string) {
	switch x := m.(type) {
	case *mocrelay.ClientEventMsg:
		return StrictEvent(x.Event)
	case *mocrelay.ClientAuthMsg:
		return StrictEvent(x.Event)
	case *mocrelay.ClientReqMsg:
		if len(x.ReqFilters) == 0 {
			return false, "REQ without filter"
		}
		for _, f := range x.ReqFilters {
			if ok, why := StrictFilter(f); !ok {
				return false, why
			}
		}
		return true, ""
	case *mocrelay.ClientCountMsg:
		if len(x.ReqFilters) == 0 {
			return false, "COUNT without filter"
		}
		for _, f := range x.ReqFilters {
			if ok, why := StrictFilter(f); !ok {
				return false, why
			}
		}
		return true, ""
	case *mocrelay.ClientCloseMsg:
		return true, ""
	}
	return false, fmt.Sprintf("unknown message type %T", m)
}

// ServerMsgValue draws a well-formed server message value of any of the 7 types.
func ServerMsgValue(t *rapid.T, label string) mocrelay.ServerMsg {
	prefixes := []string{"", "", mocrelay.MachineReadablePrefixDuplicate, mocrelay.MachineReadablePrefixBlocked, mocrelay.MachineReadablePrefixInvalid,
		mocrelay.MachineReadablePrefixPoW, mocrelay.MachineReadablePrefixRateLimited, mocrelay.MachineReadablePrefixError}
	switch rapid.IntRange(0, 6).Draw(t, label+"type") {
	case 0:
		return mocrelay.NewServerEOSEMsg(SubID(t, label+"sub"))
	case 1:
		return mocrelay.NewServerEventMsg(SubID(t, label+"sub"), WireEvent(t, label+"ev.", false))
	case 2:
		return mocrelay.NewServerNoticeMsg(UnicodeString(20).Draw(t, label+"notice"))
	case 3:
		return mocrelay.NewServerOKMsg(hex64(t, label+"id"), rapid.Bool().Draw(t, label+"acc"),
			rapid.SampledFrom(prefixes).Draw(t, label+"prefix"), UnicodeString(16).Draw(t, label+"msg"))
	case 4:
		return &mocrelay.ServerAuthMsg{Challenge: UnicodeString(16).Draw(t, label+"challenge")}
	case 5:
		var approx *bool
		if rapid.Bool().Draw(t, label+"hasapprox") {
			approx = Ptr(rapid.Bool().Draw(t, label+"approx"))
		}
		cnt := rapid.OneOf(rapid.Uint64Range(0, 1000), rapid.Uint64(), rapid.Just(uint64(1<<64-1))).Draw(t, label+"count")
		return mocrelay.NewServerCountMsg(SubID(t, label+"sub"), cnt, approx)
	default:
		return mocrelay.NewServerClosedMsg(SubID(t, label+"sub"), rapid.SampledFrom(prefixes).Draw(t, label+"prefix"), UnicodeString(16).Draw(t, label+"msg"))
	}
}

// Norm turns any protocol value into a plain structure whose JSON rendering is
// a canonical form for semantic equality: nil and empty tags are equal, absent
// and empty filter lists are different, OK/CLOSED compare on Message().
func Norm(v any) any {
	switch x := v.(type) {
	case nil:
		return nil
	case *mocrelay.Event:
		if x == nil {
			return "nil-event"
		}
		tags := make([][]string, len(x.Tags))
		for i, tg := range x.Tags {
			tags[i] = append([]string{}, tg...)
		}
		return map[string]any{"id": x.ID, "pubkey": x.Pubkey, "created_at": x.CreatedAt, "kind": x.Kind, "tags": tags, "content": x.Content, "sig": x.Sig}
	case mocrelay.Event:
		return Norm(&x)
	case *mocrelay.ReqFilter:
		if x == nil {
			return "nil-filter"
		}
		m := map[string]any{}
		if x.IDs != nil {
			m["ids"] = append([]string{}, x.IDs...)
		}
		if x.Authors != nil {
			m["authors"] = append([]string{}, x.Authors...)
		}
		if x.Kinds != nil {
			m["kinds"] = append([]int64{}, x.Kinds...)
		}
		for k, vs := range x.Tags {
			if vs == nil {
				m["#"+k] = "nil-list"
			} else {
				m["#"+k] = append([]string{}, vs...)
			}
		}
		if x.Since != nil {
			m["since"] = *x.Since
		}
		if x.Until != nil {
			m["until"] = *x.Until
		}
		if x.Limit != nil {
			m["limit"] = *x.Limit
		}
		return m
	case mocrelay.ReqFilter:
		return Norm(&x)
	case []*mocrelay.ReqFilter:
		out := make([]any, len(x))
		for i, f := range x {
			out[i] = Norm(f)
		}
		return out
	case *mocrelay.ClientEventMsg:
		return []any{"EVENT", Norm(x.Event)}
	case *mocrelay.ClientAuthMsg:
		return []any{"AUTH", Norm(x.Event)}
	case *mocrelay.ClientReqMsg:
		return []any{"REQ", x.SubscriptionID, Norm(x.ReqFilters)}
	case *mocrelay.ClientCountMsg:
		return []any{"COUNT", x.SubscriptionID, Norm(x.ReqFilters)}
	case *mocrelay.ClientCloseMsg:
		return []any{"CLOSE", x.SubscriptionID}
	case *mocrelay.ServerEOSEMsg:
		return []any{"EOSE", x.SubscriptionID}
	case *mocrelay.ServerEventMsg:
		return []any{"EVENT", x.SubscriptionID, Norm(x.Event)}
	case *mocrelay.ServerNoticeMsg:
		return []any{"NOTICE", x.Message}
	case *mocrelay.ServerOKMsg:
		return []any{"OK", x.EventID, x.Accepted, x.Message()}
	case *mocrelay.ServerAuthMsg:
		return []any{"AUTH", x.Challenge}
	case *mocrelay.ServerCountMsg:
		var ap any
		if x.Approximate != nil {
			ap = *x.Approximate
		}
		return []any{"COUNT", x.SubscriptionID, fmt.Sprint(x.Count), ap}
	case *mocrelay.ServerClosedMsg:
		return []any{"CLOSED", x.SubscriptionID, x.Message()}
	}
	return fmt.Sprintf("unknown %T", v)
}
