package gen

import (
	"fmt"
	"strconv"
	"strings"
	"unicode/utf8"

	"pgregory.net/rapid"
)

// A tiny JSON document model used to *write* wire texts (well-formed ones with
// arbitrary insignificant whitespace, and single-point corruptions of them)
// without going through any encoder of the code under test.

type J interface{}

type (
	JStr string   // a JSON string (rendered with escapes)
	JRaw string   // literal text (numbers, true, false, null, or deliberately broken tokens)
	JArr []J      // array
	JObj []JField // object with ordered members (order and duplicates are the generator's choice)
)

type JField struct {
	K string
	V J
}

func JInt(i int64) JRaw { return JRaw(strconv.FormatInt(i, 10)) }

// RenderOpts controls whitespace and string escape variation.
type RenderOpts struct {
	T          *rapid.T
	Whitespace bool // insert random insignificant whitespace around tokens
	EscapeVar  bool // write some characters of strings as \uXXXX
	n          int
}

var wsChoices = []string{"", "", "", "", "", " ", " ", "\n", "\t", "\r", "  ", " \n\t\r ",
	"", "", "", "", "", " ", " ", "\n", "\t", "\r", "  ", " \n\t\r ",
	"", "", "", "", "", " ", " ", "\n", "\t", "\r", "  ", " \n\t\r ",
	// pretty-printers and padding: long runs of insignificant whitespace
	strings.Repeat(" ", 57), strings.Repeat(" \t", 40), strings.Repeat("\n", 1100), strings.Repeat("\r\n    ", 700)}

func (o *RenderOpts) ws(sb *strings.Builder) {
	if !o.Whitespace || o.T == nil {
		return
	}
	o.n++
	sb.WriteString(rapid.SampledFrom(wsChoices).Draw(o.T, "ws"))
}

// Render writes v as JSON text.
func Render(v J, o *RenderOpts) string {
	if o == nil {
		o = &RenderOpts{}
	}
	var sb strings.Builder
	o.ws(&sb)
	render(&sb, v, o)
	o.ws(&sb)
	return sb.String()
}

func render(sb *strings.Builder, v J, o *RenderOpts) {
	switch x := v.(type) {
	case JStr:
		renderString(sb, string(x), o)
	case JRaw:
		sb.WriteString(string(x))
	case JArr:
		sb.WriteByte('[')
		o.ws(sb)
		for i, e := range x {
			if i > 0 {
				sb.WriteByte(',')
				o.ws(sb)
			}
			render(sb, e, o)
			o.ws(sb)
		}
		sb.WriteByte(']')
	case JObj:
		sb.WriteByte('{')
		o.ws(sb)
		for i, f := range x {
			if i > 0 {
				sb.WriteByte(',')
				o.ws(sb)
			}
			renderString(sb, f.K, o)
			o.ws(sb)
			sb.WriteByte(':')
			o.ws(sb)
			render(sb, f.V, o)
			o.ws(sb)
		}
		sb.WriteByte('}')
	case nil:
		sb.WriteString("null")
	default:
		panic(fmt.Sprintf("jsontext: unknown node %T", v))
	}
}

func renderString(sb *strings.Builder, s string, o *RenderOpts) {
	sb.WriteByte('"')
	for _, r := range s {
		esc := false
		if o.EscapeVar && o.T != nil && r < 0x10000 && r != utf8.RuneError {
			esc = rapid.IntRange(0, 15).Draw(o.T, "esc") == 0
		}
		switch {
		case esc:
			fmt.Fprintf(sb, "\\u%04x", r)
		case r == '"':
			sb.WriteString(`\"`)
		case r == '\\':
			sb.WriteString(`\\`)
		case r == '\n':
			sb.WriteString(`\n`)
		case r == '\r':
			sb.WriteString(`\r`)
		case r == '\t':
			sb.WriteString(`\t`)
		case r < 0x20:
			fmt.Fprintf(sb, "\\u%04x", r)
		default:
			sb.WriteRune(r)
		}
	}
	sb.WriteByte('"')
}

// Path-based editing helpers for corruptions ------------------------------------------------

// ObjGet returns the index of key k in o, or -1.
func ObjGet(o JObj, k string) int {
	for i, f := range o {
		if f.K == k {
			return i
		}
	}
	return -1
}

// ObjSet returns a copy of o with member k set to v (added if absent).
func ObjSet(o JObj, k string, v J) JObj {
	out := append(JObj(nil), o...)
	if i := ObjGet(out, k); i >= 0 {
		out[i] = JField{k, v}
		return out
	}
	return append(out, JField{k, v})
}

// ObjDel returns a copy of o without member k.
func ObjDel(o JObj, k string) JObj {
	out := JObj{}
	for _, f := range o {
		if f.K != k {
			out = append(out, f)
		}
	}
	return out
}
