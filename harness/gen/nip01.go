// Package gen holds the generators and the NIP-01 reference (serializer, event
// classes, filter predicate) that every check uses as its independent oracle.
// Nothing in this file calls the code under test.
package gen

import (
	"crypto/sha256"
	"encoding/hex"
	"strconv"
	"unicode/utf8"

	"github.com/high-moctane/mocrelay"
)

// AppendCanonString appends s as a NIP-01 canonical JSON string: only
// \n \" \\ \r \t \b \f are escaped with the short forms, the remaining bytes
// below 0x20 as \u00xx (lower-case), every other character verbatim.
func AppendCanonString(dst []byte, s string) []byte {
	const hexd = "0123456789abcdef"
	dst = append(dst, '"')
	for i := 0; i < len(s); i++ {
		c := s[i]
		switch c {
		case '\n':
			dst = append(dst, '\\', 'n')
		case '"':
			dst = append(dst, '\\', '"')
		case '\\':
			dst = append(dst, '\\', '\\')
		case '\r':
			dst = append(dst, '\\', 'r')
		case '\t':
			dst = append(dst, '\\', 't')
		case '\b':
			dst = append(dst, '\\', 'b')
		case '\f':
			dst = append(dst, '\\', 'f')
		default:
			if c < 0x20 {
				dst = append(dst, '\\', 'u', '0', '0', hexd[c>>4], hexd[c&0xf])
			} else {
				dst = append(dst, c)
			}
		}
	}
	return append(dst, '"')
}

// Canonical returns the NIP-01 serialization [0,pubkey,created_at,kind,tags,content].
func Canonical(ev *mocrelay.Event) []byte {
	b := make([]byte, 0, 128+len(ev.Content))
	b = append(b, "[0,"...)
	b = AppendCanonString(b, ev.Pubkey)
	b = append(b, ',')
	b = strconv.AppendInt(b, ev.CreatedAt, 10)
	b = append(b, ',')
	b = strconv.AppendInt(b, ev.Kind, 10)
	b = append(b, ",["...)
	for i, tag := range ev.Tags {
		if i > 0 {
			b = append(b, ',')
		}
		b = append(b, '[')
		for j, el := range tag {
			if j > 0 {
				b = append(b, ',')
			}
			b = AppendCanonString(b, el)
		}
		b = append(b, ']')
	}
	b = append(b, "],"...)
	b = AppendCanonString(b, ev.Content)
	b = append(b, ']')
	return b
}

// ComputeID is the lower-case hex SHA-256 of the canonical serialization.
func ComputeID(ev *mocrelay.Event) string {
	h := sha256.Sum256(Canonical(ev))
	return hex.EncodeToString(h[:])
}

// Class of an event kind per NIP-01.
type Class int

const (
	Regular Class = iota
	Replaceable
	Ephemeral
	Addressable
)

func (c Class) String() string {
	return [...]string{"regular", "replaceable", "ephemeral", "addressable"}[c]
}

func ClassOf(kind int64) Class {
	switch {
	case kind == 0 || kind == 3 || (10000 <= kind && kind < 20000):
		return Replaceable
	case 20000 <= kind && kind < 30000:
		return Ephemeral
	case 30000 <= kind && kind < 40000:
		return Addressable
	}
	return Regular
}

// DTag returns (value of the first d tag, whether a d tag exists). A d tag
// with a single element has value "".
func DTag(ev *mocrelay.Event) (string, bool) {
	for _, t := range ev.Tags {
		if len(t) >= 1 && t[0] == "d" {
			if len(t) >= 2 {
				return t[1], true
			}
			return "", true
		}
	}
	return "", false
}

// AddrKey identifies the replaceable / addressable slot of an event.
// ok=false for regular and ephemeral events. Addressable events without a d
// tag are reported with hasD=false (d value "" per NIP-01's "missing or
// empty" wording, but the listed properties leave their storage open).
type AddrKey struct {
	Kind   int64
	Pubkey string
	D      string
	Param  bool // addressable (true) or replaceable (false)
}

func AddrOf(ev *mocrelay.Event) (k AddrKey, ok bool, hasD bool) {
	switch ClassOf(ev.Kind) {
	case Replaceable:
		return AddrKey{Kind: ev.Kind, Pubkey: ev.Pubkey}, true, true
	case Addressable:
		d, has := DTag(ev)
		return AddrKey{Kind: ev.Kind, Pubkey: ev.Pubkey, D: d, Param: true}, true, has
	}
	return AddrKey{}, false, false
}

// AddrString is the `a` tag form kind:pubkey:d of an addressable event.
func AddrString(kind int64, pubkey, d string) string {
	return strconv.FormatInt(kind, 10) + ":" + pubkey + ":" + d
}

// MatchFilter is the NIP-01 predicate written as naive loops.
func MatchFilter(ev *mocrelay.Event, f *mocrelay.ReqFilter) bool {
	if f.IDs != nil {
		ok := false
		for _, id := range f.IDs {
			if id == ev.ID {
				ok = true
			}
		}
		if !ok {
			return false
		}
	}
	if f.Authors != nil {
		ok := false
		for _, a := range f.Authors {
			if a == ev.Pubkey {
				ok = true
			}
		}
		if !ok {
			return false
		}
	}
	if f.Kinds != nil {
		ok := false
		for _, k := range f.Kinds {
			if k == ev.Kind {
				ok = true
			}
		}
		if !ok {
			return false
		}
	}
	for name, vals := range f.Tags {
		ok := false
		for _, tag := range ev.Tags {
			if len(tag) < 2 || tag[0] != name {
				continue
			}
			for _, v := range vals {
				if v == tag[1] {
					ok = true
				}
			}
		}
		if !ok {
			return false
		}
	}
	if f.Since != nil && ev.CreatedAt < *f.Since {
		return false
	}
	if f.Until != nil && ev.CreatedAt > *f.Until {
		return false
	}
	return true
}

// MatchAny: a filter list matches when any member matches.
func MatchAny(ev *mocrelay.Event, fs []*mocrelay.ReqFilter) bool {
	for _, f := range fs {
		if MatchFilter(ev, f) {
			return true
		}
	}
	return false
}

func isLowerHex(s string, n int) bool {
	if len(s) != n {
		return false
	}
	for i := 0; i < len(s); i++ {
		c := s[i]
		if !(('0' <= c && c <= '9') || ('a' <= c && c <= 'f')) {
			return false
		}
	}
	return true
}

// IsHex64 / IsHex128: lower-case hex of exactly that length.
func IsHex64(s string) bool  { return isLowerHex(s, 64) }
func IsHex128(s string) bool { return isLowerHex(s, 128) }

// ValidUTF8 reports whether every string of the event is valid UTF-8 (the
// quantifier of the properties: Unicode scalar values).
func ValidUTF8(ev *mocrelay.Event) bool {
	if !utf8.ValidString(ev.Content) {
		return false
	}
	for _, t := range ev.Tags {
		for _, e := range t {
			if !utf8.ValidString(e) {
				return false
			}
		}
	}
	return true
}
