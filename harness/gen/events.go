package gen

import (
	"crypto/sha256"
	"encoding/hex"
	"fmt"
	"sort"
	"strings"

	"github.com/high-moctane/mocrelay"
	"pgregory.net/rapid"
)

// Characters that JSON encoders commonly treat specially.
var specialRunes = []rune{
	'<', '>', '&', 0x2028, 0x2029, '"', '\\', '/', 0x7f, 0x00, 0x01, 0x08, 0x09, 0x0a, 0x0b, 0x0c, 0x0d,
	0x1f, 0x20, 0xfffd, 0xfeff, 0x1f600, 0x10ffff, 0x0301, 0xe9, 0x3042, 0xd7ff, 0xe000, 0x80, 0x7ff, 0x800, 0xffff, 0x10000,
}

// Rune generates any Unicode scalar value with a boosted escape-sensitive class.
func Rune() *rapid.Generator[rune] {
	return rapid.OneOf(
		rapid.SampledFrom(specialRunes),
		rapid.Map(rapid.IntRange(0x20, 0x7e), func(i int) rune { return rune(i) }),
		rapid.Map(rapid.IntRange(0, 0x1f), func(i int) rune { return rune(i) }),
		rapid.Map(rapid.IntRange(0, 0x10ffff-0x800), func(i int) rune {
			if i >= 0xd800 {
				i += 0x800
			}
			return rune(i)
		}),
	)
}

// UnicodeString generates strings of up to maxLen scalar values.
func UnicodeString(maxLen int) *rapid.Generator[string] {
	plain := rapid.Map(rapid.SliceOfN(Rune(), 0, maxLen), func(rs []rune) string { return string(rs) })
	if maxLen < 4 {
		return plain
	}
	// one in eight strings is built around a snippet that looks like syntax to a
	// scanner working on the text instead of the parsed value
	hostile := rapid.Custom(func(t *rapid.T) string {
		sn := rapid.SampledFrom(HostileSnippets).Draw(t, "snippet")
		pre := string(rapid.SliceOfN(Rune(), 0, 2).Draw(t, "pre"))
		post := ""
		if rapid.Bool().Draw(t, "post?") {
			post = string(rapid.SliceOfN(Rune(), 0, 2).Draw(t, "post"))
		}
		return pre + sn + post
	})
	return rapid.OneOf(plain, plain, plain, plain, plain, plain, plain, hostile)
}

// ProtocolTags are tags to which other NIPs attach a meaning (expiration, protected
// events, delegation, proof of work, ...), with well-formed and malformed values. The
// components under test implement none of these NIPs: such an event is an ordinary event.
var ProtocolTags = []mocrelay.Tag{
	{"expiration", "1"}, {"expiration", "100"}, {"expiration", "1700000000"}, {"expiration", "99999999999"}, {"expiration", ""}, {"expiration", "soon"},
	{"expiration", "1893456000.5"}, {"expiration", "-1"}, {"expiration"}, {"-"}, {"nonce", "12345", "20"}, {"nonce", "x"},
	{"delegation", "ab", "kind=1", "cd"}, {"relay", "wss://relay.example"}, {"challenge", "c"}, {"proxy", "https://x.example/1", "activitypub"},
	{"content-warning"}, {"client", "verif"}, {"alt", "text"}, {"subject", "s"}, {"k", "1"}, {"l", "en", "ISO-639-1"}, {"published_at", "0"},
}

// HostileSnippets are text fragments that a hand-written scanner (escape handling,
// bracket counting, member-name lookup, number detection) can mistake for JSON syntax.
var HostileSnippets = []string{
	"\\ud83d", "\\udd00\\file", "C:\\users\\", "ends with backslash\\", "\\", "\\\\", "\\\"", "\"", "\\n", "\\u0000", "\\u", "\\x41",
	"[", "]", "[[[[[[[[[[", "{", "}", "{\"id\":", "],[", "\",\"", ":", ",",
	"id", "pubkey", "created_at", "kind", "tags", "content", "sig", "ids", "authors", "kinds", "since", "until", "limit", "#e",
	"null", "true", "false", "0", "-1", "1e3", "1700000000", "NaN",
	"EVENT", "REQ", "CLOSE", "AUTH", "COUNT", "</script>", "%s%n", "${x}", "\u0000", "\ufeff",
}

// SimpleString: short printable ASCII (cheap, used where content is irrelevant).
func SimpleString(maxLen int) *rapid.Generator[string] {
	return rapid.StringOfN(rapid.RuneFrom([]rune("abcxyz 019-_")), 0, maxLen, -1)
}

var (
	RegularKinds     = []int64{1, 4, 7, 40000, 65535, 9999, 2}
	ReplaceableKinds = []int64{0, 3, 10000, 19999}
	EphemeralKinds   = []int64{20000, 29999}
	AddressableKinds = []int64{30000, 39999}
	DValues          = []string{"", "a", "b", "a:b", "é", LongD1, LongD2}
	// two long d values that agree in their first 190 bytes
	LongD1 = strings.Repeat("d", 190) + ":one"
	LongD2 = strings.Repeat("d", 190) + ":two"
)

// AnyKind covers 0..65535 with the class boundaries boosted.
func AnyKind() *rapid.Generator[int64] {
	return rapid.OneOf(
		rapid.SampledFrom([]int64{0, 1, 3, 5, 9999, 10000, 19999, 20000, 29999, 30000, 39999, 40000, 65535}),
		rapid.Int64Range(0, 65535),
	)
}

// ManyTagValue is the i-th value of the long tag lists (a valid hex id, so usable under #e/#p).
func ManyTagValue(i int) string { return FakeID(50000 + i) }

// FakeID returns a syntactically valid id that belongs to no generated event.
func FakeID(n int) string {
	h := sha256.Sum256([]byte(fmt.Sprintf("verif-absent-id-%d", n)))
	return hex.EncodeToString(h[:])
}

// World is the universe a history draws from: the events generated so far and
// what can be referenced.
type World struct {
	Authors []string
	Events  []*mocrelay.Event
}

func (w *World) IDs() []string {
	out := make([]string, 0, len(w.Events))
	seen := map[string]bool{}
	for _, e := range w.Events {
		if !seen[e.ID] {
			seen[e.ID] = true
			out = append(out, e.ID)
		}
	}
	return out
}

// Addrs returns `a`-tag strings of the addressable/replaceable events so far.
// Addressable with d tag: kind:pubkey:d. Replaceable: both kind:pubkey: and
// kind:pubkey (whether these delete is left open by the properties).
func (w *World) Addrs(includeOpen bool) []string {
	seen := map[string]bool{}
	var out []string
	add := func(s string) {
		if !seen[s] {
			seen[s] = true
			out = append(out, s)
		}
	}
	for _, e := range w.Events {
		k, ok, hasD := AddrOf(e)
		if !ok {
			continue
		}
		if k.Param {
			if hasD {
				add(AddrString(k.Kind, k.Pubkey, k.D))
			} else if includeOpen {
				add(AddrString(k.Kind, k.Pubkey, ""))
			}
		} else if includeOpen {
			add(AddrString(k.Kind, k.Pubkey, ""))
			add(fmt.Sprintf("%d:%s", k.Kind, k.Pubkey))
		}
	}
	return out
}

// StoreCfg drives the event generator used for store histories.
type StoreCfg struct {
	World         *World
	TsBase        int64
	TsSpan        int64 // timestamps in [TsBase, TsBase+TsSpan]
	UniqueTs      bool  // strictly distinct timestamps (no ties)
	usedTs        map[int64]bool
	NoEphemeral   bool
	NoNoD         bool // never generate addressable events without d tag
	NoOpenRefs    bool // never reference replaceable addresses / d-less addressable in a tags
	UnicodeText   bool
	WeightKind5   int  // relative weight of deletion requests (default 2)
	RegularWeight int  // extra weight of plain regular events (for stores that have to fill up)
	NoManyTags    bool // never generate events with dozens of indexable tags
	ThreeElemRef  bool // allow ["e", id, "wss://r"] forms (default true unless NoThreeElem)
	NoThreeElem   bool
}

func (c *StoreCfg) drawTs(t *rapid.T) int64 {
	if !c.UniqueTs {
		return c.TsBase + rapid.Int64Range(0, c.TsSpan).Draw(t, "ts")
	}
	if c.usedTs == nil {
		c.usedTs = map[int64]bool{}
	}
	span := c.TsSpan
	if span < 4096 {
		span = 4096
	}
	ts := c.TsBase + rapid.Int64Range(0, span).Draw(t, "ts")
	for c.usedTs[ts] {
		ts++
	}
	c.usedTs[ts] = true
	return ts
}

// DrawEvent generates one new event over the world's authors (structurally
// valid: sealed, not signed) and appends it to the world.
func (c *StoreCfg) DrawEvent(t *rapid.T) *mocrelay.Event {
	w := c.World
	ev := &mocrelay.Event{}
	ev.Pubkey = rapid.SampledFrom(w.Authors).Draw(t, "author")
	wk5 := c.WeightKind5
	if wk5 == 0 {
		wk5 = 2
	}
	// class choice
	classes := []int{0, 0, 0, 1, 1, 3, 3, 3}
	for i := 0; i < wk5; i++ {
		classes = append(classes, 4)
	}
	if !c.NoEphemeral {
		classes = append(classes, 2)
	}
	for i := 0; i < c.RegularWeight; i++ {
		classes = append(classes, 0)
	}
	switch rapid.SampledFrom(classes).Draw(t, "class") {
	case 0:
		ev.Kind = rapid.SampledFrom([]int64{1, 1, 7, 40000, 9999}).Draw(t, "kind")
	case 1:
		ev.Kind = rapid.SampledFrom([]int64{0, 10000, 19999, 3}).Draw(t, "kind")
	case 2:
		ev.Kind = rapid.SampledFrom(EphemeralKinds).Draw(t, "kind")
	case 3:
		ev.Kind = rapid.SampledFrom([]int64{30000, 30000, 39999}).Draw(t, "kind")
	case 4:
		ev.Kind = 5
	}
	ev.CreatedAt = c.drawTs(t)
	ev.Tags = []mocrelay.Tag{}

	if ClassOf(ev.Kind) == Addressable {
		mode := rapid.IntRange(0, 10).Draw(t, "dmode")
		switch {
		case mode == 10:
			// the first d tag decides, also when it has no value
			ev.Tags = append(ev.Tags, mocrelay.Tag{"d"}, mocrelay.Tag{"d", rapid.SampledFrom(DValues).Draw(t, "d2")})
		case mode == 0 && !c.NoNoD:
			// no d tag
		case mode == 1:
			ev.Tags = append(ev.Tags, mocrelay.Tag{"d"})
		case mode == 2:
			ev.Tags = append(ev.Tags, mocrelay.Tag{"d", rapid.SampledFrom(DValues).Draw(t, "d"), "extra"})
		case mode == 3:
			ev.Tags = append(ev.Tags, mocrelay.Tag{"d", rapid.SampledFrom(DValues).Draw(t, "d")},
				mocrelay.Tag{"d", rapid.SampledFrom(DValues).Draw(t, "d2")})
		default:
			ev.Tags = append(ev.Tags, mocrelay.Tag{"d", rapid.SampledFrom(DValues).Draw(t, "d")})
		}
	}

	ids := w.IDs()
	addrs := w.Addrs(!c.NoOpenRefs)
	three := !c.NoThreeElem

	drawRef := func(label string) mocrelay.Tag {
		useA := len(addrs) > 0 && rapid.IntRange(0, 2).Draw(t, label+"kindA") == 0
		var tag mocrelay.Tag
		if useA {
			tag = mocrelay.Tag{"a", rapid.SampledFrom(addrs).Draw(t, label+"addr")}
		} else {
			var id string
			if len(ids) > 0 && rapid.IntRange(0, 7).Draw(t, label+"known") != 0 {
				id = rapid.SampledFrom(ids).Draw(t, label+"id")
			} else if rapid.IntRange(0, 5).Draw(t, label+"malformed") == 0 {
				// a reference that names nothing (tag values are free text): it is simply no target
				id = rapid.SampledFrom([]string{"", "xyz", "0123", "not-an-id"}).Draw(t, label+"malformedv")
			} else {
				id = FakeID(rapid.IntRange(0, 3).Draw(t, label+"fake"))
			}
			tag = mocrelay.Tag{"e", id}
		}
		if three && rapid.IntRange(0, 3).Draw(t, label+"three") == 0 {
			tag = append(tag, "wss://r.example")
		}
		return tag
	}

	if ev.Kind == 5 {
		n := rapid.IntRange(1, 3).Draw(t, "nrefs")
		if rapid.IntRange(0, 11).Draw(t, "manyrefs") == 0 {
			// a client cleaning up: dozens of targets in one request
			n = rapid.IntRange(31, 70).Draw(t, "nrefsmany")
		}
		for i := 0; i < n; i++ {
			if n > 3 && i%2 == 1 {
				// mostly targets nobody has seen, so that the known ones sit at any position
				ev.Tags = append(ev.Tags, mocrelay.Tag{"e", FakeID(1000 + i)})
				continue
			}
			ev.Tags = append(ev.Tags, drawRef(fmt.Sprintf("ref%d", i)))
		}
	}
	// a contact list / a long thread: dozens of indexable tags (counts around 64 and its multiples)
	if !c.NoManyTags && rapid.IntRange(0, 39).Draw(t, "manytags") == 0 {
		name := rapid.SampledFrom([]string{"p", "e", "t"}).Draw(t, "manytagsname")
		for i, k := 0, rapid.SampledFrom([]int{63, 64, 65, 127, 128, 129, 192, 256}).Draw(t, "manytagsn"); i < k; i++ {
			ev.Tags = append(ev.Tags, mocrelay.Tag{name, ManyTagValue(i)})
		}
	}
	// generic tags
	n := rapid.IntRange(0, 3).Draw(t, "ntags")
	for i := 0; i < n; i++ {
		switch rapid.IntRange(0, 12).Draw(t, "tagkind") {
		case 12:
			// tag values are arbitrary text (control characters, quotes, astral code points), in
			// indexable and in other tags, in the value and in further elements
			if c.UnicodeText {
				ev.Tags = append(ev.Tags, mocrelay.Tag{rapid.SampledFrom([]string{"t", "r", "alt"}).Draw(t, "utagname"), UnicodeString(5).Draw(t, "utagval"), UnicodeString(3).Draw(t, "utagthird")})
			} else {
				ev.Tags = append(ev.Tags, mocrelay.Tag{"r", "x"})
			}
		case 11:
			// the ends of the single-letter range (indexable like any other letter)
			ev.Tags = append(ev.Tags, mocrelay.Tag{rapid.SampledFrom([]string{"z", "Z", "A", "b", "y"}).Draw(t, "edgename"), rapid.SampledFrom([]string{"x", "y"}).Draw(t, "edgeval")})
		case 10:
			ev.Tags = append(ev.Tags, rapid.SampledFrom(ProtocolTags).Draw(t, "ptag"))
		case 9:
			// the same name twice with different values (multi-valued tag)
			vs := rapid.Permutation([]string{"x", "y", "z"}).Draw(t, "tvs")
			ev.Tags = append(ev.Tags, mocrelay.Tag{"t", vs[0]}, mocrelay.Tag{"t", vs[1]})
		case 0:
			ev.Tags = append(ev.Tags, mocrelay.Tag{"t", rapid.SampledFrom([]string{"x", "y", "z"}).Draw(t, "tv")})
		case 1:
			ev.Tags = append(ev.Tags, mocrelay.Tag{"p", rapid.SampledFrom(w.Authors).Draw(t, "pv")})
		case 2:
			if ev.Kind != 5 {
				ev.Tags = append(ev.Tags, drawRef("gref"))
			}
		case 3:
			ev.Tags = append(ev.Tags, mocrelay.Tag{"t"})
		case 4:
			ev.Tags = append(ev.Tags, mocrelay.Tag{"E", rapid.SampledFrom([]string{"x", "y"}).Draw(t, "Ev")})
		case 5:
			ev.Tags = append(ev.Tags, mocrelay.Tag{"nonce", "1", "2"})
		case 6:
			ev.Tags = append(ev.Tags, mocrelay.Tag{"t", rapid.SampledFrom([]string{"x", "y", "z"}).Draw(t, "tv"), "third"})
		default:
			ev.Tags = append(ev.Tags, mocrelay.Tag{"r", rapid.SampledFrom([]string{"x", "y"}).Draw(t, "rv")})
		}
	}
	if c.UnicodeText {
		ev.Content = UnicodeString(12).Draw(t, "content")
	} else {
		ev.Content = rapid.SampledFrom([]string{"", "a", "b", "c"}).Draw(t, "content")
	}
	// tags come in any order: the d tag (the first one counts) is not always the first tag
	if len(ev.Tags) >= 2 && len(ev.Tags) <= 12 && rapid.Bool().Draw(t, "shuffletags") {
		ev.Tags = rapid.Permutation(ev.Tags).Draw(t, "tagorder")
	}
	Seal(ev)
	w.Events = append(w.Events, ev)
	return ev
}

// DrawNewerOlder generates another version of an existing replaceable /
// addressable event of the world (same address, different timestamp or same
// timestamp with different content), to force version decisions.
func (c *StoreCfg) DrawVersion(t *rapid.T) *mocrelay.Event {
	w := c.World
	var cands []*mocrelay.Event
	for _, e := range w.Events {
		if _, ok, _ := AddrOf(e); ok {
			cands = append(cands, e)
		}
	}
	if len(cands) == 0 {
		return c.DrawEvent(t)
	}
	base := rapid.SampledFrom(cands).Draw(t, "base")
	ev := CloneEvent(base)
	if c.UniqueTs {
		ev.CreatedAt = c.drawTs(t)
	} else {
		ev.CreatedAt = base.CreatedAt + rapid.Int64Range(-2, 2).Draw(t, "dts")
	}
	ev.Content = base.Content + rapid.SampledFrom([]string{"", "v", "w"}).Draw(t, "vcontent")
	Seal(ev)
	w.Events = append(w.Events, ev)
	return ev
}

// DrawVersionOf generates another version of the given event's address.
func (c *StoreCfg) DrawVersionOf(t *rapid.T, base *mocrelay.Event, label string) *mocrelay.Event {
	ev := CloneEvent(base)
	if c.UniqueTs {
		ev.CreatedAt = c.drawTs(t)
	} else {
		ev.CreatedAt = c.TsBase + rapid.Int64Range(0, c.TsSpan).Draw(t, label+"ts")
	}
	ev.Content = base.Content + rapid.SampledFrom([]string{"", "v", "w", "u"}).Draw(t, label+"content")
	Seal(ev)
	c.World.Events = append(c.World.Events, ev)
	return ev
}

// DrawBurst generates 3-4 versions of one address (an existing one if any,
// else a new one) with independent timestamps, to be offered back to back.
func (c *StoreCfg) DrawBurst(t *rapid.T) []*mocrelay.Event {
	var cands []*mocrelay.Event
	for _, e := range c.World.Events {
		if _, ok, hasD := AddrOf(e); ok && hasD {
			cands = append(cands, e)
		}
	}
	var base *mocrelay.Event
	if len(cands) > 0 && rapid.Bool().Draw(t, "burstexisting") {
		base = rapid.SampledFrom(cands).Draw(t, "burstbase")
	} else {
		base = &mocrelay.Event{Pubkey: rapid.SampledFrom(c.World.Authors).Draw(t, "burstauthor"),
			Kind: rapid.SampledFrom([]int64{0, 10000, 30000}).Draw(t, "burstkind"), Tags: []mocrelay.Tag{}}
		if ClassOf(base.Kind) == Addressable {
			base.Tags = append(base.Tags, mocrelay.Tag{"d", rapid.SampledFrom(DValues).Draw(t, "burstd")})
		}
	}
	n := rapid.IntRange(3, 4).Draw(t, "burstn")
	var out []*mocrelay.Event
	for i := 0; i < n; i++ {
		out = append(out, c.DrawVersionOf(t, base, fmt.Sprintf("burst%d.", i)))
	}
	return out
}

// CloneEvent deep-copies an event.
func CloneEvent(e *mocrelay.Event) *mocrelay.Event {
	c := *e
	if e.Tags != nil {
		c.Tags = make([]mocrelay.Tag, len(e.Tags))
		for i, t := range e.Tags {
			c.Tags[i] = append(mocrelay.Tag(nil), t...)
			if c.Tags[i] == nil {
				c.Tags[i] = mocrelay.Tag{}
			}
		}
	}
	return &c
}

// EventEqual compares all seven fields (nil tags equal empty tags).
func EventEqual(a, b *mocrelay.Event) bool {
	if a == nil || b == nil {
		return a == b
	}
	if a.ID != b.ID || a.Pubkey != b.Pubkey || a.CreatedAt != b.CreatedAt || a.Kind != b.Kind ||
		a.Content != b.Content || a.Sig != b.Sig || len(a.Tags) != len(b.Tags) {
		return false
	}
	for i := range a.Tags {
		if len(a.Tags[i]) != len(b.Tags[i]) {
			return false
		}
		for j := range a.Tags[i] {
			if a.Tags[i][j] != b.Tags[i][j] {
				return false
			}
		}
	}
	return true
}

// Brief renders an event compactly for evidence samples and failure reports.
func Brief(e *mocrelay.Event) map[string]any {
	if e == nil {
		return nil
	}
	return map[string]any{
		"id": Short(e.ID), "pk": Short(e.Pubkey), "ts": e.CreatedAt, "kind": e.Kind, "tags": BriefTags(e.Tags), "content": e.Content,
	}
}

func BriefTags(tags []mocrelay.Tag) [][]string {
	out := make([][]string, len(tags))
	for i, t := range tags {
		out[i] = make([]string, len(t))
		for j, s := range t {
			out[i][j] = ShortRef(s)
		}
	}
	return out
}

// Short abbreviates a 64-hex string to 8 chars.
func Short(s string) string {
	if len(s) >= 64 && IsHex64(s[:64]) {
		return s[:8]
	}
	return s
}

// ShortRef abbreviates hex ids inside tag values (including kind:pubkey:d).
func ShortRef(s string) string {
	if len(s) == 64 && IsHex64(s) {
		return s[:8]
	}
	// kind:pubkey:d
	for i := 0; i < len(s); i++ {
		if s[i] == ':' && len(s) >= i+1+64 && IsHex64(s[i+1:i+65]) {
			return s[:i+1] + s[i+1:i+9] + s[i+65:]
		}
	}
	return s
}

// SortedIDs returns the sorted ids of a set of events.
func SortedIDs(evs []*mocrelay.Event) []string {
	out := make([]string, len(evs))
	for i, e := range evs {
		out[i] = e.ID
	}
	sort.Strings(out)
	return out
}

// IDsShort returns the abbreviated ids in order.
func IDsShort(evs []*mocrelay.Event) []string {
	out := make([]string, len(evs))
	for i, e := range evs {
		out[i] = Short(e.ID)
	}
	return out
}

// SortedIDsShort returns sorted abbreviated ids.
func SortedIDsShort(evs []*mocrelay.Event) []string {
	out := IDsShort(evs)
	sort.Strings(out)
	return out
}

// ShortAll abbreviates a list of ids.
func ShortAll(ids []string) []string {
	out := make([]string, len(ids))
	for i, s := range ids {
		out[i] = Short(s)
	}
	return out
}
