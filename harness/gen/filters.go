package gen

import (
	"fmt"
	"sort"

	"github.com/high-moctane/mocrelay"
	"pgregory.net/rapid"
)

// FilterPool is what filters are drawn from: values that occur in the events of
// a case (so that roughly half of the filters match something) plus absent ones.
type FilterPool struct {
	IDs      []string
	Authors  []string
	Kinds    []int64
	TagNames []string            // single-letter names
	TagVals  map[string][]string // non-empty values per name
	Ts       []int64
	MaxLimit int64
	// BigLimits: now and then a limit no store will ever reach (2^31 and beyond), which
	// must behave like a very large limit, not like a small, zero or negative one
	BigLimits bool
	// LongLists: now and then a list of 101-160 filters (clients that subscribe per author
	// or per thread); most of them small, many overlapping
	LongLists bool
	// AllowEmptyTagsMap lets the generator produce Tags: map{} (non-nil, empty).
	AllowEmptyTagsMap bool
	// NoTagCaseClash prevents a filter from carrying both #x and #X.
	NoTagCaseClash bool
}

// PoolFromEvents builds a pool from a set of events.
func PoolFromEvents(evs []*mocrelay.Event, authors []string) *FilterPool {
	p := &FilterPool{TagVals: map[string][]string{}, MaxLimit: 5}
	seenID, seenK, seenTs := map[string]bool{}, map[int64]bool{}, map[int64]bool{}
	seenA := map[string]bool{}
	seenTV := map[string]bool{}
	for _, a := range authors {
		if !seenA[a] {
			seenA[a] = true
			p.Authors = append(p.Authors, a)
		}
	}
	for _, e := range evs {
		if !seenID[e.ID] {
			seenID[e.ID] = true
			p.IDs = append(p.IDs, e.ID)
		}
		if !seenA[e.Pubkey] {
			seenA[e.Pubkey] = true
			p.Authors = append(p.Authors, e.Pubkey)
		}
		if !seenK[e.Kind] {
			seenK[e.Kind] = true
			p.Kinds = append(p.Kinds, e.Kind)
		}
		if !seenTs[e.CreatedAt] {
			seenTs[e.CreatedAt] = true
			p.Ts = append(p.Ts, e.CreatedAt)
		}
		for _, t := range e.Tags {
			if len(t) >= 2 && len(t[0]) == 1 && isASCIILetter(t[0][0]) && t[1] != "" {
				k := t[0] + "\x00" + t[1]
				if !seenTV[k] {
					seenTV[k] = true
					p.TagVals[t[0]] = append(p.TagVals[t[0]], t[1])
				}
			}
		}
	}
	for n := range p.TagVals {
		p.TagNames = append(p.TagNames, n)
	}
	sort.Strings(p.TagNames)
	sort.Slice(p.Kinds, func(i, j int) bool { return p.Kinds[i] < p.Kinds[j] })
	sort.Slice(p.Ts, func(i, j int) bool { return p.Ts[i] < p.Ts[j] })
	return p
}

func isASCIILetter(c byte) bool { return ('a' <= c && c <= 'z') || ('A' <= c && c <= 'Z') }

func drawSubset[T any](t *rapid.T, label string, pool []T, absent func(i int) T) []T {
	// empty list (matches nothing) with small probability
	mode := rapid.IntRange(0, 11).Draw(t, label+"mode")
	if mode == 0 {
		return []T{}
	}
	n := rapid.IntRange(1, 3).Draw(t, label+"n")
	out := make([]T, 0, n)
	for i := 0; i < n; i++ {
		if len(pool) > 0 && rapid.IntRange(0, 5).Draw(t, fmt.Sprintf("%sp%d", label, i)) != 0 {
			out = append(out, rapid.SampledFrom(pool).Draw(t, fmt.Sprintf("%sv%d", label, i)))
		} else {
			out = append(out, absent(rapid.IntRange(0, 2).Draw(t, fmt.Sprintf("%sa%d", label, i))))
		}
	}
	return out
}

// DrawFilter draws one filter. presence is the per-condition probability
// numerator out of 10 that a condition is present.
func (p *FilterPool) DrawFilter(t *rapid.T, label string) *mocrelay.ReqFilter {
	f := &mocrelay.ReqFilter{}
	if len(p.TagNames) > 0 && rapid.IntRange(0, 7).Draw(t, label+"tagonly?") == 0 {
		// one multi-valued #x condition with a small limit
		name := rapid.SampledFrom(p.TagNames).Draw(t, label+"toname")
		f.Tags = map[string][]string{name: append([]string{}, p.TagVals[name]...)}
		if rapid.Bool().Draw(t, label+"tolim?") {
			f.Limit = ptr(rapid.Int64Range(1, 3).Draw(t, label+"tolim"))
		}
		return f
	}
	pres := func(name string, num int) bool {
		return rapid.IntRange(0, 9).Draw(t, label+name+"?") < num
	}
	if pres("ids", 2) {
		f.IDs = drawSubset(t, label+"ids", p.IDs, func(i int) string { return FakeID(100 + i) })
	}
	if pres("authors", 3) {
		f.Authors = drawSubset(t, label+"authors", p.Authors, func(i int) string { return FakeID(200 + i) })
	}
	// near twins: a listed id or author next to a value that agrees with it on a prefix or
	// suffix (proof-of-work ids, vanity keys); only whole values select
	if len(f.IDs) > 0 && rapid.IntRange(0, 3).Draw(t, label+"idtwin?") == 0 {
		f.IDs = withNearTwin(t, label+"idtwin", f.IDs)
	}
	if len(f.Authors) > 0 && rapid.IntRange(0, 3).Draw(t, label+"authortwin?") == 0 {
		f.Authors = withNearTwin(t, label+"authortwin", f.Authors)
	}
	if pres("kinds", 4) {
		f.Kinds = drawSubset(t, label+"kinds", p.Kinds, func(i int) int64 { return []int64{2, 6, 30001}[i] })
	}
	if pres("tags", 4) {
		f.Tags = map[string][]string{}
		n := rapid.IntRange(1, 2).Draw(t, label+"ntags")
		if p.AllowEmptyTagsMap && rapid.IntRange(0, 9).Draw(t, label+"emptytags") == 0 {
			n = 0
		}
		names := append([]string{}, p.TagNames...)
		for _, extra := range []string{"e", "p", "t", "E", "q"} {
			found := false
			for _, nm := range names {
				if nm == extra {
					found = true
				}
			}
			if !found {
				names = append(names, extra)
			}
		}
		for i := 0; i < n; i++ {
			name := rapid.SampledFrom(names).Draw(t, fmt.Sprintf("%stn%d", label, i))
			if p.NoTagCaseClash {
				clash := false
				for other := range f.Tags {
					if other != name && eqFold1(other, name) {
						clash = true
					}
				}
				if clash {
					continue
				}
			}
			f.Tags[name] = drawSubset(t, fmt.Sprintf("%stv%d", label, i), p.TagVals[name], func(i int) string { return []string{"nope", "x", "zz"}[i] })
		}
	}
	if pres("since", 2) {
		f.Since = ptr(p.drawTs(t, label+"since"))
	}
	if pres("until", 2) {
		f.Until = ptr(p.drawTs(t, label+"until"))
	}
	if pres("limit", 4) {
		f.Limit = ptr(rapid.Int64Range(0, p.MaxLimit).Draw(t, label+"limit"))
		if p.BigLimits && rapid.IntRange(0, 5).Draw(t, label+"biglimit") == 0 {
			f.Limit = ptr(rapid.SampledFrom([]int64{1<<31 - 1, 1 << 31, 1<<32 - 1, 1 << 32, 1<<32 + 1, 1<<32 + 2, 1 << 40, 1<<63 - 1}).Draw(t, label+"biglimitv"))
		}
	}
	return f
}

func eqFold1(a, b string) bool {
	if len(a) != 1 || len(b) != 1 {
		return false
	}
	x, y := a[0], b[0]
	if 'A' <= x && x <= 'Z' {
		x += 'a' - 'A'
	}
	if 'A' <= y && y <= 'Z' {
		y += 'a' - 'A'
	}
	return x == y
}

func (p *FilterPool) drawTs(t *rapid.T, label string) int64 {
	if len(p.Ts) == 0 {
		return rapid.Int64Range(0, 10).Draw(t, label)
	}
	// far bounds: clients send "until: far future" and "since: 0"; any int64 >= 0 is a timestamp
	if rapid.IntRange(0, 4).Draw(t, label+"far") == 0 {
		return rapid.SampledFrom([]int64{0, 1, 1<<31 - 2, 1<<31 - 1, 1 << 31, 1<<32 - 1, 1 << 32, 1<<53 + 1, 1 << 62, 1<<63 - 1}).Draw(t, label+"farv")
	}
	base := rapid.SampledFrom(p.Ts).Draw(t, label+"base")
	return base + rapid.Int64Range(-1, 1).Draw(t, label+"d")
}

// DrawFilters draws a list of min..max filters.
func (p *FilterPool) DrawFilters(t *rapid.T, label string, min, max int) []*mocrelay.ReqFilter {
	n := rapid.IntRange(min, max).Draw(t, label+"nf")
	if p.LongLists && max > 1 && rapid.IntRange(0, 59).Draw(t, label+"longlist") == 0 {
		n = rapid.SampledFrom([]int{100, 101, 102, 128, 160}).Draw(t, label+"nflong")
		out := make([]*mocrelay.ReqFilter, n)
		base := []*mocrelay.ReqFilter{p.DrawFilter(t, label+"b0."), p.DrawFilter(t, label+"b1."), p.DrawFilter(t, label+"b2."), {}}
		for i := range out {
			// overlapping members: copies of a few drawn filters with small limits, so that the
			// same events are matched from the front, the middle and the end of the list
			c := *base[rapid.IntRange(0, len(base)-1).Draw(t, fmt.Sprintf("%sl%d", label, i))]
			if rapid.Bool().Draw(t, fmt.Sprintf("%sl%dlim", label, i)) {
				c.Limit = ptr(rapid.Int64Range(1, 3).Draw(t, fmt.Sprintf("%sl%dlimv", label, i)))
			}
			out[i] = &c
		}
		return out
	}
	out := make([]*mocrelay.ReqFilter, n)
	for i := range out {
		out[i] = p.DrawFilter(t, fmt.Sprintf("%sf%d.", label, i))
	}
	return out
}

func ptr[T any](v T) *T { return &v }

// Ptr is exported for tests.
func Ptr[T any](v T) *T { return &v }

// BriefFilter renders a filter compactly.
func BriefFilter(f *mocrelay.ReqFilter) map[string]any {
	m := map[string]any{}
	if f.IDs != nil {
		m["ids"] = shortAll(f.IDs)
	}
	if f.Authors != nil {
		m["authors"] = shortAll(f.Authors)
	}
	if f.Kinds != nil {
		m["kinds"] = f.Kinds
	}
	if f.Tags != nil {
		tm := map[string][]string{}
		for k, v := range f.Tags {
			tm["#"+k] = shortAll(v)
		}
		m["tags"] = tm
	}
	if f.Since != nil {
		m["since"] = *f.Since
	}
	if f.Until != nil {
		m["until"] = *f.Until
	}
	if f.Limit != nil {
		m["limit"] = *f.Limit
	}
	return m
}

func BriefFilters(fs []*mocrelay.ReqFilter) []map[string]any {
	out := make([]map[string]any, len(fs))
	for i, f := range fs {
		out[i] = BriefFilter(f)
	}
	return out
}

func shortAll(ss []string) []string {
	out := make([]string, len(ss))
	for i, s := range ss {
		out[i] = ShortRef(s)
	}
	return out
}

// withNearTwin inserts, before or after one element of list, a value of the same length that
// shares its first (or last) k characters and differs everywhere else.
func withNearTwin(t *rapid.T, label string, list []string) []string {
	i := rapid.IntRange(0, len(list)-1).Draw(t, label+"i")
	v := list[i]
	if len(v) < 2 {
		return list
	}
	k := rapid.SampledFrom([]int{1, 4, 8, 16, 32, 63}).Draw(t, label+"k")
	if k >= len(v) {
		k = len(v) - 1
	}
	suffix := rapid.Bool().Draw(t, label+"suffix")
	b := []byte(v)
	for j := range b {
		keep := j < k
		if suffix {
			keep = j >= len(b)-k
		}
		if !keep {
			switch c := b[j]; {
			case c >= '0' && c < '9', c >= 'a' && c < 'f':
				b[j] = c + 1
			case c == '9':
				b[j] = 'a'
			default:
				b[j] = '0'
			}
		}
	}
	twin := string(b)
	out := make([]string, 0, len(list)+1)
	out = append(out, list[:i]...)
	if rapid.Bool().Draw(t, label+"after") {
		out = append(out, v, twin)
	} else {
		out = append(out, twin, v)
	}
	return append(out, list[i+1:]...)
}
