#!/usr/bin/env python3
"""Runs the quick tier of the owning property (and listed alternates) against every seeded change and writes seeded/KILLTABLE.md."""
import glob, json, os, re, subprocess, sys
ALT = {"C01-2": ["C12"], "C01-4": ["C12", "C11"], "C11-1": ["C12"], "C11-3": ["C12"], "C04-3": ["C05"], "C13-2": ["C19"], "C12-4": ["C11"], "C05-6": ["C15"], "C04-5": ["C05"], "C14-6": ["C16"], "C14-8": ["C16"], "C16-8": ["C13"], "C01-8": ["C10"], "C04-8": ["C05"], "C01-10": ["C12"], "C02-9": ["C10", "C11"], "C04-9": ["C05", "C15"], "C18-9": ["C17"], "C14-9": ["C16"], "C19-10": ["C17"], "C01-9": ["C11"], "C04-12": ["C05"], "C16-11": ["C14", "C06"], "C11-12": ["C12", "C01"], "C02-12": ["C03"], "C13-14": ["C19"], "C16-14": ["C15"], "C14-14": ["C06"], "C01-15": ["C12"], "C02-16": ["C10"], "C05-16": ["C03"], "C11-15": ["C12"], "C18-15": ["C17"], "C17-15": ["C02"], "C13-15": ["C19"]}
rows = []
only = sys.argv[1] if len(sys.argv) > 1 else None  # regex over seed names: re-run these and merge into the table
old = {}
if only and os.path.exists('/verif/seeded/KILLTABLE.md'):
    for l in open('/verif/seeded/KILLTABLE.md'):
        m = re.match(r'\| (C\d+-\d+) \| (.*) \| (.*) \|$', l.rstrip())
        if m:
            old[m.group(1)] = (m.group(1), m.group(2), m.group(3))
def seedkey(d):
    a, b = os.path.basename(d).split('-')
    return (a, int(b))
for d in sorted(glob.glob('/verif/seeded/C*-*'), key=seedkey):
    if only and not re.search(only, os.path.basename(d)):
        if os.path.basename(d) in old:
            rows.append(old[os.path.basename(d)])
        continue
    name = os.path.basename(d)
    prop = name.split('-')[0]
    meta = json.load(open(d + '/meta.json'))
    caught = []
    for p in [prop] + ALT.get(name, []):
        out = subprocess.run(['/verif/tools/trymut.sh', d + '/patch.diff', p], capture_output=True, text=True).stdout
        m = re.search(r'rc=(\d+)', out)
        rc = m.group(1) if m else '?'
        sigs = []
        for rp in re.findall(r'replay=(\S+)', out):
            try:
                sigs.append(json.load(open(rp)).get('signature', '?'))
            except Exception:
                pass
        if rc == '1':
            caught.append('%s (%s)' % (p, ', '.join(sorted(set(sigs)))))
        elif rc not in ('0',):
            caught.append('%s rc=%s' % (p, rc))
        if rc == '1' and p == prop:
            break
    rows.append((name, (meta.get('summary') or '')[:110].replace('|', '/').replace('\n', ' '), '; '.join(caught) if caught else 'NOT CAUGHT'))
    print(rows[-1], flush=True)
with open(os.environ.get('KILLTABLE_OUT', '/verif/seeded/KILLTABLE.md'), 'w') as f:
    f.write('| seed | change | caught by (quick tier, VERIF_SEED=%s) |' % os.environ.get('VERIF_SEED', '1') + '\n|---|---|---|\n')
    for r in rows:
        f.write('| %s | %s | %s |\n' % r)
