#!/usr/bin/env python3
"""Like killtable.py for the seeds matching argv[1], but through tools/partry.sh (private copies of /verif and /repo,
several seeds at once; /repo and /verif/evidence are never touched). Merges the rows into seeded/KILLTABLE.md."""
import glob, json, os, re, subprocess, sys
from concurrent.futures import ThreadPoolExecutor
sys.path.insert(0, '/verif/tools')
src = open('/verif/tools/killtable.py').read()
ALT = eval(re.search(r'^ALT = (\{.*\})$', src, re.M).group(1))
ALT.update({"C04-17": ["C05"], "C04-18": ["C03"], "C11-17": ["C12"], "C11-18": ["C12"], "C10-18": ["C12"]})
only = sys.argv[1]
par = int(sys.argv[2]) if len(sys.argv) > 2 else 4
def seedkey(n):
    a, b = n.split('-'); return (a, int(b))
names = sorted([os.path.basename(d) for d in glob.glob('/verif/seeded/C*-*') if re.search(only, os.path.basename(d))], key=seedkey)
def one(name):
    prop = name.split('-')[0]
    caught = []
    for p in [prop] + ALT.get(name, []):
        out = subprocess.run(['/verif/tools/partry.sh', name, p], capture_output=True, text=True).stdout
        m = re.search(r'rc=(\d+)', out)
        rc = m.group(1) if m else '?'
        sigs = sorted(set(re.findall(r'sig: (\S+)', out)))
        if rc == '1':
            caught.append('%s (%s)' % (p, ', '.join(sigs)))
        elif rc != '0':
            caught.append('%s rc=%s' % (p, rc))
        if rc == '1' and p == prop:
            break
    meta = json.load(open('/verif/seeded/%s/meta.json' % name))
    row = (name, (meta.get('summary') or '')[:110].replace('|', '/').replace('\n', ' '), '; '.join(caught) if caught else 'NOT CAUGHT')
    print(row, flush=True)
    return row
with ThreadPoolExecutor(par) as ex:
    new = {r[0]: r for r in ex.map(one, names)}
rows = {}
head = None
for l in open('/verif/seeded/KILLTABLE.md'):
    m = re.match(r'\| (C\d+-\d+) \| (.*) \| (.*) \|$', l.rstrip())
    if m:
        rows[m.group(1)] = (m.group(1), m.group(2), m.group(3))
    elif head is None:
        head = l
rows.update(new)
with open(os.environ.get('KILLTABLE_OUT', '/verif/seeded/KILLTABLE.md'), 'w') as f:
    f.write(head + '|---|---|---|\n')
    for n in sorted(rows, key=seedkey):
        f.write('| %s | %s | %s |\n' % rows[n])
