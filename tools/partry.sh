#!/bin/bash
# usage: partry.sh <seed-name> <prop> [tier]  -- run a check against a seeded change in private copies of /verif and /repo
# (a scratch worktree of /repo with the patch, a copy of /verif without build output), so that several seeds can be
# tried at once and /repo itself is never touched. Prints the VIOLATION lines and rc; removes the copies.
set -u
name=$1; prop=$2; tier=${3:-quick}
d=/tmp/pt/$name-$prop; rm -rf "$d"; mkdir -p "$d"
git -C /repo worktree prune
git -C /repo worktree add -q --detach "$d/repo" HEAD || exit 2
cleanup() { git -C /repo worktree remove --force "$d/repo" 2>/dev/null; rm -rf "$d"; }
trap cleanup EXIT
( cd "$d/repo" && (git apply "/verif/seeded/$name/patch.diff" 2>/dev/null || git apply --3way "/verif/seeded/$name/patch.diff") ) || { echo "$name: PATCH DOES NOT APPLY"; exit 3; }
rsync -a --exclude .work --exclude seeded --exclude replays --exclude .git /verif/ "$d/verif/"
out=$(cd "$d/verif" && VERIF_REPO="$d/repo" VERIF_SEED=${VERIF_SEED:-1} ./run "$prop" "$tier" 2>&1); rc=$?
echo "$name vs $prop: rc=$rc $(echo "$out" | grep -E 'VIOLATION|INCONCLUSIVE|BUILD' | sed -E 's#replay=\S+/##' | head -4 | tr '\n' ' ')"
if [ $rc -eq 1 ]; then for f in $(echo "$out" | grep -oE 'replay=\S+' | cut -d= -f2 | head -2); do python3 -c "import json;j=json.load(open('$f'));print('   sig:',j.get('signature'),'|',str(j.get('observed'))[:160])" 2>/dev/null; done; fi
