#!/bin/bash
# usage: verify_seed.sh <out-dir of a sub-agent, e.g. /tmp/mut/out/C02-1> [base-commit]
# Confirms in a scratch worktree: (1) patch applies and compiles, (2) the existing suite passes with it,
# (3) the demonstration fails with it, (4) the demonstration passes without it. On success copies the
# material to /verif/seeded/<name>/ and appends what was run to meta.json.
set -u
src=$1; name=$(basename "$src"); base=${2:-HEAD}
export GOFLAGS=-mod=mod GOPROXY=off GOSUMDB=off GOTOOLCHAIN=local
wt=/tmp/seedverify/$name
rm -rf "$wt"; mkdir -p /tmp/seedverify
git -C /repo worktree prune
git -C /repo worktree add -q --detach "$wt" "$base" || exit 2
cleanup() { git -C /repo worktree remove --force "$wt" 2>/dev/null; rm -rf "$wt"; }
trap cleanup EXIT
cd "$wt"
if ! git apply "$src/patch.diff" 2>/tmp/seedverify/$name.err; then
  if ! git apply --3way "$src/patch.diff" 2>>/tmp/seedverify/$name.err; then echo "$name: PATCH DOES NOT APPLY on $base"; cat /tmp/seedverify/$name.err; exit 3; fi
fi
demo_file=$(python3 -c "import json;print(json.load(open('$src/meta.json'))['demo_file'])")
demo_dir=$(python3 -c "import json;print(json.load(open('$src/meta.json')).get('demo_package_dir','.'))")
demo_cmd=$(python3 -c "import json;print(json.load(open('$src/meta.json'))['demo_cmd'])")
# normalise the demo command to this worktree
demo_cmd=${demo_cmd//\/tmp\/mut\/${name%-*}/$wt}
if ! go build ./... 2>/tmp/seedverify/$name.err; then echo "$name: DOES NOT COMPILE"; cat /tmp/seedverify/$name.err; exit 4; fi
suite=$(go test -vet=off -count=1 ./... 2>&1); src_rc=$?
if [ $src_rc -ne 0 ]; then echo "$name: EXISTING SUITE FAILS WITH PATCH"; echo "$suite" | tail -20; exit 5; fi
cp "$src/$demo_file" "$wt/$demo_dir/$demo_file"
with=$(bash -c "$demo_cmd" 2>&1); with_rc=$?
git apply -R "$src/patch.diff" 2>/dev/null || git checkout -- $(git diff --name-only)
without=$(bash -c "$demo_cmd" 2>&1); without_rc=$?
echo "$name: suite_with_patch=ok demo_with_patch_rc=$with_rc demo_without_patch_rc=$without_rc"
if [ $with_rc -eq 0 ] || [ $without_rc -ne 0 ]; then echo "$name: DEMONSTRATION NOT CONFIRMED"; echo "--- with:"; echo "$with" | tail -15; echo "--- without:"; echo "$without" | tail -15; exit 6; fi
dst=/verif/seeded/$name
mkdir -p "$dst"
cp "$src/patch.diff" "$dst/patch.diff"; cp "$src/$demo_file" "$dst/$demo_file"
python3 - "$src/meta.json" "$dst/meta.json" "$base" "$(git -C /repo rev-parse --short $base)" <<'PY'
import json,sys
m=json.load(open(sys.argv[1]))
m['confirmed_by_verify_seed']={'base':sys.argv[4],'ran':['git apply patch.diff (scratch worktree of /repo at %s)'%sys.argv[4],'go build ./... : ok','go test -vet=off -count=1 ./... : ok (existing suite passes with the change)','demo with change: FAILS (non-zero exit)','demo without change: passes']}
json.dump(m,open(sys.argv[2],'w'),indent=1)
PY
echo "$name: CONFIRMED -> $dst"
