#!/bin/bash
# usage: seed_cycle.sh <name e.g. C08-3> [property ...]   -- verify a sub-agent's seed, then run the quick checks against it
name=$1; shift
props=${@:-${name%-*}}
out=$(/verif/tools/verify_seed.sh /tmp/mut/out/$name 2>&1 | tail -1)
echo "$out"
case "$out" in *CONFIRMED*) ;; *) exit 1;; esac
for p in $props; do
  r=$(/verif/tools/trymut.sh /verif/seeded/$name/patch.diff $p 2>&1 | grep -E "VIOLATION|rc=|PATCH|BUILD" | tr '\n' ' ')
  echo "  $name vs $p: $r"
done
