#!/bin/bash
# runs every registered quick (or $1=thorough) check on the current tree; prints a summary line per property
tier=${1:-quick}
cd /verif
fail=0
for p in $(python3 -c "from runconf import PROPS; print(' '.join(sorted(PROPS)))"); do
  out=$(./run $p $tier 2>&1); rc=$?
  echo "$p rc=$rc $(echo "$out" | tail -1)"
  if [ $rc -ne 0 ]; then fail=1; echo "$out" | grep -E "VIOLATION|INCONCLUSIVE|KNOWN" | head -5; fi
done
exit $fail
