#!/bin/bash
# usage: trymut.sh <patch.diff> <prop> [tier]   -- apply a seeded change to /repo, run the check, undo.
set -u
patch=$1; prop=$2; tier=${3:-quick}
cd /repo || exit 2
if [ -n "$(git status --porcelain)" ]; then echo "/repo not clean"; exit 2; fi
if ! git apply --3way "$patch" 2>/tmp/trymut.err && ! git apply "$patch" 2>>/tmp/trymut.err; then echo "PATCH DOES NOT APPLY"; cat /tmp/trymut.err; git checkout -- . 2>/dev/null || git reset -q --hard HEAD; exit 3; fi
git reset -q 2>/dev/null
cp /verif/evidence/$prop.json /tmp/trymut-evidence-$prop.json 2>/dev/null
cd /verif && VERIF_SEED=${VERIF_SEED:-1} ./run "$prop" "$tier" 2>&1 | grep -E "VIOLATION|KNOWN|INCONCLUSIVE|BUILD|cases" ; rc=${PIPESTATUS[0]}
git -C /repo checkout -- . 2>/dev/null || git -C /repo reset -q --hard HEAD; git -C /repo status --porcelain
cp /tmp/trymut-evidence-$prop.json /verif/evidence/$prop.json 2>/dev/null
echo "rc=$rc"
