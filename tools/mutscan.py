#!/usr/bin/env python3
"""Systematic single-token mutants of /repo (operator flips on the lines of the files the
properties are anchored in). For each mutant that still compiles and still passes the
repository's own suite, the quick checks of the properties mapped to that file are run.
Survivors (nothing reported) are listed with their one-line diff: each is either an
equivalent mutant or a gap in the checks.

usage: mutscan.py <file-regex> [per-file-sample] [seed]     (runs in /repo, restores the file after every mutant)
"""
import json, os, random, re, subprocess, sys, time

ENV = dict(os.environ, GOFLAGS="-mod=mod", GOPROXY="off", GOSUMDB="off", GOTOOLCHAIN="local")
FILES = {
    "event_matcher.go": ["C02"],
    "event_cache.go": ["C03", "C04", "C05", "C15"],
    "message.go": ["C01", "C10", "C11", "C04"],
    "utils.go": ["C10", "C11", "C07"],
    "relay.go": ["C12", "C13"],
    "server.go": ["C20"],
    "nip11.go": ["C20", "C17"],
    "data_structure.go": ["C07", "C13"],
    "handler/sqlite/insert.go": ["C06", "C14"],
    "handler/sqlite/query.go": ["C06", "C16"],
    "handler/sqlite/handler.go": ["C16", "C13"],
    "middleware/prometheus/prometheus.go": ["C19"],
    # handler.go is split by line ranges (see HANDLER_RANGES)
}
# (first line, last line, properties) of handler.go regions, found by function names at run time
HANDLER_FUNCS = [
    (r"RouterHandler|subscriber", ["C07", "C13"]),
    (r"mergeHandler|MergeHandler", ["C08", "C09"]),
    (r"CacheHandler|simpleCacheHandler", ["C16", "C15"]),
    (r"MaxSubscriptions|UniqueFilter", ["C18"]),
    (r"MaxReqFilters|MaxLimit|MaxSubIDLength|MaxEventTags|MaxContentLength|CreatedAt|RecvEventAllowFilter|RecvEventDenyFilter|BuildMiddlewareFromNIP11", ["C17"]),
    (r"simpleMiddleware|SimpleMiddleware|SimpleHandler|simpleHandler", ["C17", "C18", "C19", "C16"]),
]
OPS = [
    (r"<=", "<"), (r">=", ">"), (r"(?<![<>=!])<(?![<=-])", "<="), (r"(?<![<>=!-])>(?![>=])", ">="),
    (r"==", "!="), (r"!=", "=="), (r"&&", "||"), (r"\|\|", "&&"),
    (r"\+ 1\b", "+ 2"), (r"- 1\b", "- 0"), (r"\btrue\b", "false"), (r"\bfalse\b", "true"),
    (r"!(?=[a-zA-Z(])", ""), (r"\bcontinue\b", "break"), (r"\[1:\]", "[0:]"), (r"\[:0\]", "[:1]"),
]


def sh(cmd, cwd="/repo", timeout=900):
    p = subprocess.run(cmd, shell=True, cwd=cwd, env=ENV, capture_output=True, text=True, timeout=timeout)
    return p.returncode, p.stdout + p.stderr


def handler_props(lines, i):
    # the enclosing func header decides
    for j in range(i, -1, -1):
        if lines[j].startswith("func "):
            for rx, props in HANDLER_FUNCS:
                if re.search(rx, lines[j]):
                    return props
            return None
    return None


def candidates(path, lines):
    out = []
    in_block_comment = False
    for i, l in enumerate(lines):
        s = l.strip()
        if s.startswith("//") or not s or s.startswith("import") or s.startswith("package"):
            continue
        code = l.split("//")[0]
        if '"' in code:  # keep string literals out of it: mutate only the part before the first quote
            code = code.split('"')[0]
        for rx, rep in OPS:
            for m in re.finditer(rx, code):
                out.append((i, m.start(), m.end(), rep))
    return out


def main():
    pat = sys.argv[1]
    per_file = int(sys.argv[2]) if len(sys.argv) > 2 else 20
    seed = int(sys.argv[3]) if len(sys.argv) > 3 else 1
    rnd = random.Random(seed)
    results = []
    targets = list(FILES) + ["handler.go"]
    for f in targets:
        if not re.search(pat, f):
            continue
        path = os.path.join("/repo", f)
        orig = open(path).read()
        lines = orig.split("\n")
        cands = candidates(path, lines)
        rnd.shuffle(cands)
        done = 0
        for (i, a, b, rep) in cands:
            if done >= per_file:
                break
            props = FILES.get(f) or handler_props(lines, i)
            if not props:
                continue
            new = lines[i][:a] + rep + lines[i][b:]
            if new == lines[i]:
                continue
            mutated = lines[:i] + [new] + lines[i + 1:]
            open(path, "w").write("\n".join(mutated))
            try:
                rc, out = sh("go build ./... && go vet ./... 2>/dev/null; go build ./...")
                if rc != 0:
                    continue
                rc, out = sh("go test -vet=off -count=1 ./...", timeout=1200)
                done += 1
                rec = {"file": f, "line": i + 1, "before": lines[i].strip(), "after": new.strip(), "props": props}
                if rc != 0:
                    rec["verdict"] = "killed by the repository's suite"
                    results.append(rec)
                    print(json.dumps(rec), flush=True)
                    continue
                caught = []
                for p in props:
                    rc2, out2 = sh("VERIF_SEED=1 ./run %s quick" % p, cwd="/verif", timeout=1800)
                    if "VIOLATION" in out2:
                        caught.append(p)
                        break
                    if rc2 == 2:
                        caught.append(p + " (inconclusive)")
                rec["verdict"] = ("caught by " + ", ".join(caught)) if caught else "SURVIVED"
                results.append(rec)
                print(json.dumps(rec), flush=True)
            finally:
                open(path, "w").write(orig)
        sh("git checkout -- %s" % f)
    sh("git checkout -- .", cwd="/verif/evidence")
    surv = [r for r in results if r["verdict"] == "SURVIVED"]
    suite = [r for r in results if r["verdict"].startswith("killed")]
    print("SUMMARY mutants=%d killed_by_suite=%d caught_by_checks=%d survived=%d" % (len(results), len(suite), len(results) - len(suite) - len(surv), len(surv)))


if __name__ == "__main__":
    main()
